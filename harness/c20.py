"""C20 - mixins.  Proof: coq/Props/C20.v over the programs regenerated from generic_mixin.py and
with_decorated_methods.py (Gen/Mixins.v) and interpreted by Model/Mixins.v.
Correspondence stream `mixins`: generated class layouts (stream tv: type_vars / type_var) and generated class
bodies with decorator assignments (stream dm: get_decorated_functions); the classes are created by CPython from
generated class statements, their layout (own __orig_bases__, MRO, dir()) is read back and handed to the model."""
import json
from lib import *

UNITS = ['Mixins']
MODEL = ['Model/MixinsEval.vo']
PROPS = 'Props/C20.v'
PRE = ('From Coq Require Import List ZArith Bool String.\n'
       'From PV Require Import Base.Exn Model.Mixins Spec.MixinsSpec Gen.Mixins Model.MixinsEval.\nImport ListNotations.')

ASSERTION = 56          # exn_code of AssertionErrorC = [0; 5]
MEMBER_POOL = ['_foo', '_bar', '_baz', 'x_mark']
DUNDER_NAMES = ['__call__', '__enter__', '__custom__']
STANDARD = {'_abc_impl': 'tok', '_get_types': 'plain', 'get_decorated_functions': 'plain', 'class_name': 'str',
            'type_var': 'none', 'type_vars': 'none'}
KIND_OF = {'plain': 1, 'async': 1, 'class': 2, 'static': 3}
TR_CODE = {'keep': 1, 'wraps': 1, 'drop': 2, 'raise': 3}


# ----- Coq rendering ---------------------------------------------------------------------------------
def nat(n):
    return f'{n}%nat'


def toks(ts):
    return coq_list([f'VTok {nat(t)}' for t in ts])


def coq_base(b, ms=None):
    if b[0] == 'cls':
        return f'VCls {nat(b[1])}'
    if b[0] == 'generic':
        return f'VAlias VGeneric {toks(b[1])}'
    if b[0] == 'alias':
        if b[2] == ['enum']:
            return f'VAlias (VCls {nat(b[1])}) [VEnumCls {coq_list([coq_str(m) for m in ms])}]'
        return f'VAlias (VCls {nat(b[1])}) {toks(b[2])}'
    return 'VTok 98%nat'


def coq_world(world, ms=None):
    rows = []
    for cid, ob, mro, params in world:
        if cid == 4:
            o, params = 'Some wdm_own_bases', [0]
        else:
            o = 'None' if ob is None else 'Some ' + coq_list([coq_base(b, ms) for b in ob])
        rows.append(f'({nat(cid)}, {o}, {coq_list([nat(m) for m in mro])}, {toks(params)})')
    return coq_list(rows)


def coq_shape(s):
    if s[0] == 'direct':
        return f'(ShDirect {toks(s[1])} {"None" if s[2] is None else "(Some " + toks(s[2]) + ")"})'
    if s[0] == 'binding':
        return f'(ShBinding {toks(s[1])} {toks(s[2])})'
    return {'nongeneric': 'ShNonGeneric', 'other': 'ShOther'}[s[0]]


def coq_val(v):
    return 'VNone' if v is None else f'(VInt {coq_Z(v)})'


def coq_deco(d, members):
    tr = {'none': 'TrNone', 'keep': 'TrKeep', 'wraps': 'TrKeep', 'drop': 'TrDrop', 'raise': 'TrRaise'}[d[2]]
    return f'(Build_deco {coq_str(members[d[0]])} {coq_val(d[1])} {tr})'


def coq_mdef(name, d, members):
    k = d['kind']
    inner = [coq_deco(x, members) for x in d.get('inner', [])] if k != 'attr_obj' else []
    outer = [coq_deco(x, members) for x in d.get('outer', [])]
    if k in ('plain', 'async'):
        wrap = 'WPlain'
    elif k == 'class':
        wrap = 'WClassMethod'
    elif k == 'static':
        wrap = 'WStaticMethod'
    elif k == 'attr':
        wrap = f'(WGetter (AVal {coq_val(d.get("val"))}))'
    elif k == 'prop':
        wrap = f'(WProperty (Ok {coq_val(d.get("val"))}))'
    elif k == 'prop_raise':
        wrap = '(WProperty (Raise ValueErrorC))'
    elif k == 'cprop_raise':
        wrap = '(WGetter (ARaise ValueErrorC))'       # functools.cached_property whose function raises
    elif k == 'attr_obj':
        last = {}
        for i, v, _ in d['inner']:       # setattr one after the other: the last value of a member stays
            last[i] = v
        attrs = coq_list([f'({coq_str(members[i])}, {coq_val(v)})' for i, v in last.items()])
        wrap = f'(WGetter (AVal (VObj {nat(d["id"])} {attrs})))'
    elif k == 'std_tok':
        wrap = '(WGetter (AVal (VTok 7%nat)))'
    elif k == 'std_str':
        wrap = '(WProperty (Ok (VStr "K"%string)))'         # class_name, a property of GenericMixin
    elif k == 'std_prop':
        wrap = '(WProperty (Ok VNone))'                      # type_var / type_vars (the model evaluates the programs)
    else:
        wrap = '(WGetter (AVal VNone))'
    return f'(Build_mdef {coq_str(name)} {nat(d["id"])} {coq_list(inner)} {wrap} {coq_list(outer)})'


# the dunder names every instance has (object, Generic, ABC ...): defined once per shard, referenced by name
STD_BLOCK = []


def coq_defs(eff, members):
    """the list of definitions as a Coq term; maximal runs equal to STD_BLOCK are replaced by the constant pv_std"""
    names = [n for n, _ in eff]
    k = len(STD_BLOCK)
    segs, i, cur = [], 0, []
    while i < len(eff):
        if k and names[i:i + k] == STD_BLOCK and all(d['kind'] == 'std_none' for _, d in eff[i:i + k]):
            if cur:
                segs.append(coq_list(cur)); cur = []
            segs.append('pv_std')
            i += k
        else:
            cur.append(coq_mdef(eff[i][0], eff[i][1], members))
            i += 1
    if cur or not segs:
        segs.append(coq_list(cur))
    return '(' + ' ++ '.join(segs) + ')'


def detect_std(impl):
    """the run of inherited dunder names in the dir() of the first instance seen"""
    if STD_BLOCK:
        return
    for r in impl:
        if r and 'dir' in r:
            blk = []
            for n in r['dir']:
                if n.startswith('__') and n.endswith('__') and n not in DUNDER_NAMES:
                    blk.append(n)
                elif blk:
                    break
            STD_BLOCK.extend(blk)
            return


def std_preamble():
    return ('Definition pv_std : list mdef := ' + coq_list([f'(Build_mdef {coq_str(n)} 0%nat [] (WGetter (AVal VNone)) [])' for n in STD_BLOCK]) + '.')


# ----- the class body as dir() shows it ----------------------------------------------------------------
def mangle(cls_name, name):
    if not name.startswith('__') or name.endswith('__'):
        return name
    c = cls_name.lstrip('_')
    return name if not c else '_' + c + name


def resolve(defs, d):
    """an alias stands for the definition it names"""
    if d['kind'] != 'alias':
        return d
    for t in defs:
        if t['name'] == d['target'] and t['kind'] != 'alias':
            return dict(t, name=d['name'])
    raise KeyError(d['target'])


def effective_defs(case, world, names):
    """[(dir name, definition)] in dir() order; None when a name cannot be accounted for"""
    by_id = {c['id']: c for c in case['classes']}
    mro = next(w[2] for w in world if w[0] == case['inst'])
    table = {}
    for cid in mro:
        c = by_id.get(cid)
        if not c:
            continue
        cname = c.get('name') or 'C%d' % cid
        for d in c.get('defs', []):
            table.setdefault(mangle(cname, d['name']), resolve(c['defs'], d))
    out = []
    for i, n in enumerate(names):
        if n in table:
            out.append((n, table[n]))
        elif n in STANDARD:
            k = STANDARD[n]
            out.append((n, {'kind': {'plain': 'plain', 'tok': 'std_tok', 'str': 'std_str', 'none': 'std_prop'}[k], 'id': 40 + sorted(STANDARD).index(n)}))
        elif n.startswith('__'):
            out.append((n, {'kind': 'std_none', 'id': 0}))
        else:
            return None
    return out


def coq_case(c, r):
    """the model term of a case, built from what the worker read back (None: nothing to evaluate)"""
    if r is None or 'world' not in r:
        if c['stream'] == 'dm' and r and r.get('stage') == 'class':
            # the class body raised: no class to read back; the model gets the definitions in source order
            eff = []
            for cl in c['classes']:
                for d in cl.get('defs', []):
                    eff.append((mangle(cl.get('name') or 'C%d' % cl['id'], d['name']), resolve(cl['defs'], d)))
            eff.sort(key=lambda p: p[0])
            cd = coq_defs(eff, c['members'])
            return f'eval_case_dm [] {nat(c["inst"])} {coq_list([coq_str(m) for m in c["members"]])} {cd}'
        return None
    if c['stream'] == 'tv':
        oc = None if (c['args'] is None or c.get('in_init')) else c['args']
        world = [w for w in r['world'] if w[0] != 4]
        return (f'eval_case_tv {coq_world(world)} {nat(c["inst"])} {"None" if oc is None else "(Some " + toks(oc) + ")"} '
                f'{nat(c["op"])} {coq_shape(c["shape"])} {nat(int(c.get("full") or 0))}')
    eff = effective_defs(c, r['world'], r['dir'])
    if eff is None:
        return None
    cd = coq_defs(eff, c['members'])
    return (f'eval_case_dm {coq_world(r["world"], c["members"])} {nat(c["inst"])} '
            f'{coq_list([coq_str(m) for m in c["members"]])} {cd}')


# ----- generators ------------------------------------------------------------------------------------------
class Ids:
    def __init__(self):
        self.n = 9

    def __call__(self):
        self.n += 1
        return self.n


def gen_tv(rng, tier):
    nid = Ids()
    classes = []

    def plains(k):
        out = []
        for _ in range(k):
            i = nid()
            classes.append({'id': i, 'bases': []})
            out.append(['plain', i])
        return out

    mixin_first = rng.random() < 0.3

    def direct_class(tvs, pre_alias=None, mixin=True):
        pre = plains(rng.choice([0, 0, 1, 2])) + ([pre_alias] if pre_alias else [])
        post = plains(rng.choice([0, 0, 1, 2]))
        rng.shuffle(pre)
        bases = pre + [['generic', tvs]] + post
        if not pre_alias and mixin:
            pos = [i for i in range(len(bases) + 1)]
            gi = len(pre)
            pos = [p for p in pos if (p <= gi if mixin_first else p > gi)]
            bases.insert(rng.choice(pos), ['mixin'])
        i = nid()
        classes.append({'id': i, 'bases': bases})
        return i

    def sub_levels(i, k):
        for _ in range(k):
            pre, post = plains(rng.choice([0, 0, 1])), plains(rng.choice([0, 0, 1]))
            j = nid()
            classes.append({'id': j, 'bases': pre + [['plain', i]] + post})
            i = j
        return i

    nmax = 4 if tier == 'quick' else 6
    n = rng.choice([1, 1, 2, 2, 3, 4] + ([5, 6] if nmax > 4 else []))
    tvs = rng.sample(range(8), n)
    args = [20 + rng.randrange(12) for _ in range(n)]
    kind = rng.choice(['direct'] * 30 + ['binding'] * 40 + ['nongeneric'] * 8 + ['direct_after_alias'] * 6 + ['other'] * 14
                      + ['binding_foreign'] * 8 + ['chain'] * 10 + ['nongeneric_foreign'] * 4 + ['mro_foreign'] * 4)
    case = {'stream': 'tv', 'op': rng.choice([0, 0, 0, 1]), 'in_init': False, 'args': None}
    if kind == 'direct':
        c = direct_class(tvs)
        how = rng.choice(['args'] * 6 + ['noargs', 'init', 'plainsub', 'plainsub'])
        if how == 'plainsub':
            c = sub_levels(c, rng.choice([1, 2]))
            case['in_init'] = rng.random() < 0.3
        elif how in ('args', 'init'):
            case['args'] = args
            case['in_init'] = how == 'init'
        case['shape'] = ['direct', tvs, None if (case['args'] is None or case['in_init']) else args]
    elif kind == 'direct_after_alias':
        tv0 = [t for t in range(8) if t not in tvs][:rng.choice([1, 2])]
        b = direct_class(tv0)
        c = direct_class(tvs, pre_alias=['alias', b, [20 + rng.randrange(12) for _ in tv0]])
        if rng.random() < 0.8:
            case['args'] = args
        case['shape'] = ['direct', tvs, case['args']]
    elif kind in ('binding', 'binding_foreign'):
        b = direct_class(tvs)
        post = plains(rng.choice([0, 0, 1, 2]))
        front = []
        chain_expect = None
        if kind == 'binding_foreign':
            # a parametrised base in front of the binding base that has nothing to do with the mixin
            # (region of the fixed findings K-C20-builtin-alias-first / K-C20-foreign-generic-first)
            for _ in range(rng.choice([1, 1, 2])):
                if rng.random() < 0.5:
                    front.append(['builtin', 'list', [20 + rng.randrange(12)]])
                else:
                    tvf = rng.sample(range(8), rng.choice([1, 2]))
                    p = direct_class(tvf, mixin=False)
                    front.append(['alias', p, [20 + rng.randrange(12) for _ in tvf]])
        elif rng.random() < 0.12:
            # a parametrised forwarding base in front: Mid[z] with class Mid(D0[T]) (the scan of _get_types passes over it)
            tvm = rng.sample(range(8), 1)
            d0 = direct_class(tvm)
            mid = nid()
            classes.append({'id': mid, 'bases': [['alias', d0, tvm]]})
            z = 20 + rng.randrange(12)
            front.append(['alias', mid, [z]])
            # full statement: the first parametrised base that uses the mixin is Mid[z], resolved through the chain
            chain_expect = ['binding', tvm, [z]]
        if rng.random() < 0.25:
            tv2 = rng.sample(range(8), rng.choice([1, 2]))
            b2 = direct_class(tv2)
            post.insert(rng.randrange(len(post) + 1), ['alias', b2, [20 + rng.randrange(12) for _ in tv2]])
        c = nid()
        pre = plains(rng.choice([0, 0, 1, 2])) + front
        rng.shuffle(pre)
        classes.append({'id': c, 'bases': pre + [['alias', b, args]] + post})
        case['binding_cls'] = c
        c = sub_levels(c, rng.choice([0, 0, 0, 1, 2]))
        case['in_init'] = rng.random() < 0.2
        case['shape'] = ['binding', tvs, args]
        if chain_expect:
            case['shape'], case['full'] = chain_expect, True
    elif kind == 'chain':
        # the binding base got its parameters through forwarding / partially binding classes (region of the fixed findings
        # K-C20-forwarding-chain / K-C20-partially-binding-chain)
        cur = direct_class(tvs)
        cur_params = list(tvs)
        mapping = {t: t for t in tvs}
        for _ in range(rng.choice([1, 1, 1, 2])):
            forwarding = rng.random() < 0.4
            ys = [rng.randrange(10) if (forwarding or rng.random() < 0.5) else 20 + rng.randrange(12) for _ in cur_params]
            if all(y >= 20 for y in ys):
                ys[rng.randrange(len(ys))] = rng.randrange(10)
            bind = dict(zip(cur_params, ys))
            mapping = {t: bind.get(v, v) for t, v in mapping.items()}
            m = nid()
            classes.append({'id': m, 'bases': plains(rng.choice([0, 0, 1])) + [['alias', cur, ys]] + plains(rng.choice([0, 0, 1]))})
            cur, cur_params = m, list(dict.fromkeys(y for y in ys if y < 20))
        zs = [20 + rng.randrange(12) for _ in cur_params]
        bind = dict(zip(cur_params, zs))
        mapping = {t: bind.get(v, v) for t, v in mapping.items()}
        pre = plains(rng.choice([0, 0, 1]))
        if rng.random() < 0.2:
            pre.append(['builtin', 'list', [20 + rng.randrange(12)]])
        post = plains(rng.choice([0, 0, 1]))
        if rng.random() < 0.2:
            tv2 = rng.sample(range(8), 1)
            post.append(['alias', direct_class(tv2), [20 + rng.randrange(12)]])
        c = nid()
        classes.append({'id': c, 'bases': pre + [['alias', cur, zs]] + post})
        case['binding_cls'] = c
        c = sub_levels(c, rng.choice([0, 0, 0, 1]))
        case['in_init'] = rng.random() < 0.2
        case['shape'], case['full'] = ['binding', tvs, [mapping[t] for t in tvs]], True
    elif kind == 'nongeneric_foreign':
        # neither Generic[..] nor a parametrised base that uses the mixin, but a foreign parametrised base
        # (region of the open finding K-C20-nongeneric-foreign-base)
        bases = plains(rng.choice([0, 1]))
        if rng.random() < 0.6:
            bases.append(['builtin', 'list', [20 + rng.randrange(12)]])
        else:
            tvf = rng.sample(range(8), 1)
            bases.append(['alias', direct_class(tvf, mixin=False), [20 + rng.randrange(12)]])
        rng.shuffle(bases)
        bases.insert(rng.randrange(len(bases) + 1), ['mixin'])
        c = nid()
        classes.append({'id': c, 'bases': bases})
        case['binding_cls'] = c
        case['shape'], case['full'] = ['nongeneric'], 2
    elif kind == 'mro_foreign':
        # on the MRO a subclass of a foreign parametrised base stands in front of the class that binds the parameters
        # (region of the open finding K-C20-foreign-subclass-first-on-mro)
        b = direct_class(tvs)
        extra = nid()
        classes.append({'id': extra, 'bases': plains(rng.choice([0, 1])) + [['builtin', 'list', [20 + rng.randrange(12)]]]})
        sb = nid()
        classes.append({'id': sb, 'bases': [['alias', b, args]] + plains(rng.choice([0, 1]))})
        c = nid()
        classes.append({'id': c, 'bases': plains(rng.choice([0, 1])) + [['plain', extra], ['plain', sb]]})
        case['binding_cls'] = sb
        case['shape'], case['full'] = ['binding', tvs, args], 2
    elif kind == 'nongeneric':
        c = nid()
        bases = plains(rng.choice([0, 1, 2]))
        bases.insert(rng.randrange(len(bases) + 1), ['mixin'])
        classes.append({'id': c, 'bases': bases})
        c = sub_levels(c, rng.choice([0, 0, 1]))
        case['in_init'] = rng.random() < 0.2
        case['shape'] = ['nongeneric']
    else:
        b = direct_class(tvs)
        how = rng.choice(['forward', 'partial', 'builtin', 'two_level_binding'])
        case['shape'] = ['other']
        if how == 'builtin':
            c = nid()
            classes.append({'id': c, 'bases': [['builtin', rng.choice(['list']), [20]], ['mixin']]})
        elif how == 'partial' and n >= 2:
            keep = rng.sample(range(n), rng.randrange(1, n))
            xs = [tvs[i] if i in keep else args[i] for i in range(n)]
            c = nid()
            classes.append({'id': c, 'bases': [['alias', b, xs]]})
            if rng.random() < 0.6:
                case['args'] = [20 + rng.randrange(12) for _ in keep]
        elif how == 'two_level_binding':
            m = nid()
            classes.append({'id': m, 'bases': [['alias', b, args]]})
            c = sub_levels(m, rng.choice([1, 2]))
            case['shape'] = ['binding', tvs, args]
        else:
            m = nid()
            classes.append({'id': m, 'bases': plains(rng.choice([0, 1])) + [['alias', b, tvs]]})
            if how == 'forward':
                c = m
                case['args'] = args if rng.random() < 0.8 else None
            else:
                c = nid()
                classes.append({'id': c, 'bases': [['alias', m, args]]})
    if case['shape'] == ['other'] and case['args'] is None and kind == 'other' and how in ('forward', 'partial') and len(classes) and \
            any(b[0] == 'alias' and any(t < 20 for t in b[2]) for b in next(cl for cl in classes if cl['id'] == c)['bases']):
        # an unparametrised instance of a forwarding / partially binding class (open finding K-C20-unparametrised-forwarding)
        case['shape'], case['full'] = ['direct', tvs, None], 2
    case['classes'] = classes
    case['inst'] = c
    return case


def gen_dm(rng, tier):
    nid = Ids()
    k = rng.choice([0, 1, 1, 2, 2, 2, 3, 3, 4])
    members = MEMBER_POOL[:k] if rng.random() < 0.7 else rng.sample(MEMBER_POOL, k)
    raising = [False]
    did = [0]

    def decos(nmax=3):
        if not members:
            return []
        out = []
        for _ in range(rng.choice([0, 1, 1, 1, 2, 2, 3][:4 + nmax])):
            tr = rng.choice(['none'] * 15 + ['keep', 'keep', 'wraps', 'wraps', 'drop'])
            if not raising[0] and rng.random() < 0.01:
                tr, raising[0] = 'raise', True
            out.append([rng.randrange(len(members)), None if rng.random() < 0.1 else rng.randrange(31), tr])
        if rng.random() < 0.93:       # mostly at most one value per member and method
            seen, uniq = set(), []
            for d in out:
                if d[0] not in seen:
                    seen.add(d[0]); uniq.append(d)
            out = uniq
        return out

    def body(n, names, cls_name, allow_dunder=True):
        defs = []
        used = set()
        for _ in range(n):
            kind = rng.choice(['plain'] * 40 + ['async'] * 12 + ['class'] * 8 + ['static'] * 8 + ['prop'] * 8 + ['attr'] * 5
                              + ['alias'] * 5 + ['prop_raise'] * 1 + ['cprop_raise'] * 1 + ['attr_obj'] * 2)
            pool = [x for x in names if x not in used]
            if allow_dunder and kind in ('plain', 'async') and rng.random() < 0.12:
                pool = [x for x in DUNDER_NAMES + ['__p1', '__p2'] if x not in used]
            if not pool:
                break
            name = rng.choice(pool)
            used.add(name)
            did[0] += 1
            d = {'name': name, 'kind': kind, 'id': did[0]}
            if kind == 'alias':
                targets = [t for t in defs if t['kind'] in ('plain', 'async', 'class', 'static')]
                if not targets:
                    d['kind'] = kind = 'plain'
                else:
                    t = rng.choice(targets)
                    d.update(target=t['name'], id=t['id'])
            if kind == 'cprop_raise':
                d['inner'], d['outer'] = [], []
            if kind in ('plain', 'async', 'class', 'static', 'prop'):
                d['inner'] = decos()
                d['outer'] = []
                if kind in ('class', 'static') and rng.random() < 0.06:
                    d['outer'] = [x for x in decos(1) if x[2] == 'none'][:1]
                if kind == 'prop' and not raising[0] and rng.random() < 0.03:
                    d['outer'] = [x for x in decos(1) if x[2] == 'none'][:1]
                    raising[0] = bool(d['outer'])
            if kind in ('prop', 'attr'):
                d['val'] = rng.choice([None, 0, 1, 7, 30])
            if kind == 'attr_obj':
                d['inner'] = [[x[0], x[1], 'none'] for x in decos()]
            defs.append(d)
        return defs

    names = ['m1', 'm2', 'm3', 'm4', 'a1', 'a2', '_p', '_q', 'handler', 'zz', 'Alpha', 'b_1']
    nmax = 6 if tier == 'quick' else 10
    layout = rng.choice(['direct'] * 8 + ['mixin_first'] * 3 + ['mixin_last'] * 3 + ['via_base'] * 4 + ['via_base_mixin'] * 2 + ['unparam'])
    leaf_name = rng.choice(['K'] * 17 + ['_K', '_K', '_'])
    classes = []
    wdm = ['wdm', None if layout == 'unparam' else 'enum']
    mix = None
    if layout in ('mixin_first', 'mixin_last', 'via_base_mixin'):
        mix = nid()
        classes.append({'id': mix, 'name': 'Mix', 'bases': [], 'defs': body(rng.choice([0, 1, 2]), names[6:], 'Mix')})
    if layout in ('via_base', 'via_base_mixin'):
        b = nid()
        classes.append({'id': b, 'name': 'Base0', 'bases': [wdm], 'defs': body(rng.choice([0, 1, 2, 3]), names[:8], 'Base0')})
        bases = [['plain', b]]
        if mix:
            bases.insert(rng.randrange(2), ['plain', mix])
    else:
        bases = [wdm]
        if mix:
            bases.insert(0 if layout == 'mixin_first' else 1, ['plain', mix])
    c = nid()
    n = rng.choice(list(range(0, nmax + 1)) + [1, 2, 3])
    classes.append({'id': c, 'name': leaf_name, 'bases': bases, 'defs': body(n, names, leaf_name)})
    return {'stream': 'dm', 'members': members, 'classes': classes, 'inst': c, 'param': layout != 'unparam'}


def gen_cases(rng, tier, scale):
    n_tv, n_dm = (1300, 900) if tier == 'quick' else (13000, 7000)
    scale = min(scale, 3)      # a broken proof/translation obligation: search three times as many cases
    cases = [gen_tv(rng, tier) for _ in range(n_tv * scale)] + [gen_dm(rng, tier) for _ in range(n_dm * scale)]
    return cases


# ----- judging ----------------------------------------------------------------------------------------------
class Reader:
    def __init__(self, l):
        self.l, self.i = l, 0

    def take(self, n=1):
        out = self.l[self.i:self.i + n]
        if len(out) != n:
            raise ValueError('short model output')
        self.i += n
        return out

    def one(self):
        return self.take(1)[0]

    def rest(self):
        return self.l[self.i:]


def read_outcome(rd):
    st = rd.one()
    if st == 0:
        n = rd.one()
        return [0, n] + rd.take(2 * n)
    return [st, rd.one()]


def judge_tv(c, r, m):
    """-> (correspondence_ok, property_ok, what, glue_problem)"""
    rd = Reader(m)
    m_out = read_outcome(rd)
    ek = rd.one()
    exp = [ek] + ({0: lambda: (lambda n: [n] + rd.take(2 * n))(rd.one()), 1: lambda: [], 2: lambda: [rd.one()], 9: lambda: []}[ek]())
    shape_ok, m_meets = rd.take(2)
    glue = None
    if not shape_ok:
        glue = f'the class layout read back from CPython does not have the shape {c["shape"]} the generator intended'
    oc = None if c['args'] is None else c['args']
    if r.get('orig_class') != oc or not r.get('orig_class_origin_is_class', True):
        glue = f'__orig_class__ read back {r.get("orig_class")} differs from the arguments used {oc}'
    i_out = r['out']
    corr = i_out == m_out
    what = []
    if ek == 0:
        want = sorted(zip(exp[2::2], exp[3::2]))
        if i_out[0] != 0:
            what.append(f'{"type_vars" if c["op"] == 0 else "type_var"} did not return the mapping TypeVar -> argument {want}: outcome {i_out} '
                        f'({r.get("exc_name")})')
        else:
            got = sorted(zip(i_out[2::2], i_out[3::2]))
            if got != want:
                what.append(f'type_vars returned {got}, the declared mapping is {want} (tokens: <20 TypeVar, >=20 type argument)')
    elif ek == 1:
        if not (i_out[0] == 1 and i_out[1] == ASSERTION):
            what.append(f'AssertionError demanded (non-generic class / unparametrised instance / several parameters), outcome {i_out} ({r.get("exc_name")})')
    elif ek == 2:
        if i_out != [2, exp[1]]:
            what.append(f'type_var must be the single type argument {exp[1]}, outcome {i_out} ({r.get("exc_name")})')
    return corr, not what, '; '.join(what), glue, bool(m_meets)


def read_dm_model(m, n_members):
    rd = Reader(m)
    st = rd.one()
    if st == 0:
        n = rd.one()
        res = [0, n]
        for _ in range(n):
            mi, k = rd.take(2)
            res += [mi, k] + rd.take(2 * k)
    else:
        res = [st, rd.one()]
    demanded = []
    for _ in range(n_members):
        k = rd.one()
        p = rd.take(2 * k)
        demanded.append(sorted(zip(p[0::2], p[1::2])))
    in_dom, no_raise, no_dd, m_ok = rd.take(4)
    nj = rd.one()
    journal = [rd.take(5) for _ in range(nj)]
    return res, demanded, bool(in_dom), bool(no_raise), bool(no_dd), bool(m_ok), journal


def split_result(out):
    """[0; n; (member; k; pairs)] -> {member: [(id, v)]} in order, or None"""
    if not out or out[0] != 0:
        return None
    rd = Reader(out[2:])
    res = []
    for _ in range(out[1]):
        mi, k = rd.take(2)
        p = rd.take(2 * k)
        res.append((mi, list(zip(p[0::2], p[1::2]))))
    return res


def expected_journal(c, eff_ids):
    out = []
    for cl in c['classes']:
        for d in cl.get('defs', []):
            if d['kind'] in ('alias', 'attr', 'attr_obj', 'prop_raise', 'cprop_raise'):
                continue
            if d['id'] not in eff_ids:
                continue
            for x in d.get('inner', []) + d.get('outer', []):
                if x[2] != 'none':
                    out.append([TR_CODE[x[2]], d['id'], x[0], -5 if x[1] is None else x[1]])
    return sorted(out)


def judge_dm(c, r, m):
    res, demanded, claimed, no_raise, no_dd, m_ok, m_journal = read_dm_model(m, len(c['members']))     # claimed: in the domain
    i_out = r['out']
    corr = i_out == res
    what = []
    bad = {'ids': set(), 'other': False}     # which definitions the complaints are about (for shrinking)
    raised = i_out[0] in (1, 3)
    eff_ids = None
    if 'dir' in r:
        eff = effective_defs(c, r['world'], r['dir'])
        eff_ids = {d['id'] for _, d in eff}
        i_journal = sorted(j for j in r['journal'] if j[1] in eff_ids or j[1] == -1)
        if not raised and i_journal != sorted(m_journal):
            corr = False
    if not c['param']:
        if i_out[0] != 3 and not (i_out[0] == 1 and i_out[1] == ASSERTION):      # 3: no class, the class body raised
            what.append(f'unparametrised WithDecoratedMethods must raise AssertionError, outcome {i_out[:4]} ({r.get("exc_name")})')
            bad['other'] = True
        return corr, not what, '; '.join(what), claimed, no_dd and no_raise, m_ok, bad, no_raise
    if claimed:
        got = split_result(i_out)
        if got is None:
            what.append(f'get_decorated_functions did not return a result: outcome {i_out[:4]} ({r.get("exc_name")}, stage {r.get("stage")})')
            bad['other'] = True
        else:
            keys = [mi for mi, _ in got]
            if sorted(keys) != list(range(len(c['members']))):
                what.append(f'the result has keys {keys}, demanded is one key per member of the enum {c["members"]}')
                bad['other'] = True
            else:
                by = dict(got)
                for mi, want in enumerate(demanded):
                    have = by[mi]
                    missing = [p for p in want if p not in have]
                    extra = [p for p in have if p not in want]
                    if missing or extra or len(set(have)) != len(have):
                        bad['ids'].update(p[0] for p in missing + extra)
                        bad['other'] = bad['other'] or (not missing and not extra)
                        what.append(f'member {c["members"][mi]}: missing (method id, value) {missing}, extra {extra}, reported {have}')
                kinds = {d['id']: KIND_OF.get(d['kind']) for cl in c['classes'] for d in cl.get('defs', []) if d['kind'] in KIND_OF}
                for mi, fid, kind in r.get('kinds', []):
                    if fid in kinds and kinds[fid] != kind:
                        bad['ids'].add(fid)
                        what.append(f'method id {fid} is reported as an object of kind {kind} (1 bound to the instance, 2 bound to the class, '
                                    f'3 plain function, 4 other), expected {kinds[fid]}')
            if eff_ids is not None:
                have_j = sorted(j[:4] for j in r['journal'] if j[1] in eff_ids or j[1] == -1)
                want_j = expected_journal(c, eff_ids)
                if have_j != want_j:
                    bad['ids'].update(j[1] for j in have_j + want_j if (j in have_j) != (j in want_j))
                    what.append(f'transformations were called with (kind, function id, member, value) {have_j}, demanded {want_j}')
    return corr, not what, '; '.join(what), claimed, no_dd and no_raise, m_ok, bad, no_raise


def dm_size(c):
    return (sum(len(cl.get('defs', [])) for cl in c['classes']), sum(len(d.get('inner', [])) + len(d.get('outer', []))
            for cl in c['classes'] for d in cl.get('defs', [])), len(c['classes']), len(c['members']))


def shrink_candidates(c, bad):
    """single-definition class bodies cut out of a failing case (smallest-first replay): the definitions the complaints
    name; when a complaint is not about particular definitions, every decorated definition and the body without its
    decorated dunder-named methods"""
    out = []
    for cl in c['classes']:
        for d in cl.get('defs', []):
            if d['kind'] == 'alias' or not (d.get('inner') or d.get('outer')):
                continue
            if not bad['other'] and d['id'] not in bad['ids']:
                continue
            used = sorted({x[0] for x in d.get('inner', []) + d.get('outer', [])})
            ren = {old: new for new, old in enumerate(used)}
            d2 = dict(d, id=1, inner=[[ren[x[0]], x[1], x[2]] for x in d.get('inner', [])],
                      outer=[[ren[x[0]], x[1], x[2]] for x in d.get('outer', [])])
            out.append({'stream': 'dm', 'members': [c['members'][i] for i in used], 'inst': 10, 'param': True,
                        'classes': [{'id': 10, 'name': cl.get('name') or 'K', 'bases': [['wdm', 'enum']], 'defs': [d2]}]})
    if not bad['other']:
        return out
    # the raising properties alone
    rp = [(cl, d) for cl in c['classes'] for d in cl.get('defs', []) if d['kind'] == 'cprop_raise']
    if rp:
        out.append({'stream': 'dm', 'members': c['members'][:1], 'inst': 10, 'param': True,
                    'classes': [{'id': 10, 'name': 'K', 'bases': [['wdm', 'enum']],
                                 'defs': [dict(rp[0][1], id=1, inner=[], outer=[])]}]})
    # the body without its decorated methods of dunder name and without raising properties
    cut = bool(rp)
    classes = []
    for cl in c['classes']:
        cname = cl.get('name') or 'K'
        keep = []
        for d in cl.get('defs', []):
            if d['kind'] in KIND_OF and (d.get('inner') or d.get('outer')) and mangle(cname, d['name']).startswith('__'):
                cut = True
            elif d['kind'] != 'cprop_raise':
                keep.append(d)
        names = {d['name'] for d in keep}
        keep = [d for d in keep if d['kind'] != 'alias' or d['target'] in names]
        classes.append(dict(cl, defs=keep))
    if cut:
        out.append(dict(c, classes=classes))
    return out


# known findings ---------------------------------------------------------------------------------------
def first_foreign(case):
    """tv: the first parametrised base in front of the binding base that has nothing to do with the mixin:
    'builtin' (List[..]: origin without __orig_bases__) / 'generic' (origin declares Generic, no GenericMixin) / None"""
    by = {cl['id']: cl for cl in case.get('classes', [])}
    cl = by.get(case.get('binding_cls'))
    if not cl:
        return None
    for b in cl['bases']:
        if b[0] == 'builtin':
            return 'builtin'
        if b[0] == 'alias':
            o = by.get(b[1], {'bases': []})
            if any(x[0] == 'mixin' for x in o['bases']):
                return None                      # the binding base
            if any(x[0] == 'generic' for x in o['bases']):
                return 'generic'
            # an origin that forwards to a class using the mixin is passed over by the scan
    return None


def chain_kind(case):
    """tv: the first parametrised base of the binding class statement that uses the mixin has an origin that does not declare
    Generic[..] itself but got its parameters from a parametrised base of its own: 'forwarding' (all arguments of that base
    are TypeVars) / 'partial' (some are bound) / None"""
    by = {cl['id']: cl for cl in case.get('classes', [])}

    def uses_mixin(cl, depth=0):
        return depth < 10 and any(b[0] == 'mixin' or (b[0] in ('plain', 'alias') and b[1] in by and uses_mixin(by[b[1]], depth + 1))
                                  for b in cl['bases'])
    cl = by.get(case.get('binding_cls'))
    if not cl:
        return None
    for b in cl['bases']:
        if b[0] != 'alias' or b[1] not in by or not uses_mixin(by[b[1]]):
            continue
        o = by[b[1]]
        if any(x[0] == 'generic' for x in o['bases']):
            return None
        for x in o['bases']:
            if x[0] == 'alias' and x[1] in by and uses_mixin(by[x[1]]):
                return 'forwarding' if all(t < 20 for t in x[2]) else 'partial'
        return None
    return None


def region2(case):
    """tv cases of the regions of the findings about the AssertionError clauses and the MRO"""
    by = {cl['id']: cl for cl in case.get('classes', [])}

    def uses_mixin(cl, depth=0):
        return depth < 10 and any(b[0] == 'mixin' or (b[0] in ('plain', 'alias') and b[1] in by and uses_mixin(by[b[1]], depth + 1))
                                  for b in cl['bases'])

    def foreign(b):
        return b[0] == 'builtin' or (b[0] == 'alias' and b[1] in by and not uses_mixin(by[b[1]]))
    inst = by.get(case.get('inst'))
    if not inst:
        return None
    if case.get('shape') == ['nongeneric'] and any(foreign(b) for b in inst['bases']) \
            and not any(b[0] == 'generic' or (b[0] == 'alias' and not foreign(b)) for b in inst['bases']):
        return 'nongeneric_foreign'
    if case.get('args') is None and not any(b[0] == 'generic' for b in inst['bases']) and \
            any(b[0] == 'alias' and not foreign(b) and any(t < 20 for t in b[2]) for b in inst['bases']):
        return 'unparam_forwarding'
    seen_foreign_sub = False
    for b in inst['bases']:
        if b[0] == 'plain' and b[1] in by:
            o = by[b[1]]
            if any(foreign(x) for x in o['bases']) and not any(x[0] in ('generic', 'mixin') or (x[0] == 'alias' and not foreign(x)) for x in o['bases']):
                seen_foreign_sub = True
            elif uses_mixin(o):
                return 'mro_foreign' if seen_foreign_sub else None
    return None


def known_matcher(finding, case):
    mid = finding.get('matcher', {}).get('id')
    if case.get('stream') == 'tv' and mid in ('nongeneric_with_foreign_parametrised_base', 'unparametrised_instance_of_forwarding_class',
                                              'subclass_of_foreign_parametrised_base_first_on_mro'):
        return region2(case) == {'nongeneric_with_foreign_parametrised_base': 'nongeneric_foreign',
                                 'unparametrised_instance_of_forwarding_class': 'unparam_forwarding',
                                 'subclass_of_foreign_parametrised_base_first_on_mro': 'mro_foreign'}[mid]
    if case.get('stream') == 'tv':
        if mid in ('binding_base_is_forwarding_class', 'binding_base_is_partially_binding_class'):
            return chain_kind(case) == {'binding_base_is_forwarding_class': 'forwarding', 'binding_base_is_partially_binding_class': 'partial'}[mid]
        return {'builtin_alias_before_binding_base': 'builtin', 'foreign_generic_before_binding_base': 'generic'}.get(mid, 0) == first_foreign(case)
    if case.get('stream') != 'dm':
        return False
    defs = [(cl, d) for cl in case['classes'] for d in cl.get('defs', [])]
    decorated = [(cl, d) for cl, d in defs if d.get('inner') or d.get('outer')]
    if mid == 'decorated_method_with_dunder_name':
        # every decorated definition of the (shrunk) case is a method whose dir() name starts with two underscores
        return bool(decorated) and all(d['kind'] in ('plain', 'async', 'class', 'static')
                                       and mangle(cl.get('name') or 'K', d['name']).startswith('__') for cl, d in decorated)
    if mid == 'only_raising_descriptors':
        # the (shrunk) class body consists of cached properties whose function raises, nothing is decorated
        return bool(defs) and not decorated and all(d['kind'] == 'cprop_raise' and not d['name'].startswith('__') for _, d in defs)
    return False


k9_matcher = known_matcher


def evaluate(ck, cases):
    impl = ck.run_impl('w_mixins', cases, timeout=900)
    terms, idx = [], []
    detect_std(impl)
    for i, (c, r) in enumerate(zip(cases, impl)):
        t = coq_case(c, r) if r and 'error' not in r and 'invalid' not in r else None
        if t is not None:
            terms.append(t); idx.append(i)
    vals = ck.coq_eval(PRE + '\n' + std_preamble(), terms, chunk=150) if ck.model_ok else [None] * len(terms)
    lost = [i for i, v in enumerate(vals) if v is None]
    if lost and ck.model_ok:
        # a shard died (under memory pressure coqc gets killed without output): evaluate its terms once more; a term
        # that does not evaluate for a reason of its own fails again and keeps the obligation broken
        before = [o for o in ck.obligations if o['name'] == 'coq-eval']
        ck.obligations = [o for o in ck.obligations if o['name'] != 'coq-eval']
        again = ck.coq_eval(PRE + '\n' + std_preamble(), [terms[i] for i in lost], chunk=60)
        for i, v in zip(lost, again):
            vals[i] = v
        if all(v is not None for v in again):
            ck.notes.append(f'{len(lost)} model evaluations repeated after a Coq shard died: {before[0]["detail"][:200] if before else ""}')
    model = [None] * len(cases)
    for i, v in zip(idx, vals):
        model[i] = v
    return impl, model


def run(tier, seed, replay=None):
    ck = Check('C20', tier, seed, UNITS, MODEL, PROPS)
    ck.prepare()

    def still_fails(f):
        impl, model = evaluate(ck, [f['witness']])
        if impl[0] is None or model[0] is None or 'out' not in impl[0]:
            raise RuntimeError(f'witness cannot be evaluated: {impl[0]}')
        judge = judge_dm if f['witness'].get('stream') == 'dm' else judge_tv
        return not judge(f['witness'], impl[0], model[0])[1]
    ck.replay_known_findings(still_fails)

    cases = gen_cases(ck.rng, tier, ck.scale()) if replay is None else [replay['case']]
    impl, model = evaluate(ck, cases)
    hist = {'tv': {}, 'dm': {}}
    disagreements, glue, invalid, meets_fail = [], [], 0, []
    failing_dm = []
    for c, r, m in zip(cases, impl, model):
        st = c['stream']
        if r is None or 'error' in r:
            glue.append({'case': c, 'what': f'implementation worker failed: {r}'})
            continue
        if 'invalid' in r:
            invalid += 1
            hist[st]['invalid-layout'] = hist[st].get('invalid-layout', 0) + 1
            continue
        if m is None:
            glue.append({'case': c, 'what': 'model evaluation failed or the dir() of the instance could not be accounted for', 'impl': r})
            continue
        try:
            if st == 'tv':
                corr, prop, what, g, m_meets = judge_tv(c, r, m)
                label = c['shape'][0] + ('/type_var' if c['op'] else '')
                outc = {0: 'dict', 1: 'raise', 2: 'value'}[r['out'][0]]
                key = json.dumps([c['classes'], c['inst'], c['args'], c['in_init'], c['op']])
                nontrivial = len(c['classes']) >= 2
                if g:
                    glue.append({'case': c, 'what': g})
                if not m_meets and c.get('full') != 2:      # full = 2: regions of refuted statements
                    meets_fail.append({'case': c, 'model': m})
            else:
                corr, prop, what, claimed, no_dd, m_ok, bad, no_raise = judge_dm(c, r, m)     # no_dd: outside every known-finding region
                label = ('claimed' if claimed else 'near-miss') + ('' if no_raise else '+raising-descriptor') + \
                        ('' if no_dd or not no_raise else '+dunder') + ('' if c['param'] else '/unparam')
                outc = {0: 'result', 1: 'raise', 2: 'value', 3: 'class-body-raise'}[r['out'][0]]
                key = json.dumps([c['members'], c['classes']])
                nontrivial = dm_size(c)[1] >= 1
                if claimed and no_dd and c['param'] and not m_ok:
                    meets_fail.append({'case': c, 'model': m})
                wdm = [w for w in r.get('world', []) if w[0] == 4]
                if wdm and wdm[0][1] != [['cls', 3], ['generic', [99]], ['cls', 1]]:
                    glue.append({'case': c, 'what': f'__orig_bases__ of WithDecoratedMethods read back as {wdm[0][1]}'})
        except (ValueError, KeyError, IndexError) as ex:
            glue.append({'case': c, 'what': f'unreadable output: {ex!r}', 'impl': r, 'model': m})
            continue
        hist[st][label] = hist[st].get(label, 0) + 1
        hist[st]['outcome:' + outc] = hist[st].get('outcome:' + outc, 0) + 1
        ck.note_case(key, nontrivial=nontrivial)
        if corr and prop:
            ck.traces_validated += 1
        if not prop:
            if st == 'dm':
                failing_dm.append((c, r, m, what, bad))
            else:
                ck.violation(what, c, stream='mixins/tv', extra={'impl': r, 'model': m}, matcher=known_matcher)
        elif not corr:
            disagreements.append({'case': c, 'impl': {k: r[k] for k in ('out', 'journal', 'stage', 'exc_name') if k in r}, 'model': m})

    # shrink failing class bodies: every single decorated definition cut out of them, and the body without its decorated
    # dunder-named methods, are re-run in one batch; what still fails is reported (smallest first), else the case itself
    failing_dm.sort(key=lambda t: dm_size(t[0]))
    cands, per_case = {}, []
    for c, r, m, what, bad in failing_dm[:3000]:
        keys = []
        for cc in (shrink_candidates(c, bad) if c['param'] and len(cands) < 4000 else []):
            k = json.dumps(cc, sort_keys=True)
            cands.setdefault(k, cc)
            keys.append(k)
        per_case.append(keys)
    fails = {}
    if cands:
        klist = list(cands)
        ci, cm = evaluate(ck, [cands[k] for k in klist])
        for k, cr, cmm in zip(klist, ci, cm):
            if cr and cmm and 'out' in cr:
                try:
                    j = judge_dm(cands[k], cr, cmm)
                except (ValueError, KeyError, IndexError):
                    continue
                if not j[1]:
                    fails[k] = (cr, cmm, j[2])
    reported = set()
    for (c, r, m, what, bad), keys in zip(failing_dm, per_case + [[]] * len(failing_dm)):
        hit = [k for k in keys if k in fails]
        if not hit or (not bad['other'] and len(hit) < len(keys)):      # a complaint that no single definition reproduces
            ck.violation(what, c, stream='mixins/dm', extra={'impl': r, 'model': m}, matcher=k9_matcher)
        for k in hit:
            if k not in reported:
                reported.add(k)
                cr, cmm, w = fails[k]
                ck.violation(w, cands[k], stream='mixins/dm', extra={'impl': cr, 'model': cmm, 'shrunk_from': c}, matcher=k9_matcher)
    ck.violations.sort(key=lambda v: (len(json.dumps(v['case']))))

    ck.oblige('correspondence:mixins', 'correspondence', not disagreements,
              json.dumps(disagreements[0])[:1500] if disagreements else f'{ck.traces_validated} cases agree')
    ck.oblige('glue:mixins', 'correspondence', not glue, json.dumps(glue[0], default=str)[:1500] if glue else 'layouts read back as intended')
    ck.oblige('model-meets-spec:mixins', 'correspondence', not meets_fail,
              json.dumps(meets_fail[0])[:1200] if meets_fail else 'the model meets the specification on every case of a supported shape')
    valid = sum(v for k, v in hist['tv'].items() if not k.startswith('outcome') and k != 'invalid-layout')
    floor_ok = replay is not None or (hist['tv'].get('binding', 0) >= 0.15 * max(valid, 1) and hist['dm'].get('claimed', 0) >= 0.3 * sum(
        v for k, v in hist['dm'].items() if not k.startswith('outcome')))
    ck.oblige('generator-floor:mixins', 'correspondence', floor_ok, json.dumps(hist)[:600])
    ck.coverage.update({'histogram': hist, 'invalid_layouts_skipped': invalid, 'disagreements': len(disagreements),
                        'max_type_parameters': max([len(c['shape'][1]) for c in cases if c['stream'] == 'tv' and len(c['shape']) > 1] or [0]),
                        'max_definitions': max([dm_size(c)[0] for c in cases if c['stream'] == 'dm'] or [0])})
    z = list(zip(cases, impl, model))
    ck.samples = [{'case': c, 'impl': i, 'model': m} for c, i, m in z[:2] + z[-2:]]
    ck.assumptions = ['CPython creates the classes (class statements compiled from generated source); the model is handed the layout read back '
                      'from them: own __orig_bases__, __mro__, dir(instance)',
                      'type arguments and TypeVars are opaque tokens compared by ==; the pool has 12 type arguments incl. typing aliases',
                      'identity of a reported callable = a tag attribute set on the function below all decorators',
                      'messages of the AssertionErrors are not compared']
    return ck.finish(
        rule='stream tv: class layouts with 1-4 (thorough 1-6) TypeVars x {direct Generic[...] at any base position, Generic after a bound alias, fully binding '
             'subclass with plain bases before/after and a second generic base, plain sub-subclasses, non-generic, forwarding/partially binding/builtin-alias '
             'bases} x {Cls[...](), Cls(), inside __init__} x {type_vars, type_var}; stream dm: enum of 0-4 members x class bodies of 0-6 (thorough 0-10) '
             'definitions {def, async def, classmethod, staticmethod, property, attribute, alias, names with _ and __, dunder names} x 0-3 decorators each '
             '(values incl. None, transformations keep/wraps/drop/raise) x {direct, mixin before/after, via intermediate base, unparametrised}; '
             'distinct = full case; non-trivial = at least two classes (tv) / at least one decorator (dm)',
        checker_cmd='make -C coq Props/C20.vo && coqc -Q coq PV coq/Props/C20.v (Print Assumptions under every theorem)',
        trusted_base=['Coq 8.16.1 kernel (coqc; vm_compute for model evaluation)', 'translator/t_mixins.py (Python ast -> Gen/Mixins.v)',
                      'Model/Mixins.v: interpreter of the statement language, attribute model of classes/aliases/instances, class-body model (build_table)',
                      'harness/w_mixins.py, harness/c20.py (layout read-back, canonicalisation)',
                      'CPython 3.12: class statement (__orig_bases__, MRO), typing._GenericAlias.__call__ setting __orig_class__, dir(), bound-method attribute delegation'])
