"""Implementation worker for C14: runs the real validators / convert_value on JSON cases and measures the
stdlib oracles (str, lower/upper, int, float, UUID, fromisoformat, epoch + timedelta) on the queries the
case can make.  One JSON object per case per line.  Never hangs: every case runs under an alarm."""
import sys, json, math, signal, datetime, uuid
import enum as _enum
import excs

BUDGET_S = 120     # wall clock per case; the two code-point sweeps need ~3 s on an idle machine, much more under load


class CaseTimeout(BaseException):
    pass


def _alarm(signum, frame):
    raise CaseTimeout()


# ---------- values <-> JSON -------------------------------------------------------------------------------
class Ctx:
    def __init__(self):
        self.objs = {}
        self.enum_cls = None
        self.enum_src = None


def pyval(j, ctx):
    t = j[0]
    if t == 'none':
        return None
    if t == 'bool':
        return bool(j[1])
    if t == 'int':
        return int(j[1], 16) if 'x' in j[1] else int(j[1])
    if t == 'float':
        return float(j[1]) if j[1] in ('nan', 'inf', '-inf') else float.fromhex(j[1])
    if t == 'str':
        return ''.join(map(chr, j[1]))
    if t == 'bytes':
        return bytes(j[1])
    if t == 'list':
        return [pyval(x, ctx) for x in j[1]]
    if t == 'tuple':
        return tuple(pyval(x, ctx) for x in j[1])
    if t == 'dict':
        return {pyval(k, ctx): pyval(v, ctx) for k, v in zip(j[1], j[2])}
    if t == 'obj':
        if j[1] not in ctx.objs:
            ctx.objs[j[1]] = object()
        return ctx.objs[j[1]]
    if t == 'opq':
        if j[1] == 3:
            return list(ctx.enum_cls)[int(j[2][0])]
        if j[1] == 1:
            return uuid.UUID(int=int(j[2][0]))
    raise ValueError('cannot build %r' % (j,))


def float_json(x):
    if x != x:
        return 'nan'
    if x in (math.inf, -math.inf):
        return 'inf' if x > 0 else '-inf'
    return x.hex()


def jsonval(v, ctx):
    if v is None:
        return ['none']
    if isinstance(v, _enum.Enum):
        if ctx.enum_cls is not None and type(v) is ctx.enum_cls:
            return ['opq', 3, [str(list(ctx.enum_cls).index(v))]]
        return ['unknown', 'enum']
    if type(v) is bool:
        return ['bool', v]
    if type(v) is int:
        return ['int', str(v) if v.bit_length() < 13000 else hex(v)]
    if type(v) is float:
        return ['float', float_json(v)]
    if type(v) is str:
        return ['str', [ord(c) for c in v]]
    if type(v) is bytes:
        return ['bytes', list(v)]
    if type(v) is list:
        return ['list', [jsonval(x, ctx) for x in v]]
    if type(v) is tuple:
        return ['tuple', [jsonval(x, ctx) for x in v]]
    if type(v) is dict:
        return ['dict', [jsonval(k, ctx) for k in v.keys()], [jsonval(x, ctx) for x in v.values()]]
    if type(v) is uuid.UUID:
        return ['opq', 1, [str(v.int)]]
    if type(v) is datetime.datetime:
        if v.tzinfo is None:
            tz = ['0']
        else:
            off = v.utcoffset()
            tz = ['1', str(off.days * 86400 + off.seconds), str(off.microseconds)]
        return ['opq', 2, [str(x) for x in (v.year, v.month, v.day, v.hour, v.minute, v.second, v.microsecond, v.fold)] + tz]
    for n, o in ctx.objs.items():
        if o is v:
            return ['obj', n]
    return ['unknown', type(v).__name__]


def outcome(f, ctx, conv=jsonval):
    """['ok', value] | ['exc', path, class name]"""
    try:
        r = f()
    except CaseTimeout:
        raise
    except BaseException as ex:
        return ['exc', excs.path_of(type(ex)), type(ex).__name__]
    return ['ok', conv(r, ctx)]


# ---------- validators from JSON --------------------------------------------------------------------------
def first_enum(w):
    if w['k'] == 'IsEnum':
        return w
    for c in w.get('cs', []):
        r = first_enum(c)
        if r:
            return r
    return None


def make_enum(w, ctx):
    vals = [pyval(m, ctx) for m in w['members']]
    names = [('M%d' % i, v) for i, v in enumerate(vals)]
    return _enum.IntEnum('IE', names) if w['int'] else _enum.Enum('E', names)


def opt(d, **kw):
    """keyword arguments whose JSON value is not None (None = use the library default)"""
    return {k: v for k, v in kw.items() if v is not None}


def build(w, ctx):
    from pedantic.decorators.fn_deco_validate import validators as V
    k = w['k']
    if k in ('Min', 'Max'):
        cls = V.Min if k == 'Min' else V.Max
        return cls(pyval(w['bound'], ctx), **opt(w, include_boundary=w['incl']))
    if k == 'MinLength':
        return V.MinLength(w['n'])
    if k == 'MaxLength':
        return V.MaxLength(length=w['n'])
    if k == 'NotEmpty':
        return V.NotEmpty(**opt(w, strip=w['strip']))
    if k == 'Email':
        kw = {}
        if w['pat'] is not None:
            kw['email_pattern'] = w['pat']
        pp = w['pp']
        if pp == 'rev':
            kw['post_processor'] = lambda x: x[::-1]
        elif pp != 'id':
            const = ''.join(map(chr, pp[1]))
            kw['post_processor'] = lambda x: const
        return V.Email(**kw)
    if k == 'IsUuid':
        return V.IsUuid(**opt(w, convert=w['convert']))
    if k == 'IsEnum':
        src = ctx.enum_src
        shared = src is not None and w['members'] == src['members'] and w['int'] == src['int']
        cls = ctx.enum_cls if shared else make_enum(w, ctx)
        return V.IsEnum(cls, **opt(w, convert=w['convert'], to_upper_case=w['upper']))
    if k == 'MatchPattern':
        return V.MatchPattern(w['pat'])
    if k == 'Iso':
        return V.DatetimeIsoFormat()
    if k == 'Unix':
        return V.DateTimeUnixTimestamp()
    if k == 'ForEach':
        cs = [build(c, ctx) for c in w['cs']]
        if w.get('single') and len(cs) == 1:
            return V.ForEach(cs[0])
        return V.ForEach(tuple(cs) if w.get('tuple') else cs)
    if k == 'Composite':
        cs = [build(c, ctx) for c in w['cs']]
        if w.get('direct') and len(cs) == 1:
            return V.Composite(cs[0])       # a Composite handed over directly: iterating it yields its children
        return V.Composite(cs)
    raise ValueError('unknown validator ' + k)


# ---------- oracle measurement -------------------------------------------------------------------------------
class Tables:
    def __init__(self, ctx):
        self.ctx = ctx
        self.t = {k: [] for k in ('str', 'lower', 'upper', 'int', 'intb', 'float', 'uuid', 'iso', 'epoch')}
        self.seen = set()

    def add(self, kind, key_json, val_json):
        sig = kind + json.dumps(key_json)
        if sig not in self.seen:
            self.seen.add(sig)
            self.t[kind].append([key_json, val_json])

    def sj(self, s):
        return [ord(c) for c in s]

    def q_str(self, v):
        """str(v); recorded when the model does not compute it itself"""
        try:
            s = str(v)
        except BaseException:
            return None
        if not (v is None or type(v) in (bool, int, str)):
            self.add('str', jsonval(v, self.ctx), self.sj(s))
        return s

    def q_case(self, s, which):
        r = s.lower() if which == 'lower' else s.upper()
        if not s.isascii():
            self.add(which, self.sj(s), self.sj(r))
        return r

    def q_int(self, s):
        self.add('int', self.sj(s), outcome(lambda: int(s), self.ctx, lambda r, c: str(r)))

    def q_intb(self, b):
        self.add('intb', list(b), outcome(lambda: int(b), self.ctx, lambda r, c: str(r)))

    def q_float(self, s):
        o = outcome(lambda: float(s), self.ctx, lambda r, c: float_json(r))
        self.add('float', self.sj(s), o)
        return float(s) if o[0] == 'ok' else None

    def q_uuid(self, s):
        self.add('uuid', self.sj(s), outcome(lambda: uuid.UUID(s), self.ctx))

    def q_iso(self, v):
        self.add('iso', jsonval(v, self.ctx), outcome(lambda: datetime.datetime.fromisoformat(v), self.ctx))

    def q_epoch(self, f):
        self.add('epoch', float_json(f),
                 outcome(lambda: datetime.datetime(year=1970, month=1, day=1) + datetime.timedelta(seconds=f), self.ctx))


def measure(w, v, tb, ctx, depth=0):
    """record the oracle answers the model may ask for while validating v with w"""
    k = w['k']
    if k == 'IsUuid':
        s = tb.q_str(v)
        if s is not None:
            tb.q_uuid(s)
    elif k == 'IsEnum':
        upper = True if w['upper'] is None else w['upper']
        v1 = v
        if isinstance(v, str) and upper:
            v1 = tb.q_case(v, 'upper')
        if w['int'] and isinstance(v1, str):
            tb.q_int(v1)
        if w['int'] and isinstance(v1, bytes):
            tb.q_intb(v1)
    elif k == 'MatchPattern':
        tb.q_str(v)
    elif k == 'Iso':
        tb.q_iso(v)
    elif k == 'Unix':
        f = None
        if isinstance(v, str):
            f = tb.q_float(v)
        elif isinstance(v, (int, float)):
            try:
                f = float(v)
            except OverflowError:
                f = None
        if f is not None:
            tb.q_epoch(f)
    elif k == 'Composite':
        for c in w['cs']:
            measure(c, v, tb, ctx, depth + 1)
    elif k == 'ForEach':
        try:
            items = list(v)
        except TypeError:
            return
        for it in items:
            cur = it
            for c in w['cs']:
                measure(c, cur, tb, ctx, depth + 1)
                try:
                    cur = build(c, ctx).validate(cur)
                except BaseException:
                    break


TARGETS = {'bool': bool, 'int': int, 'float': float, 'str': str, 'list': list, 'dict': dict}


def run_case(c):
    ctx = Ctx()
    kind = c['kind']
    if kind == 'validate':
        w = c['w']
        ctx.enum_src = first_enum(w)
        if ctx.enum_src is not None:
            ctx.enum_cls = make_enum(ctx.enum_src, ctx)
        v = pyval(c['v'], ctx)
        val = build(w, ctx)
        out = outcome(lambda: val.validate(v), ctx)
        v2 = pyval(c['v'], ctx)
        outp = outcome(lambda: build(w, ctx).validate_param(v2, 'p'), ctx)
        tb = Tables(ctx)
        if ctx.enum_cls is not None:
            for m in ctx.enum_cls:
                tb.q_str(m)
        measure(w, pyval(c['v'], ctx), tb, ctx)
        return {'out': out, 'outp': outp, 'oracles': tb.t}
    if kind == 'validate_seq':
        # ONE instance for the whole sequence of values (validate and validate_param alternate on it)
        w = c['w']
        ctx.enum_src = first_enum(w)
        if ctx.enum_src is not None:
            ctx.enum_cls = make_enum(ctx.enum_src, ctx)
        val = build(w, ctx)
        tb = Tables(ctx)
        if ctx.enum_cls is not None:
            for m in ctx.enum_cls:
                tb.q_str(m)
        outs, outps = [], []
        for vj in c['vs']:
            v = pyval(vj, ctx)
            outs.append(outcome(lambda: val.validate(v), ctx))
            v2 = pyval(vj, ctx)
            outps.append(outcome(lambda: val.validate_param(v2, 'p'), ctx))
            measure(w, pyval(vj, ctx), tb, ctx)
        return {'outs': outs, 'outps': outps, 'oracles': tb.t}
    if kind == 'convert':
        from pedantic.decorators.fn_deco_validate.convert_value import convert_value
        v = pyval(c['v'], ctx)
        out = outcome(lambda: convert_value(v, TARGETS[c['t']]), ctx)
        tb = Tables(ctx)
        s0 = tb.q_str(v)
        if s0 is not None:
            s1 = s0.strip()
            s2 = tb.q_case(s1, 'lower')
            tb.q_int(s2)
            tb.q_float(s2)
        return {'out': out, 'oracles': tb.t}
    if kind == 'roundtrip':
        from pedantic.decorators.fn_deco_validate.convert_value import convert_value
        x = pyval(c['x'], ctx)
        s = str(x)
        r = {'str': [ord(ch) for ch in s], 'out': outcome(lambda: convert_value(s, type(x)), ctx)}
        if type(x) is float:
            # the hypotheses of theorem C14_convert_inverts_str_float, measured on CPython: str(x) is already stripped and
            # lower-case, and float() reads it back as x
            r['norm_same'] = s.strip().lower() == s
            r['float_back'] = float_json(float(s))
        return r
    if kind == 'prim':
        op = c['op']
        if op == 'show':
            z = pyval(['int', c['z']], ctx)
            return {'r': outcome(lambda: str(z), ctx, lambda r, _: [ord(ch) for ch in r])}
        if op == 'parse':
            s = ''.join(map(chr, c['s']))
            return {'r': outcome(lambda: int(s), ctx, lambda r, _: str(r))}
        if op == 'strip':
            return {'r': [ord(ch) for ch in ''.join(map(chr, c['s'])).strip()]}
        if op == 'float_of_int':
            return {'r': outcome(lambda: float(int(c['z'])), ctx, lambda r, _: float_json(r))}
        if op == 'int_of_float':
            x = pyval(['float', c['f']], ctx)
            return {'r': outcome(lambda: int(x), ctx, lambda r, _: str(r))}
        if op == 'cmp':
            a, b = pyval(c['a'], ctx), pyval(c['b'], ctx)
            res = []
            for f in (lambda: a < b, lambda: a <= b, lambda: a > b, lambda: a >= b, lambda: a == b, lambda: a != b):
                try:
                    res.append(1 if f() else 0)
                except TypeError:
                    res.append(2)
            return {'r': res}
        if op == 'ws':
            import re
            strip = [cp for cp in range(0x110000) if chr(cp).strip() == '']
            space = [cp for cp in range(0x110000) if chr(cp).isspace()]
            rx = [cp for cp in range(0x110000) if re.fullmatch(r'\s', chr(cp))]
            return {'strip': strip, 'isspace_same': space == strip, 'regex_same': rx == strip}
        if op == 'num_ws':
            # the code points int() / float() skip before and after the number
            def skipped(f):
                out = []
                for cp in range(0x110000):
                    if 0xD800 <= cp <= 0xDFFF:
                        continue
                    ch = chr(cp)
                    try:
                        if f(ch + '7' + ch) == 7 and f(ch + '7') == 7 and f('7' + ch) == 7:
                            out.append(cp)
                    except ValueError:
                        pass
                return out
            return {'int': skipped(int), 'float': skipped(float)}
        if op == 'int_str':
            s = ''.join(map(chr, c['s']))
            return {'r': outcome(lambda: int(s), ctx, lambda r, _: str(r))}
        if op == 'regex':
            import re
            s = ''.join(map(chr, c['s']))
            fn = {'MFull': re.fullmatch, 'MSearch': re.search, 'MPrefix': re.match}[c['mode']]
            return {'r': 1 if fn(c['pat'], s) else 0}
        if op == 'email':
            import re
            from pedantic.decorators.fn_deco_validate.validators.email import REGEX_EMAIL
            s = ''.join(map(chr, c['s']))
            return {'r': 1 if re.fullmatch(REGEX_EMAIL, s) else 0}
        if op == 'ascii_case':
            s = ''.join(map(chr, c['s']))
            return {'ascii': s.isascii(), 'lower': [ord(ch) for ch in s.lower()], 'upper': [ord(ch) for ch in s.upper()]}
    raise ValueError('unknown case kind')


def main():
    cases = json.load(sys.stdin)
    signal.signal(signal.SIGALRM, _alarm)
    for c in cases:
        try:
            signal.alarm(BUDGET_S)
            r = run_case(c)
        except CaseTimeout:
            r = {'error': 'timeout'}
        except BaseException as ex:   # harness-level failure
            r = {'error': repr(ex)}
        finally:
            signal.alarm(0)
        print(json.dumps(r), flush=True)


if __name__ == '__main__':
    main()
