"""Implementation worker for C09 (stream env-history).

A case is an operation history on the process-wide switch:
  {'init': v, 'ops': [[0, v] setenv | [1] unsetenv | [2] enable_pedantic() | [3] disable_pedantic()
                      | [4, d, t, u] decorate a FRESH target of kind t with decorator d (u: inner decorator of for_all_methods)
                      | [5, i] call the i-th decorated object
                      | [6, d, u] create a decorator object and keep it: for_all_methods(inner u), pedantic(), pedantic_require_docstring(),
                        or a reference to one of the four class decorators
                      | [7, k, t] apply the k-th kept decorator object to a FRESH target of kind t
                      | [8, i, w, 0, d, u] / [8, i, w, 1, k] decorate AGAIN (directly with decorator d / with the k-th kept decorator
                        object) an object that went through a decorator earlier in the history: w = 0 the object that was GIVEN
                        to the decorator when the i-th decorated object was made, w = 1 the i-th decorated object itself
                      | [9, i, 0, d, u] / [9, i, 1, k] define a FRESH SUBCLASS of the i-th decorated object (a class) and decorate it
                      | [10, d, t, u, hook, thread] BEGIN an OVERLAPPING decoration: class decorator d (2..6) is applied to a fresh class
                        of kind t that carries hooks which fire WHILE the class decorator is at work: hook 0 (d = 6 only) the method
                        decorator handed to for_all_methods, hook 1 descriptors in the namespace of the class (read by getattr(cls, name)).
                        The ops up to the matching [12] run inside those hooks, [11] separates what the 1st, 2nd ... firing runs;
                        segments whose hook never fires (decorator disabled, fewer firings) run right after the decorator returned,
                        so the ORDER of the operations is always the order of the list.  thread 0: one thread; 1: the class
                        decorator runs in a second thread and hands every segment over to the main thread; 2: the class decorator
                        runs in the main thread, every segment in a second thread.  The decorated class counts as an object from [12] on
                      | [11] next hook firing | [12] END of the overlapping decoration (its observation is reported here)]}
  v: 0 "0", 1 "1", 2 "2", 3 "", 4 "true", 5 unset.
The worker process itself was started (and `pedantic` imported) with the variable unset / "0" / "1" (driver: run_impl env).

Per op one observation code, the encoding of Model/EnvEval.v:
  0 nothing to observe, 1 decorator returned the very object, unmodified, 2 a new or modified object, 3 decoration raised,
  4 call behaves like the undecorated callable, 5 call is checked/wrapped, 6 call-time failure of the switch,
  7 inconsistent probes / object changed after decoration, 8 harness problem (never expected).
No message texts, addresses or timings are compared."""
import sys, os, io, json, importlib.util, contextlib, threading, queue

HANDOVER_TIMEOUT = 120      # seconds a thread waits for the other one before the case is given up (harness problem, code 8)

NAME = 'ENABLE_PEDANTIC'
VALS = {0: '0', 1: '1', 2: '2', 3: '', 4: 'true'}

TARGETS_SRC = '''
import enum, dataclasses, functools


def make_fn(t):
    if t == 0:
        def fn(a: int) -> int:
            """Identity on ints.

            Args:
                a (int): a number

            Returns:
                int: the number
            """
            return a
        return fn
    if t == 1:
        async def fn(a: int) -> int:
            """Identity on ints.

            Args:
                a (int): a number

            Returns:
                int: the number
            """
            return a
        return fn
    if t == 2:
        def fn(a: int, b: str = 'x') -> int:
            """Identity on ints.

            Args:
                a (int): a number
                b (str): a text

            Returns:
                int: the number
            """
            return a
        return fn
    if t == 10:                       # nothing annotated, nothing documented
        def fn(a, b=2):
            return a
        return fn
    if t == 11:                       # not a function at all
        return functools.partial(int, base=2)
    if t == 12:                       # docstring that contradicts the signature
        def fn(a: int) -> int:
            """Wrong.

            Args:
                zzz (str): not a parameter

            Returns:
                str: no
            """
            return a
        return fn
    raise ValueError(t)


def make_cls(t):
    if t == 0:
        class Kls:
            """A class."""
            def __init__(self, v: int) -> None:
                """Constructor.

                Args:
                    v (int): a number
                """
                self.v = v

            def m(self, a: int) -> int:
                """Identity on ints.

                Args:
                    a (int): a number

                Returns:
                    int: the number
                """
                return a

            @property
            def p(self) -> int:
                """A property.

                Returns:
                    int: the value
                """
                return self.v
        return Kls
    if t == 1:
        class Base:
            def __init__(self, v: int) -> None:
                self.v = v

            def m(self, a: int) -> int:
                return -1

        class Kls(Base):
            """A subclass of an undecorated class."""
            def m(self, a: int) -> int:
                """Identity on ints.

                Args:
                    a (int): a number

                Returns:
                    int: the number
                """
                return a

            def other(self, x: str) -> str:
                """Identity on texts.

                Args:
                    x (str): a text

                Returns:
                    str: the text
                """
                return x
        return Kls
    if t == 2:
        class Kls:
            """Only one method, no constructor."""
            v = 0

            def m(self, a: int) -> int:
                """Identity on ints.

                Args:
                    a (int): a number

                Returns:
                    int: the number
                """
                return a
        return Kls
    if t == 10:
        class Kls(enum.Enum):
            A = 1
            B = 2

            def m(self, a: int) -> int:
                return a
        return Kls
    if t == 11:
        @dataclasses.dataclass
        class Kls:
            v: int = 0

            def m(self, a: int) -> int:
                return a
        return Kls
    if t == 12:
        class Kls:
            v = 0

            def m(self, a):                 # un-annotated, undocumented
                return a

            @staticmethod
            def s(a):
                return a

            @classmethod
            def c(cls, a):
                return a
        return Kls
    raise ValueError(t)


def make_sub(base):
    class Sub(base):
        """A subclass of a class that went through a decorator."""
        def own(self, a: int) -> int:
            """Identity on ints.

            Args:
                a (int): a number

            Returns:
                int: the number
            """
            return a
    return Sub
'''


READS = {'n': 0}


def install_spy():
    """count every read of the variable through os.environ (subscript, `in`, .get, os.getenv all end in _Environ.__getitem__)"""
    orig = os._Environ.__getitem__

    def spy(self, key):
        if key == NAME:
            READS['n'] += 1
        return orig(self, key)
    os._Environ.__getitem__ = spy


def load_targets():
    path = os.path.join(os.getcwd(), 'pv_env_targets_%d.py' % os.getpid())
    with open(path, 'w') as fh:
        fh.write(TARGETS_SRC)
    spec = importlib.util.spec_from_file_location('pv_env_targets_%d' % os.getpid(), path)
    mod = importlib.util.module_from_spec(spec)
    sys.modules[spec.name] = mod
    spec.loader.exec_module(mod)
    return mod


def set_env(v):
    if v == 5:
        os.environ.pop(NAME, None)
    else:
        os.environ[NAME] = VALS[v]


def snapshot(obj):
    """names and identities of everything in the object's own namespace"""
    d = obj.__dict__ if hasattr(obj, '__dict__') else {}
    return [(k, v) for k, v in list(d.items())]


def same_snapshot(a, b):
    return len(a) == len(b) and all(k1 == k2 and v1 is v2 for (k1, v1), (k2, v2) in zip(a, b))


class Journal(list):
    pass


def custom_decorator(journal):
    import functools

    def deco(f):
        @functools.wraps(f)
        def wrapper(*args, **kwargs):
            journal.append(f.__name__)
            return f(*args, **kwargs)
        return wrapper
    return deco


def drive(x):
    """run a coroutine that never really suspends"""
    if hasattr(x, 'send') and hasattr(x, 'cr_frame'):
        try:
            x.send(None)
        except StopIteration as st:
            return st.value
        x.close()
        raise RuntimeError('coroutine suspended')
    return x


def attempt(thunk):
    """-> ('ret', value, out) | ('ped', clsname, out) | ('exc', clsname, out)"""
    import pedantic
    buf = io.StringIO()
    try:
        with contextlib.redirect_stdout(buf):
            r = drive(thunk())
        return ('ret', r, buf.getvalue())
    except pedantic.exceptions.PedanticException as ex:
        return ('ped', type(ex).__name__, buf.getvalue())
    except KeyError as ex:
        return ('key', type(ex).__name__, buf.getvalue())
    except Exception as ex:
        return ('exc', type(ex).__name__, buf.getvalue())


def mode_of(d, u):
    return {2: 'pedantic', 3: 'pedantic', 4: 'trace', 5: 'timer'}.get(d) or {0: 'journal', 1: 'pedantic', 2: 'trace', 3: 'timer'}[u]


def probe(entry, applied):
    """call the decorated object; 4 plain, 5 checked/wrapped, 6 switch failure at call time, 7 inconsistent.
    `applied`: id(class) -> [(mode, journal)] of every decorator that was ever applied to that very class object (whatever
    the switch said): the marks a checking class may show.  For a class the methods it defines ITSELF are called (`meth`);
    for a subclass made by op 9 the inherited method must in addition behave as it does on an instance of the base class"""
    d, t, u, res = entry['d'], entry['t'], entry['u'], entry['res']
    detail = []
    if not same_snapshot(snapshot(res), entry['after']):
        return 7, ['namespace of the decorated object changed after decoration']
    if entry['fam'] == 'fn' and t == 11:
        return (4 if res is entry['target'] else 7), detail
    journals = []
    if entry['fam'] == 'fn':
        r = [attempt(lambda: res(1)), attempt(lambda: res(a='s')), attempt(lambda: res(a=1))]
        modes = {'pedantic'}
        inst = None
        meth = None
    else:
        ctor = (lambda c: c(v=1)) if t in (0, 1) else (lambda c: c(1)) if t == 10 else (lambda c: c())
        c = attempt(lambda: ctor(res))
        if c[0] != 'ret':
            return (6 if c[0] == 'key' else 7), [f'constructor with keywords: {c[:2]}']
        inst = c[1]
        meth = entry['meth']
        marks = applied.get(id(res), [])
        modes = {m for m, _ in marks}
        journals = [j for _, j in marks if j is not None]
        for j in journals:
            del j[:]
        r = [attempt(lambda: getattr(inst, meth)(1)), attempt(lambda: getattr(inst, meth)(a='s')),
             attempt(lambda: getattr(inst, meth)(a=1))]
        if t == 0 and not entry.get('sub'):
            r.append(attempt(lambda: res(1)))           # positional constructor call (t == 1 inherits an undecorated __init__)
    if any(x[0] == 'key' for x in r):
        return 6, [str([x[:2] for x in r])]
    values_ok = r[0][:2] == ('ret', 1) and r[1][:2] == ('ret', 's') and r[2][:2] == ('ret', 1) and all(x[0] == 'ret' for x in r[3:])
    ped_pattern = r[0][0] == 'ped' and r[1][0] == 'ped' and r[2][:2] == ('ret', 1) and all(x[0] == 'ped' for x in r[3:])
    returned = [x for x in r[:3] if x[0] == 'ret']
    silent = all(x[2] == '' for x in r) and not any(journals)
    evidence = []
    if 'pedantic' in modes:
        evidence.append(ped_pattern)
    if 'trace' in modes:
        evidence.append(bool(returned) and all('Trace' in x[2] for x in returned))
    if 'timer' in modes:
        evidence.append(bool(returned) and all('Timer' in x[2] for x in returned))
    for j in journals:
        evidence.append(bool(returned) and j.count(meth) >= len(returned))
    plain = values_ok and silent
    checked = (values_ok or (ped_pattern and 'pedantic' in modes)) and any(evidence)
    if inst is not None and t == 0:
        pr = attempt(lambda: inst.p)
        plain = plain and pr[:2] == ('ret', 1)
        checked = checked and pr[:2] == ('ret', 1)
    if entry.get('sub') and (plain or checked):
        # what the subclass inherits is looked up in the base class: same behaviour as on an instance of the base class
        b = attempt(lambda: ctor(entry['base']))
        if b[0] != 'ret':
            return 7, [f'constructor of the base class: {b[:2]}']
        sig = lambda x: (x[0], x[1] if x[0] == 'ret' else None, 'Trace' in x[2], 'Timer' in x[2])
        mine = [sig(attempt(lambda: inst.m(1))), sig(attempt(lambda: inst.m(a='s'))), sig(attempt(lambda: inst.m(a=1)))]
        base = [sig(attempt(lambda: b[1].m(1))), sig(attempt(lambda: b[1].m(a='s'))), sig(attempt(lambda: b[1].m(a=1)))]
        if mine != base:
            return 7, [f'inherited method behaves differently on the subclass: {mine} / on the base class: {base}']
    if plain and not checked:
        return 4, detail
    if checked and not plain:
        return 5, detail
    return 7, [str([x[:2] + (x[2][:30],) for x in r])]


def parse_history(ops):
    """the operations as a tree: ('op', k, op) | ('outer', {'k', 'op', 'segs': [[nodes]], 'end'}); [11] / [12] without an open [10]
    stay plain operations (nothing happens)"""
    root, stack, cur = [], [], None
    cur = root
    for k, op in enumerate(ops):
        code = op[0] if op else None
        if code == 10:
            node = {'k': k, 'op': op, 'segs': [[]], 'end': None}
            cur.append(('outer', node))
            stack.append((node, cur))
            cur = node['segs'][-1]
        elif code == 11 and stack:
            stack[-1][0]['segs'].append([])
            cur = stack[-1][0]['segs'][-1]
        elif code == 12 and stack:
            node, cur = stack.pop()
            node['end'] = k
        else:
            cur.append(('op', k, op))
    return root


class Hook:
    """a descriptor in the namespace of a class: reading the attribute from the class fires the hook"""
    def __init__(self, fire):
        self._fire = fire

    def __get__(self, inst, owner):
        self._fire()
        return None


def with_hooks(cls, n, fire):
    """the same class body with n hook descriptors spread over its namespace (one first, then one after each entry)"""
    items = [(k, v) for k, v in cls.__dict__.items() if k not in ('__dict__', '__weakref__')]
    ns, j = {'_pv_hook_0': Hook(fire)}, 1
    for k, v in items:
        ns[k] = v
        if j < n:
            ns['_pv_hook_%d' % j] = Hook(fire)
            j += 1
    while j < n:
        ns['_pv_hook_%d' % j] = Hook(fire)
        j += 1
    return type(cls)(cls.__name__, cls.__bases__, ns)


def run_case(case, targets):
    import pedantic
    from pedantic import (pedantic as p_pedantic, pedantic_require_docstring, pedantic_class, pedantic_class_require_docstring,
                          trace_class, timer_class, for_all_methods, trace, timer, enable_pedantic, disable_pedantic)
    def make_deco(d, u, direct=False):
        """the decorator OBJECT: for_all_methods(inner); pedantic() / pedantic_require_docstring() called without a function
        (they return the decorator); for the four class decorators the function object itself"""
        journal = None
        if d == 6:
            if u == 0:
                journal = Journal()
                inner = custom_decorator(journal)
            else:
                inner = {1: p_pedantic, 2: trace, 3: timer}[u]
            return for_all_methods(inner), journal
        if direct and d in (0, 1):            # @pedantic / @pedantic_require_docstring directly above the function
            return (p_pedantic if d == 0 else pedantic_require_docstring), None
        if d == 0:
            return (p_pedantic() if u % 2 == 0 else p_pedantic(require_docstring=False)), None
        if d == 1:
            return pedantic_require_docstring(), None
        return [pedantic_class, pedantic_class_require_docstring, trace_class, timer_class][d - 2], None

    set_env(case['init'])
    decos = []
    create_reads = []
    objs = []
    obs = [0] * len(case['ops'])
    details = {}
    call_reads = []
    applied = {}

    def world():
        """every object that was handed to or returned by a decorator so far, with its namespace"""
        seen, out = set(), []
        for e in objs:
            for x in (e['target'], e['res']) + ((e['base'],) if e.get('sub') else ()):
                if id(x) not in seen:
                    seen.add(id(x))
                    out.append((x, snapshot(x)))
        return out

    def resolve(kind, x, u):
        """-> (d, u, deco, journal) or None"""
        if kind == 0:
            if not 0 <= x <= 6:
                return None
            deco, journal = make_deco(x, u, direct=True)
            return x, u, deco, journal
        if not 0 <= x < len(decos):
            return None
        return decos[x]

    def decorate(k, d, u, deco, journal, given, t, meth, sub=False, base=None):
        """apply the decorator; observation 1 only if the very object came back and NOTHING changed: not its namespace, not
        the namespace of any other object that went through a decorator, nothing printed"""
        fam = 'fn' if d in (0, 1) else 'cls'
        before = snapshot(given)
        others = [(x, sn) for x, sn in world() if x is not given]
        a = attempt(lambda: deco(given))
        if a[0] != 'ret':
            obs[k] = 3                              # like the model: nothing is added to the list of decorated objects
            details[str(k)] = list(a[:2])
            return
        res = a[1]
        after = snapshot(res)
        touched = [x for x, sn in others if not same_snapshot(snapshot(x), sn)]
        identical = res is given and same_snapshot(before, after) and a[2] == '' and not touched
        obs[k] = 1 if identical else 2
        if touched and res is given and same_snapshot(before, after):
            details[str(k)] = ['another object was modified: ' + ', '.join(getattr(x, '__name__', '?') for x in touched)]
        if fam == 'cls':
            for x in ([res] if res is given else [res, given]):
                applied.setdefault(id(x), []).append((mode_of(d, u), journal))
        if not identical:
            for e in objs:                          # an object that was (legitimately or not) changed in place: later probes
                if e['res'] is res or e['res'] is given or any(e['res'] is x for x in touched):   # compare with the new namespace
                    e['after'] = snapshot(e['res'])
        objs.append({'d': d, 't': t, 'u': u, 'res': res, 'after': after, 'journal': journal, 'target': given, 'fam': fam,
                     'meth': meth, 'sub': sub, 'base': base})

    def exec_op(k, op):
        code = op[0]
        if code == 0:
            set_env(op[1]); obs[k] = 0
        elif code == 1:
            set_env(5); obs[k] = 0
        elif code == 2:
            enable_pedantic(); obs[k] = 0
        elif code == 3:
            disable_pedantic(); obs[k] = 0
        elif code in (4, 7):
            if code == 4:                           # create the decorator object and apply it in one go
                d, t, u = op[1], op[2] if len(op) > 2 else 0, op[3] if len(op) > 3 else 0
                deco, journal = make_deco(d, u, direct=True)
            else:                                   # apply a decorator object that was created earlier
                if op[1] >= len(decos):
                    obs[k] = 0
                    return
                d, u, deco, journal = decos[op[1]]
                t = op[2] if len(op) > 2 else 0
            target = targets.make_fn(t) if d in (0, 1) else targets.make_cls(t)
            decorate(k, d, u, deco, journal, target, t, 'm')
        elif code == 8:                             # decorate again an object that went through a decorator earlier
            i, w, kind, x = (op + [0, 0, 0, 0])[1:5]
            r = resolve(kind, x, op[5] if len(op) > 5 else 0) if 0 <= i < len(objs) else None
            if r is None or ('fn' if r[0] in (0, 1) else 'cls') != objs[i]['fam']:
                obs[k] = 0
                return
            e = objs[i]
            decorate(k, r[0], r[1], r[2], r[3], e['res'] if w else e['target'], e['t'], e['meth'], e['sub'], e['base'])
        elif code == 9:                             # a fresh subclass of an object that went through a decorator
            i, kind, x = (op + [0, 0, 0])[1:4]
            r = resolve(kind, x, op[4] if len(op) > 4 else 0) if 0 <= i < len(objs) else None
            if r is None or r[0] in (0, 1) or objs[i]['fam'] != 'cls':
                obs[k] = 0
                return
            e = objs[i]
            try:
                sub = targets.make_sub(e['res'])
            except Exception as ex:                 # a base class that cannot be subclassed: not generated
                obs[k] = 8
                details[str(k)] = ['subclass could not be defined', type(ex).__name__]
                return
            decorate(k, r[0], r[1], r[2], r[3], sub, e['t'], 'own', True, e['res'])
        elif code == 6:
            d, u = op[1], op[2] if len(op) > 2 else 0
            n0 = READS['n']
            a = attempt(lambda: make_deco(d, u))
            if READS['n'] != n0:
                create_reads.append(k)
            if a[0] != 'ret':
                obs[k] = 3
                details[str(k)] = list(a[:2])
                return
            decos.append((d, u) + a[1])
            obs[k] = 0
        elif code == 5:
            i = op[1]
            if i >= len(objs):
                obs[k] = 0
            else:
                n0 = READS['n']
                c, det = probe(objs[i], applied)
                if READS['n'] != n0:
                    call_reads.append(k)
                obs[k] = c
                if det:
                    details[str(k)] = det
        elif code in (11, 12):
            obs[k] = 0                              # no overlapping decoration is open: nothing happens
        else:
            obs[k] = 8

    def exec_nodes(nodes):
        for node in nodes:
            if node[0] == 'op':
                exec_op(node[1], node[2])
            else:
                exec_outer(node[1])

    def exec_outer(node):
        """an overlapping decoration (op 10 .. 12)"""
        op = node['op']
        d, t, u, hook, thread = (list(op) + [0] * 6)[1:6]
        segs = node['segs']
        k_obs = node['end'] if node['end'] is not None else node['k']
        if not (2 <= d <= 6 and t in (0, 1, 2) and 0 <= u <= 3 and thread in (0, 1, 2)):
            for seg in segs:                        # not an input: only the operations inside happen
                exec_nodes(seg)
            return
        st = {'next': 0, 'armed': True}
        to_main, to_deco = queue.Queue(), queue.Queue()

        def run_seg(i):
            if thread == 2:
                th = threading.Thread(target=guarded, args=(lambda: exec_nodes(segs[i]),), daemon=True)
                th.start()
                th.join(HANDOVER_TIMEOUT)
                if th.is_alive():
                    problem('a segment running in a second thread did not finish')
            else:
                exec_nodes(segs[i])

        def guarded(thunk):
            try:
                thunk()
            except BaseException as ex:
                problem('segment failed: %r' % (ex,))

        def problem(text):
            st['armed'] = False
            st['problem'] = text

        def fire():
            """runs where the class decorator is at work; never raises into it"""
            if not st['armed'] or st['next'] >= len(segs):
                return
            i = st['next']
            st['next'] += 1
            try:
                if thread == 1:
                    to_main.put(('seg', i))
                    to_deco.get(timeout=HANDOVER_TIMEOUT)
                else:
                    run_seg(i)
            except BaseException as ex:
                problem('hook failed: %r' % (ex,))

        journal = None
        if hook == 0 and d == 6:
            if u == 0:
                journal = Journal()
                base_inner = custom_decorator(journal)
            else:
                base_inner = {1: p_pedantic, 2: trace, 3: timer}[u]

            def inner(f):
                fire()
                return base_inner(f)
            deco = for_all_methods(inner)
            given = targets.make_cls(t)
        else:
            deco, journal = make_deco(d, u, direct=True)
            given = with_hooks(targets.make_cls(t), max(1, len(segs)), fire)

        def in_second_thread(call):
            box = {}

            def body():
                try:
                    box['r'] = ('ret', call())
                except BaseException as ex:
                    box['r'] = ('exc', ex)
                to_main.put(('done',))
            th = threading.Thread(target=body, daemon=True)
            th.start()
            while True:
                try:
                    msg = to_main.get(timeout=HANDOVER_TIMEOUT)
                except queue.Empty:
                    problem('the decorating thread neither finished nor reached a hook')
                    raise RuntimeError('handover timeout')
                if msg[0] == 'done':
                    break
                guarded(lambda: exec_nodes(segs[msg[1]]))
                to_deco.put('go')
            th.join(HANDOVER_TIMEOUT)
            if box['r'][0] == 'exc':
                raise box['r'][1]
            return box['r'][1]

        def overlapping(target):
            try:
                return in_second_thread(lambda: deco(target)) if thread == 1 else deco(target)
            finally:
                st['armed'] = False
                while st['next'] < len(segs):       # hooks that never fired: their operations follow now, in order
                    i = st['next']
                    st['next'] += 1
                    if 'problem' in st:
                        break
                    run_seg(i)

        decorate(k_obs, d, u, overlapping, journal, given, t, 'm')
        if 'problem' in st:
            obs[k_obs] = 8
            details[str(k_obs)] = [st['problem']]

    exec_nodes(parse_history(case['ops']))
    return {'obs': obs, 'details': details, 'call_reads': call_reads, 'create_reads': create_reads}


def main():
    cases = json.load(sys.stdin)
    start = os.environ.get(NAME)
    import pedantic          # imported under the start value of the variable
    targets = load_targets()
    install_spy()
    for c in cases:
        try:
            r = run_case(c, targets)
        except BaseException as ex:   # harness-level failure
            r = {'error': repr(ex)}
        finally:
            if start is None:
                os.environ.pop(NAME, None)
            else:
                os.environ[NAME] = start
        print(json.dumps(r), flush=True)


if __name__ == '__main__':
    main()
