"""Implementation worker for C09 (stream env-history).

A case is an operation history on the process-wide switch:
  {'init': v, 'ops': [[0, v] setenv | [1] unsetenv | [2] enable_pedantic() | [3] disable_pedantic()
                      | [4, d, t, u] decorate a FRESH target of kind t with decorator d (u: inner decorator of for_all_methods)
                      | [5, i] call the i-th decorated object
                      | [6, d, u] create a decorator object and keep it: for_all_methods(inner u), pedantic(), pedantic_require_docstring(),
                        or a reference to one of the four class decorators
                      | [7, k, t] apply the k-th kept decorator object to a FRESH target of kind t]}
  v: 0 "0", 1 "1", 2 "2", 3 "", 4 "true", 5 unset.
The worker process itself was started (and `pedantic` imported) with the variable unset / "0" / "1" (driver: run_impl env).

Per op one observation code, the encoding of Model/EnvEval.v:
  0 nothing to observe, 1 decorator returned the very object, unmodified, 2 a new or modified object, 3 decoration raised,
  4 call behaves like the undecorated callable, 5 call is checked/wrapped, 6 call-time failure of the switch,
  7 inconsistent probes / object changed after decoration, 8 harness problem (never expected).
No message texts, addresses or timings are compared."""
import sys, os, io, json, importlib.util, contextlib

NAME = 'ENABLE_PEDANTIC'
VALS = {0: '0', 1: '1', 2: '2', 3: '', 4: 'true'}

TARGETS_SRC = '''
import enum, dataclasses, functools


def make_fn(t):
    if t == 0:
        def fn(a: int) -> int:
            """Identity on ints.

            Args:
                a (int): a number

            Returns:
                int: the number
            """
            return a
        return fn
    if t == 1:
        async def fn(a: int) -> int:
            """Identity on ints.

            Args:
                a (int): a number

            Returns:
                int: the number
            """
            return a
        return fn
    if t == 2:
        def fn(a: int, b: str = 'x') -> int:
            """Identity on ints.

            Args:
                a (int): a number
                b (str): a text

            Returns:
                int: the number
            """
            return a
        return fn
    if t == 10:                       # nothing annotated, nothing documented
        def fn(a, b=2):
            return a
        return fn
    if t == 11:                       # not a function at all
        return functools.partial(int, base=2)
    if t == 12:                       # docstring that contradicts the signature
        def fn(a: int) -> int:
            """Wrong.

            Args:
                zzz (str): not a parameter

            Returns:
                str: no
            """
            return a
        return fn
    raise ValueError(t)


def make_cls(t):
    if t == 0:
        class Kls:
            """A class."""
            def __init__(self, v: int) -> None:
                """Constructor.

                Args:
                    v (int): a number
                """
                self.v = v

            def m(self, a: int) -> int:
                """Identity on ints.

                Args:
                    a (int): a number

                Returns:
                    int: the number
                """
                return a

            @property
            def p(self) -> int:
                """A property.

                Returns:
                    int: the value
                """
                return self.v
        return Kls
    if t == 1:
        class Base:
            def __init__(self, v: int) -> None:
                self.v = v

            def m(self, a: int) -> int:
                return -1

        class Kls(Base):
            """A subclass of an undecorated class."""
            def m(self, a: int) -> int:
                """Identity on ints.

                Args:
                    a (int): a number

                Returns:
                    int: the number
                """
                return a

            def other(self, x: str) -> str:
                """Identity on texts.

                Args:
                    x (str): a text

                Returns:
                    str: the text
                """
                return x
        return Kls
    if t == 2:
        class Kls:
            """Only one method, no constructor."""
            v = 0

            def m(self, a: int) -> int:
                """Identity on ints.

                Args:
                    a (int): a number

                Returns:
                    int: the number
                """
                return a
        return Kls
    if t == 10:
        class Kls(enum.Enum):
            A = 1
            B = 2

            def m(self, a: int) -> int:
                return a
        return Kls
    if t == 11:
        @dataclasses.dataclass
        class Kls:
            v: int = 0

            def m(self, a: int) -> int:
                return a
        return Kls
    if t == 12:
        class Kls:
            v = 0

            def m(self, a):                 # un-annotated, undocumented
                return a

            @staticmethod
            def s(a):
                return a

            @classmethod
            def c(cls, a):
                return a
        return Kls
    raise ValueError(t)
'''


READS = {'n': 0}


def install_spy():
    """count every read of the variable through os.environ (subscript, `in`, .get, os.getenv all end in _Environ.__getitem__)"""
    orig = os._Environ.__getitem__

    def spy(self, key):
        if key == NAME:
            READS['n'] += 1
        return orig(self, key)
    os._Environ.__getitem__ = spy


def load_targets():
    path = os.path.join(os.getcwd(), 'pv_env_targets_%d.py' % os.getpid())
    with open(path, 'w') as fh:
        fh.write(TARGETS_SRC)
    spec = importlib.util.spec_from_file_location('pv_env_targets_%d' % os.getpid(), path)
    mod = importlib.util.module_from_spec(spec)
    sys.modules[spec.name] = mod
    spec.loader.exec_module(mod)
    return mod


def set_env(v):
    if v == 5:
        os.environ.pop(NAME, None)
    else:
        os.environ[NAME] = VALS[v]


def snapshot(obj):
    """names and identities of everything in the object's own namespace"""
    d = obj.__dict__ if hasattr(obj, '__dict__') else {}
    return [(k, v) for k, v in list(d.items())]


def same_snapshot(a, b):
    return len(a) == len(b) and all(k1 == k2 and v1 is v2 for (k1, v1), (k2, v2) in zip(a, b))


class Journal(list):
    pass


def custom_decorator(journal):
    import functools

    def deco(f):
        @functools.wraps(f)
        def wrapper(*args, **kwargs):
            journal.append(f.__name__)
            return f(*args, **kwargs)
        return wrapper
    return deco


def drive(x):
    """run a coroutine that never really suspends"""
    if hasattr(x, 'send') and hasattr(x, 'cr_frame'):
        try:
            x.send(None)
        except StopIteration as st:
            return st.value
        x.close()
        raise RuntimeError('coroutine suspended')
    return x


def attempt(thunk):
    """-> ('ret', value, out) | ('ped', clsname, out) | ('exc', clsname, out)"""
    import pedantic
    buf = io.StringIO()
    try:
        with contextlib.redirect_stdout(buf):
            r = drive(thunk())
        return ('ret', r, buf.getvalue())
    except pedantic.exceptions.PedanticException as ex:
        return ('ped', type(ex).__name__, buf.getvalue())
    except KeyError as ex:
        return ('key', type(ex).__name__, buf.getvalue())
    except Exception as ex:
        return ('exc', type(ex).__name__, buf.getvalue())


def probe(entry):
    """call the decorated object; 4 plain, 5 checked/wrapped, 6 switch failure at call time, 7 inconsistent"""
    d, t, u, res = entry['d'], entry['t'], entry['u'], entry['res']
    detail = []
    if not same_snapshot(snapshot(res), entry['after']):
        return 7, ['namespace of the decorated object changed after decoration']
    if d in (0, 1) and t == 11:
        return (4 if res is entry['target'] else 7), detail
    if d in (0, 1):
        r = [attempt(lambda: res(1)), attempt(lambda: res(a='s')), attempt(lambda: res(a=1))]
        mode = 'pedantic'
        inst = None
    else:
        ctor = (lambda: res(v=1)) if t in (0, 1) else (lambda: res(1)) if t == 10 else (lambda: res())
        c = attempt(ctor)
        if c[0] != 'ret':
            return (6 if c[0] == 'key' else 7), [f'constructor with keywords: {c[:2]}']
        inst = c[1]
        journal = entry.get('journal')
        if journal is not None:
            del journal[:]
        r = [attempt(lambda: inst.m(1)), attempt(lambda: inst.m(a='s')), attempt(lambda: inst.m(a=1))]
        if t == 0:
            r.append(attempt(lambda: res(1)))           # positional constructor call (t == 1 inherits an undecorated __init__)
        mode = {2: 'pedantic', 3: 'pedantic', 4: 'trace', 5: 'timer'}.get(d) or {0: 'journal', 1: 'pedantic', 2: 'trace', 3: 'timer'}[u]
    if any(x[0] == 'key' for x in r):
        return 6, [str([x[:2] for x in r])]
    if mode == 'pedantic':
        plain = r[0][:2] == ('ret', 1) and r[1][:2] == ('ret', 's') and r[2][:2] == ('ret', 1) and all(x[0] == 'ret' for x in r[3:])
        checked = r[0][0] == 'ped' and r[1][0] == 'ped' and r[2][:2] == ('ret', 1) and all(x[0] == 'ped' for x in r[3:])
        if inst is not None and t == 0:
            pr = attempt(lambda: inst.p)
            plain = plain and pr[:2] == ('ret', 1)
            checked = checked and pr[:2] == ('ret', 1)
    else:
        values_ok = r[0][:2] == ('ret', 1) and r[1][:2] == ('ret', 's') and r[2][:2] == ('ret', 1)
        if mode == 'journal':
            marks = [entry['journal'].count('m') == 3]
            silent = not entry['journal']
        else:
            word = 'Trace' if mode == 'trace' else 'Timer'
            marks = [word in x[2] for x in r[:3]]
            silent = all(x[2] == '' for x in r)
        plain = values_ok and silent
        checked = values_ok and all(marks)
    if plain and not checked:
        return 4, detail
    if checked and not plain:
        return 5, detail
    return 7, [str([x[:2] + (x[2][:30],) for x in r])]


def run_case(case, targets):
    import pedantic
    from pedantic import (pedantic as p_pedantic, pedantic_require_docstring, pedantic_class, pedantic_class_require_docstring,
                          trace_class, timer_class, for_all_methods, trace, timer, enable_pedantic, disable_pedantic)
    def make_deco(d, u, direct=False):
        """the decorator OBJECT: for_all_methods(inner); pedantic() / pedantic_require_docstring() called without a function
        (they return the decorator); for the four class decorators the function object itself"""
        journal = None
        if d == 6:
            if u == 0:
                journal = Journal()
                inner = custom_decorator(journal)
            else:
                inner = {1: p_pedantic, 2: trace, 3: timer}[u]
            return for_all_methods(inner), journal
        if direct and d in (0, 1):            # @pedantic / @pedantic_require_docstring directly above the function
            return (p_pedantic if d == 0 else pedantic_require_docstring), None
        if d == 0:
            return (p_pedantic() if u % 2 == 0 else p_pedantic(require_docstring=False)), None
        if d == 1:
            return pedantic_require_docstring(), None
        return [pedantic_class, pedantic_class_require_docstring, trace_class, timer_class][d - 2], None

    set_env(case['init'])
    decos = []
    create_reads = []
    objs = []
    obs = []
    details = {}
    call_reads = []
    for k, op in enumerate(case['ops']):
        code = op[0]
        if code == 0:
            set_env(op[1]); obs.append(0)
        elif code == 1:
            set_env(5); obs.append(0)
        elif code == 2:
            enable_pedantic(); obs.append(0)
        elif code == 3:
            disable_pedantic(); obs.append(0)
        elif code in (4, 7):
            if code == 4:                           # create the decorator object and apply it in one go
                d, t, u = op[1], op[2] if len(op) > 2 else 0, op[3] if len(op) > 3 else 0
                deco, journal = make_deco(d, u, direct=True)
            else:                                   # apply a decorator object that was created earlier
                if op[1] >= len(decos):
                    obs.append(0)
                    continue
                d, u, deco, journal = decos[op[1]]
                t = op[2] if len(op) > 2 else 0
            target = targets.make_fn(t) if d in (0, 1) else targets.make_cls(t)
            before = snapshot(target)
            a = attempt(lambda: deco(target))
            if a[0] != 'ret':
                obs.append(3)                       # like the model: nothing is added to the list of decorated objects
                details[str(k)] = list(a[:2])
                continue
            res = a[1]
            after = snapshot(res)
            identical = res is target and same_snapshot(before, after) and a[2] == ''
            obs.append(1 if identical else 2)
            objs.append({'d': d, 't': t, 'u': u, 'res': res, 'after': after, 'journal': journal, 'target': target})
        elif code == 6:
            d, u = op[1], op[2] if len(op) > 2 else 0
            n0 = READS['n']
            a = attempt(lambda: make_deco(d, u))
            if READS['n'] != n0:
                create_reads.append(k)
            if a[0] != 'ret':
                obs.append(3)
                details[str(k)] = list(a[:2])
                continue
            decos.append((d, u) + a[1])
            obs.append(0)
        elif code == 5:
            i = op[1]
            if i >= len(objs):
                obs.append(0)
            else:
                n0 = READS['n']
                c, det = probe(objs[i])
                if READS['n'] != n0:
                    call_reads.append(k)
                obs.append(c)
                if det:
                    details[str(k)] = det
        else:
            obs.append(8)
    return {'obs': obs, 'details': details, 'call_reads': call_reads, 'create_reads': create_reads}


def main():
    cases = json.load(sys.stdin)
    start = os.environ.get(NAME)
    import pedantic          # imported under the start value of the variable
    targets = load_targets()
    install_spy()
    for c in cases:
        try:
            r = run_case(c, targets)
        except BaseException as ex:   # harness-level failure
            r = {'error': repr(ex)}
        finally:
            if start is None:
                os.environ.pop(NAME, None)
            else:
                os.environ[NAME] = start
        print(json.dumps(r), flush=True)


if __name__ == '__main__':
    main()
