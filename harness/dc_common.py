"""Shared by harness/c10.py and harness/c11.py: the correspondence stream `dataclass`.

Generated class definitions (0-6 fields, annotations from the C01 vocabulary, defaults / default_factory,
init=False, compare=False, 0-2 levels of inheritance with decorated and undecorated subclasses, every
type_safe / slots / order / kw_only choice, user __post_init__ bodies (object.__setattr__(self, <field or new name>,
<conforming / non-conforming value>), super().__post_init__(), return or raise), module-level or
function-local definition), an initial heap of argument objects (explicit aliasing), and an operation
script: constructor (keyword and positional), copy_with / deep_copy_with over replace-subsets,
validate_types (also after mutating a list held by a field), setattr / delattr of every field and of a
new name, ==, <, <=, >, >=, hash.  Streams: valid / near-miss (one corrupted position) / malformed.

Two dimensions live on the implementation side only (the model is evaluated on the same lowered case and is, by construction,
indifferent to both - that indifference IS the specification):
  * field identifiers: the model's field names are opaque tokens; `case['names']` renders some of them as real identifiers
    from NAME_POOL (names a helper of the library is likely to use for its own parameters: deep, cls, kwargs, changes, ...)
    instead of f<token>;
  * call site: an operation whose trailing element is {'nest': mode} is executed WHILE the user-defined __post_init__ of a
    type-safe dataclass is running (a carrier class of the worker: plain / slots / stacked wrappers; an instance of the case's
    own class; or in a second thread started by such a hook).  The property quantifies over construction paths, not over call
    sites: the observation must be the one of the same operation made at top level (which is what the model computes).

The real classes are exercised by harness/w_dataclass.py, the model (Model/Dataclass.v under the
regenerated decorator program and the regenerated checker tables) is evaluated inside Coq by
Model/DataclassEval.eval_case on the same lowered case; `judge` compares observation lists
(correspondence) and decides the property clauses (implementation against specification)."""
import copy, hashlib, itertools, json
from lib import *
import gen_checker as G
import universe as U

UNITS = ['Dataclass', 'CheckerTables']
MODEL = ['Model/DataclassEval.vo']
PRE = ('From Coq Require Import List ZArith Bool.\n'
       'From PV Require Import Base.Exn Base.Values Base.Ann Model.Dataclass Model.DataclassEval.\nImport ListNotations.')
PATHS = [[0], [0, 1], [1], [0, 1, 0], [2], [5]]
SELFCOPY = [5]                      # index into PATHS: class U5 defines __deepcopy__ returning self
NEW_NAME = 90
PRIVATE_NAME = 91                   # rendered with a leading underscore
UNKNOWN_FIELD = 77
BAD_KINDS = ('keys', 'values', 'items', 'iter')
OPTS = ('type_safe', 'order', 'kw_only', 'slots')
DPARAM = {'type_safe': 'PTypeSafe', 'order': 'POrder', 'kw_only': 'PKwOnly', 'slots': 'PSlots'}
KIND_OF = {'list': 0, 'dict': 1, 'set': 10, 'tuple': 12, 'deque': 13, 'defaultdict': 14, 'ordereddict': 15}
FACTORY_KIND = {'list': 0, 'dict': 1, 'set': 10, 'deque': 13}
CMPOPS = ['eq', 'lt', 'le', 'gt', 'ge']
# identifiers a helper inside the library is likely to use for a parameter or local of its own.  A field may legally carry
# any of them (dataclasses itself copes with every one, `self` included).
# `self` is in the pool since the repair bed89f0 (copy_with / deep_copy_with take self positional-only; before, on a class with a
# field named `self`, x.copy_with(self=v) raised TypeError("got multiple values for argument 'self'"): finding C11-field-named-self).
NAME_POOL_CORE = ['self', 'deep', 'cls', 'kwargs', 'changes', 'other', 'name', 'value', 'field', 'fields', 'obj', 'instance', 'memo']
NAME_POOL_MORE = ['args', 'kw', 'key', 'default', 'init', 'copy', 'replace', 'context', '_context', 'props', 'method',
                  'new_class', 'cls_', 'type_', 'err', 'type_vars', 'order', 'slots', 'kw_only', 'type_safe', 'frozen',
                  'current_values', 'result', 'shallow', 'strict', 'validate', 'depth', 'frame']
NEST_MODES = ('hook', 'hook-slots', 'hook-stacked', 'same', 'thread')
NESTABLE = ('ctor', 'copy', 'deep', 'validate')


# ------------------------------------------------------------------------------------------ values
def is_atom(v):
    k = v[0]
    if k in ('none', 'bool', 'int', 'float', 'str', 'bytes', 'class', 'fun', 'lambda', 'builtinfn', 'object'):
        return True
    if k in ('tuple', 'frozenset'):
        return all(is_atom(x) for x in v[1])
    return False


def distinct_keys(ts):
    """no two of the (hashable) trees are equal as Python values (0 == False == 0.0): the real container would merge them"""
    seen = []
    for t in ts:
        if not is_atom(t):
            continue                      # instances: identity
        try:
            o = U.render_val(t)
            if any(o == x and hash(o) == hash(x) for x in seen):
                return False
            seen.append(o)
        except Exception:
            return False
    return True


def clean(v):
    """usable in this stream: deep-copyable, sets hold immutable values only, no keys that Python would merge"""
    if v is None:
        return False
    k = v[0]
    if k in BAD_KINDS:
        return False
    if k in ('set', 'frozenset'):
        return all(is_atom(x) and clean(x) for x in v[1]) and distinct_keys(v[1])
    if k in ('list', 'tuple', 'deque'):
        return all(clean(x) for x in v[1])
    if k in ('dict', 'defaultdict', 'ordereddict'):
        return all(clean(a) and clean(b) for a, b in v[1]) and distinct_keys([a for a, b in v[1]])
    if k == 'inst':
        return v[1] in PATHS
    return True


class Lower:
    """abstract value trees -> atoms table + initial heap cells"""
    def __init__(self):
        self.atoms, self.ix, self.heap = [], {}, []

    @staticmethod
    def canon(t):
        """frozensets are unordered"""
        if t[0] == 'frozenset':
            return ['frozenset', sorted((Lower.canon(x) for x in t[1]), key=json.dumps)]
        if t[0] == 'tuple':
            return ['tuple', [Lower.canon(x) for x in t[1]]]
        return t

    def val(self, t):
        if is_atom(t):
            key = json.dumps(Lower.canon(t))
            if key not in self.ix:
                self.ix[key] = len(self.atoms)
                self.atoms.append(t)
            return ['a', self.ix[key]]
        k = t[0]
        if k == 'inst':
            i = PATHS.index(t[1])
            cell = {'k': (200 if i in SELFCOPY else 100) + i, 'items': [['a', t[2]]]}
        elif k in ('dict', 'defaultdict', 'ordereddict'):
            items = []
            for a, b in t[1]:
                items += [self.val(a), self.val(b)]
            cell = {'k': KIND_OF[k], 'items': items}
        else:
            cell = {'k': KIND_OF[k], 'items': [self.val(x) for x in t[1]]}
        self.heap.append(cell)
        return ['r', len(self.heap) - 1]


# ------------------------------------------------------------------------------------------ class definitions
def chain_of(case, c):
    out = []
    while c is not None:
        out.append(case['classes'][c])
        c = case['classes'][c]['base']
    return out


def merged_fields(case, c):
    fs = []
    for k in reversed(chain_of(case, c)):
        if k['deco'] is None:
            continue
        for f in k['fields']:
            for i, g in enumerate(fs):
                if g['name'] == f['name']:
                    fs[i] = f
                    break
            else:
                fs.append(f)
    return fs


def opt_of(k, name, default):
    d = k['deco']
    if d is None:
        return None
    if d['shortcut']:
        return {'type_safe': True}.get(name, default)
    return bool(d['given'].get(name, default))


def spec_validating(case, c):
    """the class is type-safe: decorated with type_safe=True, or it inherits __post_init__ from such a class"""
    for k in chain_of(case, c):
        if k['deco'] is not None and opt_of(k, 'type_safe', False):
            return True
        if k['pi'] is not None:
            return False
    return False


def spec_typesafe(case, c):
    """instances of class c are instances of a type-safe class (isinstance): the property speaks about them"""
    return any(k['deco'] is not None and opt_of(k, 'type_safe', False) for k in chain_of(case, c))


def pi_below_type_safe_layer(case, c):
    """a __post_init__ defined in a subclass (not itself type-safe) of a type-safe class: it replaces the new_post_init hook"""
    return spec_typesafe(case, c) and not spec_validating(case, c)


def user_pi(case, c):
    """the user-written __post_init__ that runs for instances of class c (the first one along the MRO)"""
    for k in chain_of(case, c):
        if k['pi'] is not None:
            return k
    return None


def pi_norm(pi):
    """the user hook of a class in one shape: None | {'body': [['set', name, value] | ['super']], 'raise': None | exception path}
    (cases written before hooks had bodies say 'ret' / ['raise', path])"""
    if pi is None:
        return None
    if pi == 'ret':
        return {'body': [], 'raise': None}
    if isinstance(pi, list):
        return {'body': [], 'raise': pi[1]}
    return pi


def has_dict(case, c):
    """instances of class c have a __dict__: some class of the MRO is not a slots=True dataclass"""
    return any(k['deco'] is None or not opt_of(k, 'slots', False) for k in chain_of(case, c))


def hook_names(case, c):
    """names that a user-written __post_init__ anywhere along the MRO of class c assigns (Spec.hook_set_names)"""
    out = set()
    for k in chain_of(case, c):
        pi = pi_norm(k['pi'])
        if pi:
            out |= {s[1] for s in pi['body'] if s[0] == 'set'}
    return out


def spec_hook_run(case, c):
    """the user-written hooks by Python's rules alone (first class along the MRO that defines __post_init__; super() continues
    with the rest of the MRO; a type-safe class below provides a __post_init__ that checks).
    -> {'events': ids of the hooks entered, 'sets': names assigned, 'end': 'ok' | exception code, 'mid': a type-safe base's
        __post_init__ was called and fields were assigned afterwards (its check saw intermediate values)}"""
    fields = {f['name'] for f in merged_fields(case, c)}
    dict_ok = has_dict(case, c)
    out = {'events': [], 'end': 'ok', 'mid': False, 'sets': []}
    checked = [False]

    def run(chain):
        for i, k in enumerate(chain):
            pi = pi_norm(k['pi'])
            if pi is None:
                continue
            out['events'].append(k['id'])
            for st in pi['body']:
                if st[0] == 'set':
                    if checked[0]:
                        out['mid'] = True
                    if st[1] not in fields and not dict_ok:
                        return 12                                     # AttributeError of object.__setattr__
                    out['sets'].append(st[1])
                else:
                    if k['deco'] is not None and opt_of(k, 'slots', False):
                        return 10                                     # zero-argument super() in a class dataclass() re-created
                    rest = chain[i + 1:]
                    if any(pi_norm(x['pi']) for x in rest):
                        if any(x['deco'] is not None and opt_of(x, 'type_safe', False) for x in rest):
                            checked[0] = True
                        e = run(rest)
                        if e is not None:
                            return e
                    elif any(x['deco'] is not None and opt_of(x, 'type_safe', False) for x in rest):
                        checked[0] = True                             # the base's __post_init__ is the checking one
                    else:
                        return 12                                     # 'super' object has no attribute '__post_init__'
            if pi['raise'] is not None:
                return pi['raise'][1]
            return None
        return None
    e = run(chain_of(case, c))
    if e is not None:
        out['end'] = e
    return out


def ts_levels(case, c):
    """number of new_post_init wrappers that can run for an instance of class c (stacked, or reached through super())"""
    n = 0
    for k in chain_of(case, c):
        ts = k['deco'] is not None and opt_of(k, 'type_safe', False)
        if ts:
            n += 1
        h = pi_norm(k['pi'])
        if h is not None and not any(st[0] == 'super' for st in h['body']):
            break                          # a hook that calls super() reaches the wrappers of the classes below
    return n


def wrapper_below_other_frames(case, c):
    """some new_post_init that runs for an instance of class c has another frame (an outer wrapper, or a user hook that reached
    it through super()) between itself and the generated __init__: get_context(depth=3) then does not land in the caller's frame"""
    frames = 0
    for k in chain_of(case, c):
        if k['deco'] is not None and opt_of(k, 'type_safe', False):
            if frames >= 1:
                return True
            frames += 1
        h = pi_norm(k['pi'])
        if h is not None:
            frames += 1
            if not any(st[0] == 'super' for st in h['body']):
                break
    return False


def has_fwd(a):
    if a[0] == 'fwd':
        return True
    if a[0] == 'union':
        return any(has_fwd(x) for x in a[2])
    if a[0] == 'gen':
        return any(has_fwd(x) for x in a[3])
    if a[0] == 'tuplevar':
        return has_fwd(a[2])
    if a[0] == 'newtype':
        return has_fwd(a[1])
    if a[0] == 'callable':
        return has_fwd(a[2]) or any(has_fwd(x) for x in (a[1] or []))
    return False


def valid_order(case):
    """dataclasses: among the positional parameters of __init__ no field without a default after one with"""
    for c in case['classes']:
        if c['deco'] is None:
            continue
        seen_default = False
        for f in merged_fields(case, c['id']):
            if not f['init']:
                continue
            if f['default'] is not None:
                seen_default = True
            elif seen_default:
                return False
    return True


# ------------------------------------------------------------------------------------------ generator
def gen_field_ann(rng, maxd):
    d = rng.choice([0, 0, 1, 1, 2, maxd])
    for _ in range(6):
        a = G.gen_ann(rng, d, top=True)
        v = G.gen_conf(rng, a)
        if clean(v):
            return a
    return ['cls', 'int']


def gen_value(rng, a):
    for _ in range(8):
        v = G.gen_conf(rng, a)
        if clean(v):
            return v
    return ['none']


def has_function(v):
    return v[0] in ('fun', 'lambda') or (v[0] in ('tuple', 'frozenset') and any(has_function(x) for x in v[1]))


def default_ok(v):
    """a def function stored as class attribute is returned as a bound method by attribute access (init=False fields
    read their default from the class): CPython's descriptor protocol, not this library's business"""
    return is_atom(v) and not (v[0] in ('fun', 'lambda'))


def gen_atom_value(rng, a):
    for _ in range(12):
        v = gen_value(rng, a)
        if default_ok(v):
            return v
    return ['none']


def gen_bad_value(rng, a, v):
    for _ in range(8):
        try:
            b = G.corrupt(rng, a, v)
        except Exception:
            b = None
        if b is not None and clean(b):
            return b
    return rng.choice([['object'], ['str', [113]], ['int', 41], ['list', [['none']]]])


def gen_hook(rng, case, c, L, p):
    """a user-written __post_init__ for class c (the classes generated so far are its bases): journal entry, then up to three
    statements - object.__setattr__(self, name, value) on a field known here (the value conforms to its annotation, or is a
    corrupted one, or is an object of the initial heap) or on a new name, at most one super().__post_init__() - then return
    or raise"""
    if rng.random() >= p:
        return None
    known = [f for k in case['classes'] for f in k['fields']] + list(c['fields'])
    body = []
    r = rng.random()
    n_sets = 0 if r < 0.4 else (1 if r < 0.8 else 2)
    for _ in range(n_sets):
        if known and rng.random() < 0.9:
            f = rng.choice(known)
            a = case['anns'][f['tok']]
            if a == ['cls', ['user', [5]]]:
                v = ['inst', [5], rng.randrange(30)]
            else:
                v = gen_value(rng, a)
            if rng.random() < 0.3:
                v = gen_bad_value(rng, a, v)
            body.append(['set', f['name'], L.val(v)])
        else:
            body.append(['set', NEW_NAME, L.val(['int', 9])])
    if rng.random() < (0.45 if c['base'] is not None else 0.08):
        body.insert(rng.randrange(len(body) + 1), ['super'])
    return {'body': body, 'raise': [0, 20 + c['id']] if rng.random() < 0.15 else None}


def gen_case(rng, tier, stream):
    maxd = 2 if tier == 'quick' else 3
    scope = 'local' if rng.random() < 0.12 else 'module'
    case = {'scope': scope, 'ctx': [[n, c, scope == 'local'] for n, c in G.CTX], 'paths': PATHS, 'selfcopy': SELFCOPY,
            'anns': [], 'classes': [], 'stream': stream}
    L = Lower()
    depth = rng.choice([0, 0, 0, 1, 1, 1, 2, 2])
    kw_only = rng.random() < 0.7
    budget = 6
    next_name = 0
    for lvl in range(depth + 1):
        decorated = lvl == 0 or rng.random() < 0.65
        c = {'id': lvl, 'base': lvl - 1 if lvl else None, 'deco': None, 'fields': [], 'pi': None}
        if decorated:
            if kw_only and rng.random() < 0.3:
                c['deco'] = {'shortcut': True, 'given': {}}
            else:
                g = {}
                if rng.random() < (0.75 if lvl == 0 else 0.5):
                    g['type_safe'] = rng.random() < 0.85
                if rng.random() < 0.45:
                    g['order'] = rng.random() < 0.8
                if rng.random() < 0.45:
                    g['slots'] = rng.random() < 0.8
                if not kw_only:
                    g['kw_only'] = False
                elif rng.random() < 0.2:
                    g['kw_only'] = True
                c['deco'] = {'shortcut': False, 'given': g, 'bare': rng.random() < 0.5}
            n_own = min(budget, rng.choice([0, 1, 1, 2, 2, 3, 4] if lvl == 0 else [0, 0, 1, 1, 2, 3]))
            budget -= n_own
            inherited = [f['name'] for k in case['classes'] for f in k['fields']]
            for _ in range(n_own):
                if inherited and rng.random() < 0.12:
                    name = rng.choice(inherited)            # redefinition keeps the position
                    if name in [f['name'] for f in c['fields']]:
                        continue
                else:
                    name = next_name
                    next_name += 1
                f = {'name': name, 'tok': len(case['anns']), 'default': None, 'init': True, 'compare': rng.random() >= 0.1}
                r = rng.random()
                if r < 0.14:
                    fk = rng.choice(['list', 'list', 'dict', 'set', 'deque'])
                    sp = rng.choice(['typing', 'builtin'])
                    elem = rng.choice([['cls', 'int'], ['cls', 'str'], ['any'], ['cls', ['user', [0]]],
                                       ['union', 'typing', [['cls', 'int'], ['cls', 'NoneType']]]])
                    hel = rng.choice([['cls', 'int'], ['cls', 'str'], ['gen', 'typing', 'Tuple', [['cls', 'int'], ['cls', 'str']]]])
                    a = {'list': rng.choice([['gen', sp, 'List', [elem]], ['gen', 'typing', 'Sequence', [elem]],
                                             ['gen', 'typing', 'MutableSequence', [elem]], ['gen', 'typing', 'Iterable', [elem]]]),
                         'dict': rng.choice([['gen', sp, 'Dict', [hel, elem]], ['gen', 'typing', 'Mapping', [hel, elem]]]),
                         'set': rng.choice([['gen', sp, 'Set', [hel]], ['gen', 'typing', 'AbstractSet', [hel]]]),
                         'deque': ['gen', 'typing', 'Deque', [elem]]}[fk]
                    if rng.random() < 0.1:
                        a = rng.choice([['cls', 'int'], ['gen', 'typing', 'List', [['cls', 'int']]], ['cls', 'str']])
                    f['default'] = ['factory', fk]
                elif r < 0.18:
                    a = ['cls', ['user', [5]]]
                elif r < 0.21:
                    a = ['cls', ['user', [0]]]
                    f['default'] = ['val', L.val(['inst', [0], 40 + name])]
                    f['init'] = rng.random() < 0.4
                else:
                    a = gen_field_ann(rng, maxd)
                    if rng.random() < 0.3:
                        for _t in range(5):
                            v = gen_value(rng, a)
                            if default_ok(v):
                                if rng.random() < 0.1:
                                    b = gen_bad_value(rng, a, v)
                                    v = b if default_ok(b) else v
                                f['default'] = ['val', L.val(v)]
                                f['plain_default'] = rng.random() < 0.5
                                break
                # dataclasses: a redefinition without default silently inherits the base's class attribute
                if f['default'] is None and any(g['name'] == name and g['default'] is not None and g['default'][0] == 'val'
                                                for k in case['classes'] for g in k['fields']):
                    f['default'] = ['val', L.val(gen_atom_value(rng, a))]
                    f['plain_default'] = True
                if f['default'] is not None and f['init'] and rng.random() < 0.18:
                    f['init'] = False
                elif f['default'] is None and rng.random() < 0.012:
                    f['init'] = False
                case['anns'].append(a)
                c['fields'].append(f)
            c['pi'] = gen_hook(rng, case, c, L, 0.34)
        else:
            c['pi'] = gen_hook(rng, case, c, L, 0.22)
        case['classes'].append(c)
    # CPython: an init=False field with a default VALUE is read from the class attribute by non-slots classes, and a
    # slots class deletes that attribute: mixing slots and non-slots classes over such a field loses its value.
    # Not pedantic's business: keep slots uniform in such hierarchies.
    if any(not f['init'] and f['default'] is not None and f['default'][0] == 'val' for k in case['classes'] for f in k['fields']):
        deco = [k for k in case['classes'] if k['deco'] is not None]
        uniform = rng.random() < 0.4 and not any(k['deco']['shortcut'] for k in deco)
        for k in deco:
            if not k['deco']['shortcut']:
                k['deco']['given']['slots'] = uniform
    if not valid_order(case):
        for c in case['classes']:
            if c['deco'] is not None and not c['deco']['shortcut']:
                c['deco']['given']['kw_only'] = True
        kw_only = True
    case['kw_only'] = kw_only

    # ---- the script
    target = depth if rng.random() < 0.65 else rng.randrange(depth + 1)
    fields = merged_fields(case, target)
    ann_of = {f['name']: case['anns'][f['tok']] for f in fields}
    init_fields = [f for f in fields if f['init']]

    def assignment(omit=0.5):
        kw, trees = [], {}
        for f in init_fields:
            if f['default'] is not None and rng.random() < omit:
                continue
            a = ann_of[f['name']]
            if a == ['cls', ['user', [5]]]:
                t = ['inst', [5], rng.randrange(30)]
            else:
                t = gen_value(rng, a)
            trees[f['name']] = t
            kw.append([f['name'], None])
        # aliasing: fields with the same annotation may receive the very same object
        lowered = {}
        for item in kw:
            n = item[0]
            twin = [m for m in lowered if ann_of[m] == ann_of[n]]
            if twin and rng.random() < 0.3:
                item[1] = lowered[twin[0]]
                trees[n] = trees[twin[0]]
            else:
                item[1] = L.val(trees[n])
            lowered[n] = item[1]
        return kw, trees

    kw0, trees0 = assignment()
    corrupt_at = None
    if stream == 'near-miss' and init_fields:
        corrupt_at = rng.choice(['ctor', 'copy', 'deep', 'ctor'])

    def positional(kw):
        """a positional prefix (in field order) of the given values"""
        order = [f['name'] for f in init_fields]
        given = dict((n, v) for n, v in kw)
        k = 0
        while k < len(order) and order[k] in given and rng.random() < 0.7:
            k += 1
        return [given[n] for n in order[:k]], [[n, v] for n, v in kw if n not in order[:k]]
    pos = []
    if not kw_only and kw0 and rng.random() < 0.35:
        pos, kw0 = positional(kw0)
    prefix = [['ctor', target, pos, kw0]]
    # the object in register 0 is built from conforming values (unless a default or a __post_init__ spoils it), so that
    # the copy methods have a receiver; corrupted and malformed constructions are separate operations
    extra = []
    if corrupt_at == 'ctor' and kw0:
        kwb = [list(x) for x in kw0]
        i = rng.randrange(len(kwb))
        n = kwb[i][0]
        kwb[i][1] = L.val(gen_bad_value(rng, ann_of[n], trees0.get(n, ['none'])))
        extra.append(['ctor', target, list(pos), kwb])
    if stream == 'malformed':
        kwb, posb = [list(x) for x in kw0], list(pos)
        r = rng.random()
        if r < 0.3:
            kwb.append([UNKNOWN_FIELD, L.val(['int', 1])])
        elif r < 0.55 and kwb:
            req = [i for i, (n, v) in enumerate(kwb) if next(f for f in init_fields if f['name'] == n)['default'] is None]
            if req:
                kwb.pop(rng.choice(req))
        elif r < 0.75:
            nf = [f for f in fields if not f['init']]
            if nf:
                kwb.append([rng.choice(nf)['name'], L.val(['int', 1])])
        elif not kw_only:
            posb = posb + [L.val(['int', 1])] * (len(init_fields) + 1)
        elif kwb:
            posb, kwb = [kwb[0][1]], kwb[1:]              # positional argument to a keyword-only __init__
        extra.append(['ctor', target, posb, kwb])
    # a field that a hook assigns holds the hook's object in EVERY instance: mutating it in place through one instance would be
    # seen by the operations of later branches on the real side (the model restarts every branch from the state after the prefix)
    hooked_all = set()
    for k in case['classes']:
        hooked_all |= hook_names(case, k['id'])
    list_fields = [n for n, t in trees0.items() if t[0] == 'list' and n in dict(kw0)]
    list_fields += [f['name'] for f in init_fields if f['default'] == ['factory', 'list'] and f['name'] not in dict(kw0)
                    and not pos]
    list_fields = [n for n in list_fields if n not in hooked_all]
    if list_fields and rng.random() < 0.75:
        n = rng.choice(list_fields)
        prefix.append(['validate', 0])
        prefix.append(['append', 0, n, L.val(rng.choice([['int', 3], ['str', [97]], ['none'], ['inst', [0], 1], ['list', []]]))])
        prefix.append(['validate', 0])
    elif rng.random() < 0.5:
        prefix.append(['validate', 0])
    # a second instance for comparisons: the same values / fresh values / another class of the hierarchy
    r = rng.random()
    if r < 0.4:
        prefix.append(['ctor', target, list(pos), [list(x) for x in kw0]])
    elif r < 0.8:
        kw1, _ = assignment(omit=0.3)
        prefix.append(['ctor', target, [], kw1])
    else:
        other = rng.randrange(depth + 1)
        prefix.append(['ctor', other, [], [[n, v] for n, v in kw0 if n in [f['name'] for f in merged_fields(case, other) if f['init']]]])
    prefix += extra
    nreg = 2 + len(extra)
    branches = []
    names = [f['name'] for f in init_fields]
    subsets = [[], names]
    if tier == 'thorough' and len(names) <= 5:
        subsets = [list(s) for k in range(len(names) + 1) for s in itertools.combinations(names, k)]
    else:
        for _ in range(2 if tier == 'quick' else 6):
            subsets.append([n for n in names if rng.random() < 0.5])
        subsets += [[n] for n in rng.sample(names, min(len(names), 2))]
    seen = set()
    bad_done = False
    for S in subsets:
        key = tuple(S)
        if key in seen:
            continue
        seen.add(key)
        for meth in ('copy', 'deep'):
            kw = []
            for n in S:
                a = ann_of[n]
                if dict(kw0).get(n) is not None and rng.random() < 0.15:
                    kw.append([n, dict(kw0)[n]])                 # hand the original's own object back
                    continue
                t = ['inst', [5], rng.randrange(30)] if a == ['cls', ['user', [5]]] else gen_value(rng, a)
                kw.append([n, L.val(t)])
            if corrupt_at == meth and kw and not bad_done:
                i = rng.randrange(len(kw))
                kw[i][1] = L.val(gen_bad_value(rng, ann_of[kw[i][0]], ['none']))
                bad_done = True
            if stream == 'malformed' and rng.random() < 0.25:
                nf = [f['name'] for f in fields if not f['init']]
                kw.append([rng.choice(nf) if nf and rng.random() < 0.6 else UNKNOWN_FIELD, L.val(['int', 2])])
            br = [[meth, 0, kw]]
            r = rng.random()
            if r < 0.25:
                br += [['cmp', 'eq', 0, nreg], ['hash', nreg]]
            elif r < 0.4:
                br += [['setattr', nreg, rng.choice(names + [NEW_NAME]), L.val(['int', 7])], ['validate', nreg]]
            elif r < 0.5:
                br += [['copy' if meth == 'deep' else 'deep', nreg, []], ['cmp', 'eq', nreg, nreg + 1]]
            elif r < 0.6:
                br += [['validate', nreg]]
            branches.append(br)
    # frozen probes: every field and a new name, on the instance (and its class as registered)
    probe = []
    for n in [f['name'] for f in fields] + [NEW_NAME, PRIVATE_NAME]:
        probe.append(['setattr', 0, n, L.val(rng.choice([['int', 5], ['none'], ['str', [98]]]))])
        probe.append(['delattr', 0, n])
    probe.append(['setattr', 1, NEW_NAME, L.val(['int', 5])])
    branches.append(probe)
    cmpb = [['cmp', o, 0, 1] for o in CMPOPS] + [['hash', 0], ['hash', 1], ['cmp', 'eq', 0, 0], ['cmp', 'le', 0, 0]]
    branches.append(cmpb)
    # history: copy -> mutate a list held by the copy in place -> copy the ORIGINAL again -> compare.  A copy operation must not
    # depend on earlier copies.  The shallow variant mutates a list the original shares, and the real mutation would outlive
    # the branch (the model restarts every branch from the state after the prefix): these two branches come last.
    given0 = dict(kw0)
    lists0 = [f['name'] for f in init_fields
              if f['name'] not in hooked_all and
              ((trees0.get(f['name'], [None])[0] == 'list' and f['name'] in given0)
               or (f['default'] == ['factory', 'list'] and f['name'] not in given0 and not pos))]
    for meth in ('deep', 'copy'):
        if meth == 'deep' and len(init_fields) > 3:
            continue                                          # the model's deep copy relocates the heap once per field
        if rng.random() < (0.8 if lists0 else 0.3):
            br = [[meth, 0, []]]
            if lists0:
                br.append(['append', nreg, rng.choice(lists0), L.val(rng.choice([['int', 3], ['str', [97]], ['none'], ['list', []]]))])
            S = [n for n in names if rng.random() < 0.3]
            kw = []
            for n in S:
                a = ann_of[n]
                kw.append([n, L.val(['inst', [5], rng.randrange(30)] if a == ['cls', ['user', [5]]] else gen_value(rng, a))])
            br += [[meth, 0, kw], ['cmp', 'eq', 0, nreg + 1], ['cmp', 'eq', nreg, nreg + 1], ['validate', nreg + 1]]
            if rng.random() < 0.5:
                br += [['deep' if meth == 'copy' and len(init_fields) <= 3 else 'copy', nreg, []]]
            branches.append(br)
    case.update({'atoms': L.atoms, 'heap': L.heap, 'prefix': prefix, 'branches': branches, 'target': target})
    gen_names(rng, case)
    gen_nesting(rng, case)
    return case


def gen_names(rng, case):
    """render some field tokens (and sometimes the unknown keyword of the malformed stream) as identifiers of the pool"""
    case['names'] = {}
    if rng.random() >= 0.35:
        return
    toks = sorted({f['name'] for k in case['classes'] for f in k['fields']})
    if rng.random() < 0.3:
        toks.append(UNKNOWN_FIELD)
    free = list(NAME_POOL_CORE) * 3 + list(NAME_POOL_MORE)
    for t in toks:
        if rng.random() < 0.65:
            nm = rng.choice(free)
            free = [x for x in free if x != nm]
            case['names'][str(t)] = nm


def gen_nesting(rng, case):
    """mark operations to be made while a user-defined __post_init__ of a type-safe dataclass is running"""
    if rng.random() >= 0.35:
        return
    mode = rng.choice(NEST_MODES)
    p = rng.choice([0.3, 0.6, 1.0])
    for seq in [case['prefix']] + case['branches']:
        for op in seq:
            if op[0] in NESTABLE and rng.random() < p:
                op.append({'nest': mode})


def nest_of(op):
    return op[-1].get('nest') if op and isinstance(op[-1], dict) else None


# ------------------------------------------------------------------------------------------ Coq rendering
def cnat(n):
    return '%d%%nat' % n


def cval(v):
    return f'(VAtom {coq_Z(v[1])})' if v[0] == 'a' else f'(VRef {cnat(v[1])})'


def ckind(k):
    if k == 0: return 'KList'
    if k == 1: return 'KDict'
    if k >= 200: return f'(KSelfCopy {cnat(k - 200)})'
    if k >= 100: return f'(KUser {cnat(k - 100)})'
    return f'(KOther {cnat(k - 10)})'


def ckw(kw):
    return coq_list([f'({cnat(n)}, {cval(v)})' for n, v in kw])


def cfield(f):
    d = f['default']
    dd = 'DNone' if d is None else (f'(DVal {cval(d[1])})' if d[0] == 'val' else f'(DFactory {ckind(FACTORY_KIND[d[1]])})')
    return f'(mkField {cnat(f["name"])} {cnat(f["tok"])} {dd} {coq_bool(f["init"])} {coq_bool(f["compare"])})'


def clayer(c):
    if c['deco'] is None:
        deco = 'None'
    else:
        given = coq_list([f'({DPARAM[k]}, {coq_bool(bool(v))})' for k, v in c['deco']['given'].items()])
        deco = f'(Some (mkDeco {coq_bool(c["deco"]["shortcut"])} {given}))'
    h = pi_norm(c['pi'])
    if h is None:
        pi = 'None'
    else:
        body = coq_list(['PSuper' if st[0] == 'super' else f'(PSet {cnat(st[1])} {cval(st[2])})' for st in h['body']])
        rs = 'None' if h['raise'] is None else f'(Some {coq_list([cnat(x) for x in h["raise"]])})'
        pi = f'(Some (mkPib {body} {rs}))'
    fields = coq_list([cfield(f) for f in c['fields']]) if c['deco'] is not None else '[]'
    return f'(mkLayer {cnat(c["id"])} {deco} {fields} {pi})'


def cop(op):
    k = op[0]
    if k == 'ctor': return f'(OCtor {cnat(op[1])} {coq_list([cval(v) for v in op[2]])} {ckw(op[3])})'
    if k == 'copy': return f'(OCopy {cnat(op[1])} {ckw(op[2])})'
    if k == 'deep': return f'(ODeep {cnat(op[1])} {ckw(op[2])})'
    if k == 'validate': return f'(OValidate {cnat(op[1])})'
    if k == 'setattr': return f'(OSetattr {cnat(op[1])} {cnat(op[2])} {cval(op[3])})'
    if k == 'delattr': return f'(ODelattr {cnat(op[1])} {cnat(op[2])})'
    if k == 'append': return f'(OAppend {cnat(op[1])} {cnat(op[2])} {cval(op[3])})'
    if k == 'cmp': return f'(OCmp Op{op[1].capitalize()} {cnat(op[2])} {cnat(op[3])})'
    if k == 'hash': return f'(OHash {cnat(op[1])})'
    raise ValueError(op)


def coq_case(case, w):
    """w: the worker's result (reified annotations / atoms, observed set orders)"""
    ctx = coq_list([f'({cnat(n)}, {U.coq_cls(c)}, {coq_bool(loc)})' for n, c, loc in case['ctx']])
    anns = coq_list([U.coq_ann(a) for a in w['anns']])
    atoms = coq_list([U.coq_val(a) for a in w['atoms']])
    paths = coq_list([coq_list([cnat(x) for x in p]) for p in case['paths']])
    heap = []
    for q, cell in enumerate(case['heap']):
        items = cell['items']
        so = w.get('set_order', {}).get(str(q))
        if so is not None and None not in so and sorted(so) == sorted(v[1] for v in items if v[0] == 'a') and len(so) == len(items):
            items = [['a', z] for z in so]
        heap.append(f'(mkObj {ckind(cell["k"])} {coq_list([cval(v) for v in items])} [])')
    classes = coq_list([coq_list([clayer(k) for k in chain_of(case, c['id'])]) for c in case['classes']])
    prefix = coq_list([cop(o) for o in case['prefix']])
    branches = coq_list([coq_list([cop(o) for o in b]) for b in case['branches']])
    return f'eval_case (mkEnv {ctx} {anns} {atoms} {paths}) {classes} {coq_list(heap)} {prefix} {branches}'


# ------------------------------------------------------------------------------------------ judging
def all_ops(case):
    out = [(('prefix', i), op) for i, op in enumerate(case['prefix'])]
    for b, br in enumerate(case['branches']):
        out += [((b, i), op) for i, op in enumerate(br)]
    return out


def split_model(flat):
    """model output -> per operation (observation without the verdict segment, verdicts or None)"""
    ops, cur = [], None
    for x in flat:
        if x == -1:
            cur = []
            ops.append(cur)
        elif cur is not None:
            cur.append(x)
    out = []
    for o in ops:
        if -6 in o:
            i = o.index(-6)
            j = o.index(-3, i) if -3 in o[i:] else len(o)
            out.append((o[:i] + o[j:], o[i + 1:j]))
        else:
            out.append((o, None))
    return out


def map_journal(obs, tok_class):
    """model journal events carry annotation tokens; the worker sees annotation objects (identity classes)"""
    out = list(obs)
    for i in range(1, len(out)):
        if out[i] < 0:
            break
        if out[i] >= 1000 and out[i] - 1000 < len(tok_class):
            out[i] = 1000 + tok_class[out[i] - 1000]
    return out


def journal_of(obs):
    j = []
    for x in obs[1:]:
        if x < 0:
            break
        j.append(x)
    return j


def op_class(case, regs_cls, op):
    k = op[0]
    if k == 'ctor':
        return op[1]
    if k in ('copy', 'deep', 'validate', 'setattr', 'delattr', 'append', 'hash'):
        i = op[1]
        return regs_cls[i] if 0 <= i < len(regs_cls) else None
    if k == 'cmp':
        return regs_cls[op[2]] if 0 <= op[2] < len(regs_cls) else None
    return None


def judge(case, w, model):
    """-> (disagreements, c10 violations, c11 violations); each a list of dicts"""
    dis, v10, v11 = [], [], []
    if w is None or 'error' in w:
        return [{'what': f'implementation worker failed: {w}'}], [], []
    if 'decoration_failed' in w:
        return [{'what': 'the generated class definitions were refused: ' + w['decoration_failed']}], [], []
    if model is None:
        return [{'what': 'model evaluation failed'}], [], []
    ops = all_ops(case)
    mod = split_model(model)
    if len(mod) != len(ops) or len(w['obs']) != len(ops):
        return [{'what': f'{len(ops)} operations, {len(mod)} model observations, {len(w["obs"])} implementation observations'}], [], []
    # register -> class, replayed per branch
    base_regs, regs = [], []
    cur_branch = 'prefix'
    for (where, op), (m_obs, verd), i_obs, viol in zip(ops, mod, w['obs'], w['viol']):
        if where[0] != cur_branch:
            if cur_branch == 'prefix':
                base_regs = list(regs)
            regs = list(base_regs)
            cur_branch = where[0]
        cls = op_class(case, regs, op)
        if op[0] in ('ctor', 'copy', 'deep'):
            regs.append(cls)
        m_cmp = map_journal(m_obs, w['tok_class'])
        rec = {'where': list(where), 'op': op, 'impl': i_obs, 'model': m_cmp}
        if 99 in m_obs[:1] or (m_obs and m_obs[0] == 98) != (i_obs and i_obs[0] == 98):
            dis.append(dict(rec, what='evaluation failure code'))
        elif m_cmp != i_obs:
            dis.append(dict(rec, what='observation differs'))
        # ---- C11: clauses judged by the worker on the real objects
        for v in viol:
            if 'returns an instance (no TypeError / ValueError)' in (v.get('clause') or '') and cls is not None \
                    and spec_hook_run(case, cls)['end'] != 'ok':
                continue                   # the refusal is the user-written __post_init__'s own exception
            v11.append(dict(rec, clause=v.get('clause'), detail=v, cls=cls))
        # ---- C10: implementation outcome against the specification's verdicts
        if cls is None or verd is None or op[0] not in ('ctor', 'copy', 'deep', 'validate'):
            continue
        if not verd or any(x in (96, 99) for x in verd):
            continue                       # no candidate object (binding error)
        code = i_obs[0]
        if code == 98:
            continue                       # the operation had no receiver on the implementation side
        jr = journal_of(i_obs)
        # a field without value (97: init=False, no default, no hook assigns it) does not conform: PedanticTypeCheckException
        # (finding C10-initfalse-nodefault, fixed)
        want = 'accept' if all(x == 1 for x in verd) else ('reject' if any(x in (2, 97) for x in verd) else 'any')
        if op[0] == 'validate':
            if (want == 'accept' and code != 0) or (want == 'reject' and code != 1):
                v10.append(dict(rec, clause='validate_types raises iff some field does not conform', verdicts=verd, outcome=code, cls=cls))
            continue
        if not spec_typesafe(case, cls):
            continue
        hk = spec_hook_run(case, cls)
        up = user_pi(case, cls)
        if up is not None:
            epi = [x - 100 for x in jr if 100 <= x < 1000]
            first_check = next((i for i, x in enumerate(jr) if x >= 1000), len(jr))
            ok = (bool(jr) and jr[0] == 100 + up['id'] and epi == hk['events'][:len(epi)]
                  and (code != 0 or epi == hk['events'])
                  and all(x >= 1000 for x in jr[first_check:]))
            if not ok:
                v10.append(dict(rec, clause='the user-defined __post_init__ runs exactly once, before the check', journal=jr,
                                expected_hooks=hk['events'], cls=cls))
        if hk['end'] != 'ok':
            # the user-written part raises: no instance; for a hook without statements it is its own exception and nothing is checked
            h = pi_norm(up['pi']) if up is not None else None
            simple = h is not None and not h['body'] and h['raise'] is not None
            if code == 0 or (simple and (code != hk['end'] or len(jr) != 1)):
                v10.append(dict(rec, clause='an exception of the user __post_init__ leaves, nothing is checked', journal=jr, outcome=code,
                                cls=cls, hook_end=hk['end']))
            continue
        if want == 'accept' and hk['mid']:
            want = 'any'                   # a type-safe base's __post_init__ was called midway: its check saw the values of that moment
        if (want == 'accept' and code != 0) or (want == 'reject' and code != 1):
            v10.append(dict(rec, clause='an instance is obtained iff every field value conforms (else PedanticTypeCheckException)',
                            verdicts=verd, outcome=code, cls=cls, path=op[0]))
    return dis, v10, v11


# ------------------------------------------------------------------------------------------ known findings
def rejected_annotation(case, v):
    """the annotation of the field whose check raised: the last check event of the implementation's journal
    (annotation objects, by identity class = first token holding that object)"""
    ev = [x for x in journal_of(v.get('impl') or [0]) if x >= 1000]
    if not ev or ev[-1] - 1000 >= len(case['anns']):
        return None
    return case['anns'][ev[-1] - 1000]


def ctx_matcher(finding, payload):
    """C10-ctx: a forward reference to a class local to the defining function resolves only in the caller's frame;
    copy_with (frame of dataclasses.replace) and new_post_init wrappers that are not called by __init__ directly (stacked ones,
    or reached through a user hook's super() call) validate without it.  Only a rejection
    (PedanticTypeCheckException where the specification demands an instance) raised by the check of a field whose
    annotation contains such a forward reference."""
    if finding.get('matcher', {}).get('id') != 'local_forward_ref_context':
        return False
    case, v = payload['case'], payload.get('violation', {})
    if case.get('scope') != 'local' or v.get('outcome') != 1 or not v.get('verdicts') or not all(x == 1 for x in v['verdicts']):
        return False
    cls = v.get('cls')
    a = rejected_annotation(case, v)
    if cls is None or a is None or not has_fwd(a):
        return False
    return v.get('path') == 'copy' or wrapper_below_other_frames(case, cls)


def override_matcher(finding, payload):
    """C10-override: __post_init__ defined below a type-safe layer (in a subclass that is not itself type-safe) without
    calling super: the instance is returned although a field must not conform"""
    if finding.get('matcher', {}).get('id') != 'post_init_defined_below_type_safe_layer':
        return False
    case, v = payload['case'], payload.get('violation', {})
    cls = v.get('cls')
    return (cls is not None and pi_below_type_safe_layer(case, cls) and v.get('outcome') == 0
            and v.get('path') in ('ctor', 'copy', 'deep') and any(x in (2, 97) for x in (v.get('verdicts') or [])))


def fixed_symptom(finding, v):
    """the symptom of a repaired finding, looked for when its witness is replayed"""
    if finding['id'] == 'C10-initfalse-nodefault':
        # a field without value (verdict 97) and anything but PedanticTypeCheckException
        return 97 in (v.get('verdicts') or []) and v.get('outcome') != 1
    return True


def c10_matcher(finding, payload):
    return ctx_matcher(finding, payload) or override_matcher(finding, payload)


def unfrozen_matcher(finding, payload):
    """C11-subclass-unfrozen: an instance of an UNDECORATED subclass of a @frozen_dataclass class (no slots=True class in the
    hierarchy) accepts assignment / deletion of a name that is not a field"""
    if finding.get('matcher', {}).get('id') != 'undecorated_subclass_new_attribute':
        return False
    case, v = payload['case'], payload.get('violation', {})
    d, cls = v.get('detail', {}), v.get('cls')
    if cls is None or d.get('outcome') != 0 or not str(d.get('clause', '')).endswith('on an instance is rejected and changes nothing'):
        return False
    ch = chain_of(case, cls)
    op = v.get('op') or [None, None, None]
    return (ch[0]['deco'] is None and any(k['deco'] is not None for k in ch)
            and not any(k['deco'] is not None and opt_of(k, 'slots', False) for k in ch)
            and op[0] in ('setattr', 'delattr') and op[2] not in [f['name'] for f in merged_fields(case, cls)])


def inherited_order_matcher(finding, payload):
    """C11-inherited-order: < <= > >= of a class that is not itself decorated with order=True come from the nearest order=True
    class of its MRO and compare THAT class's fields: only when that class has other compare fields than the instance's class"""
    if finding.get('matcher', {}).get('id') != 'order_methods_inherited_from_class_with_other_fields':
        return False
    case, v = payload['case'], payload.get('violation', {})
    d, cls, op = v.get('detail', {}), v.get('cls'), v.get('op') or [None, None]
    if cls is None or op[0] != 'cmp' or op[1] not in ('lt', 'le', 'gt', 'ge') \
            or d.get('clause') != f'{op[1]} is the comparison of the tuples of fields':
        return False
    ch = chain_of(case, cls)
    prov = next((k for k in ch if k['deco'] is not None and opt_of(k, 'order', False)), None)
    if prov is None or prov is ch[0]:
        return False
    mine = [f['name'] for f in merged_fields(case, cls) if f['compare']]
    theirs = [f['name'] for f in merged_fields(case, prov['id']) if f['compare']]
    return mine != theirs


def c11_matcher(finding, payload):
    return initfalse_matcher(finding, payload) or unfrozen_matcher(finding, payload) or inherited_order_matcher(finding, payload)


def initfalse_matcher(finding, payload):
    """C11-initfalse: init=False fields are re-initialised from their default by both copy methods: only when the field of
    the copy holds exactly that re-initialised default (the default object itself / a fresh empty object of the factory)"""
    if finding.get('matcher', {}).get('id') != 'init_false_field_reinitialised':
        return False
    d = payload.get('violation', {}).get('detail', {})
    return d.get('init') is False and d.get('reinit') is True and d.get('clause') in (
        'copy_with shares the un-replaced field object with the original (is)',
        "deep_copy_with: an un-replaced field equals the original's value",
        'deep_copy_with shares no mutable field object with the original')


def reduce_case(case, where):
    """the prefix plus the branch (cut after the failing operation) in which a violation was seen"""
    c = copy.deepcopy(case)
    if where[0] == 'prefix':
        c['prefix'] = c['prefix'][:where[1] + 1]
        c['branches'] = []
    else:
        c['branches'] = [c['branches'][where[0]][:where[1] + 1]]
    return c


def size_of(case):
    return (sum(len(k['fields']) for k in case['classes']), len(case['classes']), len(case['prefix']) + sum(len(b) for b in case['branches']))


# ------------------------------------------------------------------------------------------ stream `typevar-fields` (C10)
# Implementation-only stream, judged by the specification directly (tv_spec below, written from the property text): the model
# checks every field against a FRESH TypeVar table, and Spec/Conforms.v leaves TypeVar annotations unspecified, so the Coq side
# has nothing to say here.  Input dimension: type-safe dataclasses whose FIELD annotations mention TypeVars (item: T,
# items: List[T], Dict[str, T], Optional[T], Tuple[T, T], Tuple[T, ...], Set[T], bound / constrained TypeVars), the same TypeVar
# objects in several classes, and a HISTORY of operations (constructor / copy_with / deep_copy_with / validate_types) in which
# different instances use different classes for the same TypeVar.  "iff every field value conforms to its field annotation"
# speaks about the candidate instance alone: what an earlier instance held must not decide whether a later one is obtained.
def tvd(i, constraints=(), bound=None):
    return {'id': i, 'constraints': list(constraints), 'bound': bound, 'contra': False}


TV_FREE = [tvd(0), tvd(1)]
TV_SPECIAL = [tvd(3, bound='int'), tvd(4, constraints=['int', 'str']), tvd(5, bound=['user', [0]])]
TV_KINDS = ['int', 'str', 'float', 'bytes', 'bool', 'none', 'u0', 'u01', 'u1']
TV_DECOS = {'shortcut': {'shortcut': True, 'given': {}},
            'ts': {'shortcut': False, 'given': {'type_safe': True}, 'bare': False},
            'ts-slots': {'shortcut': False, 'given': {'type_safe': True, 'slots': True}, 'bare': False},
            'ts-order': {'shortcut': False, 'given': {'type_safe': True, 'order': True}, 'bare': False},
            'plain': {'shortcut': False, 'given': {}, 'bare': True}}
TV_CLAUSE = 'an instance is obtained iff every field value conforms (else PedanticTypeCheckException)'


def tv_of(a):
    """the TypeVar descriptors an annotation mentions"""
    if a[0] == 'tv':
        return [a[1]]
    if a[0] == 'union':
        return [t for x in a[2] for t in tv_of(x)]
    if a[0] == 'gen':
        return [t for x in a[3] for t in tv_of(x)]
    if a[0] == 'tuplevar':
        return tv_of(a[2])
    return []


def tv_kinds_for(d):
    """classes of values a TypeVar can stand for"""
    if d['constraints']:
        return ['int', 'str']
    if d['bound'] == 'int':
        return ['int', 'bool']
    if d['bound'] is not None:
        return ['u0', 'u01']
    return TV_KINDS


def tv_scalar(rng, kind):
    if kind == 'int': return ['int', rng.choice([0, 1, 2, 7, -3, 40])]
    if kind == 'str': return ['str', rng.choice([[], [97], [111, 110, 101], [98, 99]])]
    if kind == 'float': return ['float', rng.choice([3, 5, -1])]
    if kind == 'bytes': return ['bytes', rng.choice([[], [7], [1, 2]])]
    if kind == 'bool': return ['bool', rng.random() < 0.5]
    if kind == 'none': return ['none']
    if kind == 'u0': return ['inst', [0], rng.randrange(1, 9)]
    if kind == 'u01': return ['inst', [0, 1], rng.randrange(1, 9)]
    if kind == 'u1': return ['inst', [1], rng.randrange(1, 9)]
    raise ValueError(kind)


def tv_gen_ann(rng, tvs):
    """a field annotation: mostly one that mentions a TypeVar of the case"""
    r = rng.random()
    if r < 0.2:
        return rng.choice([['cls', 'str'], ['cls', 'int'], ['gen', 'typing', 'List', [['cls', 'int']]], ['cls', ['user', [0]]]])
    t = ['tv', rng.choice(tvs)]
    sp = rng.choice(['typing', 'builtin'])
    r = rng.random()
    if r < 0.3: return t
    if r < 0.5: return ['gen', sp, 'List', [t]]
    if r < 0.58: return ['gen', 'typing', 'Sequence', [t]]
    if r < 0.66: return ['gen', sp, 'Dict', [['cls', 'str'], t]]
    if r < 0.74: return ['union', 'typing', [t, ['cls', 'NoneType']]]
    if r < 0.82: return ['gen', sp, 'Tuple', [t, t]] if rng.random() < 0.6 else ['gen', sp, 'Tuple', [['cls', 'int'], t]]
    if r < 0.88: return ['tuplevar', sp, t]
    if r < 0.94: return ['gen', sp, rng.choice(['Set', 'FrozenSet']), [t]]
    return ['gen', 'typing', 'List', [['gen', sp, 'List', [t]]]]


def tv_value(rng, a, kinds):
    """a value built to conform to annotation a; kinds: TypeVar id -> the class every value matched against it has"""
    k = a[0]
    n = lambda: rng.choice([0, 1, 2, 2, 3])
    if k == 'tv':
        return tv_scalar(rng, kinds[a[1]['id']])
    if k == 'cls':
        return tv_scalar(rng, rng.choice(['u0', 'u01']) if isinstance(a[1], list) else a[1])
    if k == 'union':
        return ['none'] if rng.random() < 0.35 else tv_value(rng, a[2][0], kinds)
    if k == 'tuplevar':
        return ['tuple', [tv_value(rng, a[2], kinds) for _ in range(n())]]
    o, args = a[2], a[3]
    if o == 'Tuple':
        return ['tuple', [tv_value(rng, x, kinds) for x in args]]
    if o == 'Dict':
        keys = rng.sample([[97], [98], [99, 100], []], rng.choice([0, 1, 2, 3]))
        return ['dict', [[['str', q], tv_value(rng, args[1], kinds)] for q in keys]]
    elems = [tv_value(rng, args[0], kinds) for _ in range(n())]
    if o in ('Set', 'FrozenSet'):
        elems = G.unique([e for e in elems if is_atom(e)])
        if not distinct_keys(elems):
            elems = elems[:1]
        return ['set' if o == 'Set' else 'frozenset', elems]
    if o == 'Sequence' and rng.random() < 0.4:
        return ['tuple', elems]
    return ['list', elems]


def tv_bad_value(rng, a, kinds):
    """a value that does not conform to annotation a whatever the TypeVars stand for (None: every value conforms)"""
    k = a[0]
    if k == 'tv':
        d = a[1]
        if d['constraints']: return rng.choice([['float', 3], ['none'], ['bytes', [1]]])
        if d['bound'] == 'int': return rng.choice([['str', [97]], ['float', 3], ['none']])
        if d['bound'] is not None: return rng.choice([['int', 1], ['inst', [1], 2], ['str', [97]]])
        return None
    if k == 'cls':
        return ['int', 4] if isinstance(a[1], list) else {'str': ['int', 3], 'int': ['str', [51]]}[a[1]]
    if k == 'union':
        return tv_bad_value(rng, a[2][0], kinds)
    good = tv_value(rng, a, kinds)
    if k == 'tuplevar':
        return rng.choice([['list', good[1]], ['int', 1]])
    o, args = a[2], a[3]
    if o == 'Tuple':
        return rng.choice([['tuple', good[1][:1]], ['list', good[1]], ['tuple', good[1] + [['int', 1]]]])
    if o == 'Dict':
        return rng.choice([['dict', [[['int', 1], tv_value(rng, args[1], kinds)]] + good[1]], ['list', []], ['none']])
    if o in ('Set', 'FrozenSet'):
        return rng.choice([['list', good[1]], ['tuple', good[1]], ['frozenset' if o == 'Set' else 'set', good[1]]])
    if o == 'List':
        inner_bad = tv_bad_value(rng, args[0], kinds)
        if inner_bad is not None and rng.random() < 0.5:
            return ['list', good[1] + [inner_bad]]           # wrong at a deeper position
        return rng.choice([['tuple', good[1]], ['none'], ['dict', []]])
    return rng.choice([['int', 1], ['none']])                 # Sequence


def tv_spec(a, v, seen):
    """SPECIFICATION: does value tree v conform to annotation a?  -> True / False; the classes matched against every TypeVar
    are collected in `seen` (id -> list).  Restricted to the shapes tv_gen_ann produces."""
    k = a[0]
    if k == 'cls':
        return G.is_sub(G.cls_of(v), a[1])
    if k == 'tv':
        d, c = a[1], G.cls_of(v)
        if d['bound'] is not None and not G.is_sub(c, d['bound']):
            return False
        if d['constraints'] and c not in d['constraints']:
            return False
        seen.setdefault(d['id'], []).append(c)
        return True
    if k == 'union':
        return True if v[0] == 'none' else tv_spec(a[2][0], v, seen)
    if k == 'tuplevar':
        return v[0] == 'tuple' and all([tv_spec(a[2], x, seen) for x in v[1]])
    o, args = a[2], a[3]
    if o == 'Tuple':
        return v[0] == 'tuple' and len(v[1]) == len(args) and all([tv_spec(x, y, seen) for x, y in zip(args, v[1])])
    if o == 'Dict':
        return v[0] == 'dict' and all([tv_spec(args[0], p, seen) and tv_spec(args[1], q, seen) for p, q in v[1]])
    kinds = {'List': ('list',), 'Sequence': ('list', 'tuple'), 'Set': ('set',), 'FrozenSet': ('frozenset',)}[o]
    return v[0] in kinds and all([tv_spec(args[0], x, seen) for x in v[1]])


def tv_field_verdict(a, v):
    """'must' / 'mustnot' / 'unspec' for ONE field: the TypeVar table is the field's own (the property speaks about a field value
    and its annotation); values of different classes under one TypeVar inside one field are left unspecified here (C07)"""
    seen = {}
    if not tv_spec(a, v, seen):
        return 'mustnot'
    if any(len({json.dumps(c) for c in cs}) > 1 for cs in seen.values()):
        return 'unspec'
    return 'must'


def tv_gen_case(rng, tier):
    tvs = [rng.choice(TV_FREE)]
    if rng.random() < 0.4:
        tvs.append(rng.choice(TV_FREE + TV_SPECIAL))
    case = {'kind': 'tvfields', 'stream': 'typevar-fields', 'scope': 'module', 'ctx': [[n, c, False] for n, c in G.CTX],
            'paths': PATHS, 'selfcopy': SELFCOPY, 'anns': [], 'classes': [], 'names': {}}
    nroot = rng.choice([1, 1, 2])
    next_name = 0
    for cid in range(nroot + rng.choice([0, 0, 1, 1, 2])):
        if cid < nroot:
            base, deco = None, rng.choice(['shortcut', 'shortcut', 'ts', 'ts-slots', 'ts-order'])
        else:
            # a subclass of a type-safe class: type-safe itself, plain @frozen_dataclass (adds fields), or undecorated (adds nothing)
            base, deco = rng.randrange(cid), rng.choice(['shortcut', 'ts', 'plain', 'plain', None, None])
        c = {'id': cid, 'base': base, 'deco': copy.deepcopy(TV_DECOS[deco]) if deco else None, 'fields': [], 'pi': None}
        if deco:
            for _ in range(rng.choice([1, 2, 2, 3]) if base is None else rng.choice([0, 1, 1, 2])):
                c['fields'].append({'name': next_name, 'tok': len(case['anns']), 'default': None, 'init': True, 'compare': True})
                next_name += 1
                case['anns'].append(tv_gen_ann(rng, tvs))
        case['classes'].append(c)
    ann_of = {f['name']: case['anns'][f['tok']] for k in case['classes'] for f in k['fields']}

    def kinds():
        return {d['id']: rng.choice(tv_kinds_for(d)) for d in TV_FREE + TV_SPECIAL}
    ops, made = [], []                                     # made: indices of constructing operations
    n_ops = rng.choice([4, 6, 8, 10] if tier == 'quick' else [6, 10, 14, 18])
    bad_at = rng.randrange(n_ops) if rng.random() < 0.35 else None
    for i in range(n_ops):
        r = rng.random()
        ks = kinds()
        if not made or r < 0.45:
            c = rng.randrange(len(case['classes']))
            names = [f['name'] for f in merged_fields(case, c)]
            op = ['ctor', c, [[n, tv_value(rng, ann_of[n], ks)] for n in names]]
            made.append(i)
        elif r < 0.9:
            src = rng.choice(made)
            c = tv_op_class(ops, src)
            names = [f['name'] for f in merged_fields(case, c)]
            S = [n for n in names if rng.random() < 0.5]
            op = ['copy' if rng.random() < 0.5 else 'deep', src, [[n, tv_value(rng, ann_of[n], ks)] for n in S]]
            made.append(i)
        else:
            op = ['validate', rng.choice(made)]
        if i == bad_at and op[0] != 'validate' and op[2]:
            j = rng.randrange(len(op[2]))
            b = tv_bad_value(rng, ann_of[op[2][j][0]], ks)
            if b is not None:
                op[2][j][1] = b
        ops.append(op)
    case['ops'] = ops
    return case


def tv_op_class(ops, i):
    """the class of the instance operation i produces"""
    while ops[i][0] != 'ctor':
        i = ops[i][1]
    return ops[i][1]


def tv_candidate(ops, i):
    """the field values (name -> tree) of the instance operation i produces / validates"""
    op = ops[i]
    if op[0] == 'ctor':
        return dict((n, v) for n, v in op[2])
    if op[0] == 'validate':
        return tv_candidate(ops, op[1])
    vals = tv_candidate(ops, op[1])
    vals.update(dict((n, v) for n, v in op[2]))
    return vals


def tv_judge(case, w):
    """-> (problems, violations): implementation outcome of every operation against the specification's verdict"""
    if w is None or 'tv' not in w:
        return [{'what': f'implementation worker failed on a typevar-fields case: {json.dumps(w)[:300]}'}], []
    ops, res = case['ops'], w['tv']
    if len(res) != len(ops):
        return [{'what': f'{len(ops)} operations, {len(res)} observations'}], []
    ann_of = {f['name']: case['anns'][f['tok']] for k in case['classes'] for f in k['fields']}
    out = []
    for i, (op, r) in enumerate(zip(ops, res)):
        code = r[0]
        if code == 98:
            continue                                       # no receiver (an earlier operation was refused and reported)
        try:
            cand = tv_candidate(ops, i)
            cls = tv_op_class(ops, i if op[0] != 'validate' else op[1])
            fields = merged_fields(case, cls)
            verd = [tv_field_verdict(ann_of[f['name']], cand[f['name']]) for f in fields]
        except Exception as ex:                            # a judge never raises
            out.append({'where': i, 'op': op, 'clause': f'judge error {type(ex).__name__}', 'outcome': code, 'cls': None, 'verdicts': []})
            continue
        want = 'reject' if 'mustnot' in verd else ('accept' if all(x == 'must' for x in verd) else 'any')
        if (want == 'accept' and code != 0) or (want == 'reject' and code != 1):
            clause = TV_CLAUSE if op[0] != 'validate' else 'validate_types raises iff some field does not conform'
            out.append({'where': i, 'op': op, 'clause': clause, 'outcome': code, 'exception': r[1], 'cls': cls, 'verdicts': verd,
                        'want': want, 'path': op[0],
                        'fields': [[f['name'], case['anns'][f['tok']], cand[f['name']]] for f in fields]})
    return [], out


def tv_cut(case, i):
    """the history up to and including operation i"""
    c = copy.deepcopy(case)
    c['ops'] = c['ops'][:i + 1]
    return c


def tv_without(case, j):
    """the case without operation j (None if a later operation uses its instance)"""
    ops = case['ops']
    if any(op[0] != 'ctor' and op[1] == j for op in ops[j + 1:]):
        return None
    c = copy.deepcopy(case)
    new = []
    for k, op in enumerate(c['ops']):
        if k == j:
            continue
        if op[0] != 'ctor' and op[1] > j:
            op[1] -= 1
        new.append(op)
    c['ops'] = new
    return c


def tv_stream(ck, tier, replay, hist):
    """generate, run, judge, shrink and report the typevar-fields stream (C10 only)"""
    if replay is not None:
        cases = [replay['case']] if replay['case'].get('kind') == 'tvfields' else []
    else:
        cases = [tv_gen_case(ck.rng, tier) for _ in range((150 if tier == 'quick' else 1500) * ck.scale())]
    if not cases:
        return
    impl = ck.run_impl('w_dataclass', cases, timeout=900)
    problems, found = [], []
    cov = {'cases': len(cases), 'operations': 0, 'outcomes': {}, 'verdicts': {}, 'annotations': {}, 'subclass_kinds': {}}

    def bump(d, k):
        d[str(k)] = d.get(str(k), 0) + 1
    for c, w in zip(cases, impl):
        key = hashlib.sha256(json.dumps([c['classes'], c['anns'], c['ops']], sort_keys=True).encode()).hexdigest()
        ck.note_case(key, nontrivial=len(c['ops']) >= 2)
        for a in c['anns']:
            bump(cov['annotations'], a[0] if a[0] != 'gen' else a[2])
        for k in c['classes']:
            if k['base'] is not None:
                bump(cov['subclass_kinds'], 'undecorated' if k['deco'] is None else
                     ('type-safe' if opt_of(k, 'type_safe', False) else 'plain @frozen_dataclass'))
        pr, vs = tv_judge(c, w)
        problems += pr
        if w is not None and 'tv' in w:
            cov['operations'] += len(w['tv'])
            for op, r in zip(c['ops'], w['tv']):
                bump(cov['outcomes'], f'{op[0]}:{r[0]}')
        if not pr and not vs:
            ck.traces_validated += 1
        for v in vs:
            found.append((c, v))
    found.sort(key=lambda cv: (cv[1]['where'], len(cv[0]['anns']), len(cv[0]['classes'])))

    def alone(c, clause):
        """does the last operation of case c still violate the clause when c is run alone in a fresh worker?"""
        r = ck.run_impl('w_dataclass', [c], timeout=300)
        _, vs = tv_judge(c, r[0])
        return next((v for v in vs if v['where'] == len(c['ops']) - 1 and v['clause'] == clause), None)
    reported = []
    tried, done = {}, set()                                # per clause: a few attempts until one occurrence reproduces alone
    for c, v in found:
        payload, vv, ok = c, v, False
        if replay is None and tried.get(v['clause'], 0) < 4 and v['clause'] not in done:
            tried[v['clause']] = tried.get(v['clause'], 0) + 1
            cut = tv_cut(c, v['where'])
            got = alone(cut, v['clause'])
            if got is not None:
                payload, vv, ok = cut, got, True
                done.add(v['clause'])
                j = len(payload['ops']) - 2
                budget = 12
                while j >= 0 and budget > 0:               # greedy: drop earlier operations the failure does not need
                    budget -= 1
                    smaller = tv_without(payload, j)
                    got = alone(smaller, v['clause']) if smaller is not None else None
                    if got is not None:
                        payload, vv = smaller, got
                    j -= 1
        reported.append((payload, vv, ok))
    reported.sort(key=lambda t: (not t[2], len(t[0]['ops'])))
    for payload, v, ok in reported:
        hist_txt = f'after {len(payload["ops"]) - 1} earlier operation(s) on the same classes' if len(payload['ops']) > 1 else 'first operation'
        ck.violation(f'TypeVar in a field annotation: {v["clause"]} [typevar-fields: {v["op"][0]} on class K{v["cls"]}, {hist_txt}: specification {v.get("want")}, '
                     f'outcome {v["outcome"]} ({v.get("exception")})]', payload, stream='typevar-fields',
                     extra={'violation': v, 'reproduces_alone': ok})
    ck.oblige('implementation:typevar-fields', 'correspondence', not problems,
              json.dumps(problems[0])[:600] if problems else f'{len(cases)} histories ran')
    hist['typevar_fields'] = cov



# ------------------------------------------------------------------------------------------ driver
def evaluate(ck, cases):
    impl = ck.run_impl('w_dataclass', cases, timeout=900)
    terms, idx = [], []
    for i, (c, w) in enumerate(zip(cases, impl)):
        if w is not None and 'obs' in w:
            terms.append(coq_case(c, w))
            idx.append(i)
    model = [None] * len(cases)
    if ck.model_ok and terms:
        res = ck.coq_eval(PRE, terms, chunk=60, timeout=1500)
        for i, r in zip(idx, res):
            model[i] = r
    return impl, model


def run(pid, tier, seed, replay=None):
    ck = Check(pid, tier, seed, UNITS, MODEL, f'Props/{pid}.v')
    ck.prepare()
    mine = (lambda v10, v11: v10) if pid == 'C10' else (lambda v10, v11: v11)
    matcher_fn = c10_matcher if pid == 'C10' else c11_matcher

    def still_fails(f):
        c = f['witness']
        impl, model = evaluate(ck, [c])
        dis, v10, v11 = judge(c, impl[0], model[0])
        if f['status'] == 'fixed':
            # a repaired defect has returned when its witness violates the property again with the recorded symptom
            return any(fixed_symptom(f, v) for v in mine(v10, v11))
        return any(matcher_fn(f, {'case': c, 'violation': v}) for v in mine(v10, v11))
    ck.replay_known_findings(still_fails)

    if replay is not None:
        cases = [replay['case']] if replay['case'].get('kind') != 'tvfields' else []
    else:
        n = (500 if tier == "quick" else 4000) * ck.scale()
        cases = []
        for i in range(n):
            r = ck.rng.random()
            stream = 'valid' if r < 0.45 else ('near-miss' if r < 0.9 else 'malformed')
            cases.append(gen_case(ck.rng, tier, stream))
    impl, model = evaluate(ck, cases)
    hist = {'streams': {}, 'fields': {}, 'depth': {}, 'scope': {}, 'ops': {}, 'outcomes': {}, 'options': {}, 'decorated_layers': {},
            'hooks': {}, 'hook_end': {}, 'field_identifiers': {}, 'call_site': {}, 'call_site_outcomes': {}}

    def bump(d, k):
        d[str(k)] = d.get(str(k), 0) + 1
    disagreements, found = [], []
    n_ops = 0
    for c, w, m in zip(cases, impl, model):
        nf = sum(len(k['fields']) for k in c['classes'])
        bump(hist['streams'], c.get('stream')); bump(hist['fields'], nf); bump(hist['depth'], len(c['classes']) - 1)
        bump(hist['scope'], c['scope'])
        bump(hist['decorated_layers'], sum(1 for k in c['classes'] if k['deco'] is not None))
        for k in c['classes']:
            h = pi_norm(k['pi'])
            if h is not None:
                bump(hist['hooks'], 'classes with __post_init__')
                if any(st[0] == 'set' for st in h['body']):
                    bump(hist['hooks'], 'assigns attributes')
                if any(st[0] == 'super' for st in h['body']):
                    bump(hist['hooks'], 'calls super')
                if h['raise'] is not None:
                    bump(hist['hooks'], 'raises')
                if k['deco'] is None:
                    bump(hist['hooks'], 'in an undecorated class')
        hk = spec_hook_run(c, c['target'])
        bump(hist['hook_end'], hk['end'] if not hk['mid'] else 'check-midway')
        for k in c['classes']:
            if k['deco'] is not None:
                for o in OPTS:
                    if opt_of(k, o, o == 'kw_only'):
                        bump(hist['options'], o)
        for _, op in all_ops(c):
            bump(hist['ops'], op[0])
            if op[0] in NESTABLE:
                bump(hist['call_site'], nest_of(op) or 'top level')
        for f in (f for k in c['classes'] for f in k['fields']):
            bump(hist['field_identifiers'], (c.get('names') or {}).get(str(f['name']), 'f<token>'))
        if w is not None and 'obs' in w:
            for (_, op), o in zip(all_ops(c), w['obs']):
                if op[0] in ('ctor', 'copy', 'deep', 'validate'):
                    bump(hist['outcomes'], f'{op[0]}:{o[0]}')
                    if nest_of(op):
                        bump(hist['call_site_outcomes'], f'{nest_of(op)}:{op[0]}:{o[0]}')
            n_ops += len(w['obs'])
        key = hashlib.sha256(json.dumps([c['classes'], c['anns'], c['prefix'], c['branches'], c['heap'], c.get('names') or {}], sort_keys=True).encode()).hexdigest()
        ck.note_case(key, nontrivial=(nf >= 2 or len(c['classes']) >= 2 or c.get('stream') != 'valid'))
        dis, v10, v11 = judge(c, w, m)
        vs = mine(v10, v11)
        if not dis and not vs:
            ck.traces_validated += 1
        for v in vs:
            found.append((c, v))
        if dis and not vs:
            disagreements.append({'case': c, 'first': dis[0], 'n': len(dis)})
    # smallest first; the first few are re-run on a reduced script (prefix + the one branch) to get a short replay
    found.sort(key=lambda cv: (size_of(cv[0]), json.dumps(cv[1]['where'])))
    # Replays: for every kind of violation look (smallest first, a few attempts) for an occurrence that reproduces when the
    # prefix and the one branch it occurred in are run alone in a fresh worker; those come first.  An occurrence that needs the
    # history of the whole run (other branches, earlier cases in the same process) is still reported, with its full case.
    confirmed, attempts, ordered = set(), {}, []
    for c, v in found:
        key = (v.get('clause'), v['op'][0])
        payload_case, prio = c, 1
        if key not in confirmed and attempts.get(key, 0) < 5 and len(attempts) <= 6 and replay is None:
            attempts[key] = attempts.get(key, 0) + 1
            rc = reduce_case(c, v['where'])
            ri, rm = evaluate(ck, [rc])
            _, r10, r11 = judge(rc, ri[0], rm[0])
            if any(x.get('clause') == v.get('clause') for x in mine(r10, r11)):
                payload_case, prio = rc, 0
                confirmed.add(key)
        ordered.append((prio, len(ordered), c, v, payload_case))
    ordered.sort(key=lambda t: (t[0], t[1]))
    for _, _, c, v, payload_case in ordered:
        site = f', made while a __post_init__ is running ({nest_of(v["op"])})' if nest_of(v['op']) else ''
        idents = sorted((payload_case.get('names') or {}).values())
        ck.violation(f'{v.get("clause")} [operation {v["op"][0]} on class K{v.get("cls")}{site}]'
                     + (f' [fields named {", ".join(idents)}]' if idents else ''), payload_case, stream='dataclass',
                     extra={'violation': {k: v[k] for k in v if k != 'model'}, 'model_observation': v.get('model'),
                            'reproduces_alone': payload_case is not c},
                     matcher=lambda f, case, _v=v, _c=payload_case: matcher_fn(f, {'case': _c, 'violation': _v}))
    disagreements.sort(key=lambda d: size_of(d['case']))
    ck.oblige('correspondence:dataclass', 'correspondence', not disagreements,
              json.dumps(disagreements[0])[:1800] if disagreements else f'{ck.traces_validated} cases ({n_ops} operations) agree')
    floor_ok = replay is not None or (len(ck.nontrivial) >= 0.5 * len(cases))
    ck.oblige('generator:non-trivial-share', 'correspondence', floor_ok, f'{len(ck.nontrivial)} of {len(cases)} cases are non-trivial')
    if pid == 'C10':
        tv_stream(ck, tier, replay, hist)
    ck.coverage.update(hist)
    ck.coverage.update({'cases': len(cases), 'operations': n_ops, 'disagreements': len(disagreements),
                        'property_failures_before_known_findings': len(found)})
    ck.samples = [{'case': {k: c[k] for k in ('classes', 'anns', 'prefix', 'scope')}, 'impl_first_ops': (w or {}).get('obs', [])[:2]}
                  for c, w in list(zip(cases, impl))[:2]]
    ck.assumptions = [
        'dataclasses / copy.deepcopy / CPython argument binding are modelled from their documentation (Model/Dataclass.v) and validated by this correspondence only',
        'values: the universe of harness/universe.py without one-shot iterators and dict views (not deep-copyable); set elements immutable',
        'class U5 defines __deepcopy__ returning self: such objects are shared by deep copies by design and excluded from "mutable object" in the specification',
        'identity of immutable values after deepcopy is not specified (compared as equal values)',
        'message texts, addresses and timing are never compared',
        'field identifiers and the call site of an operation (top level / inside a running __post_init__ / second thread) do not exist in the model: '
        'the model is evaluated on the token names and the top-level operation, the implementation on the rendered identifiers and the nested call',
        'the identifier `self` is kept out of the pool (copy_with(self=v) on a field named self: TypeError, reported)',
    ]
    return ck.finish(
        rule='generated class hierarchies (0-6 fields, 0-2 levels of inheritance, decorated/undecorated subclasses, all decorator options, '
             'defaults/default_factory/init=False/compare=False, user __post_init__, module-level or function-local) x operation scripts '
             '(constructor keyword/positional, copy_with and deep_copy_with over replace-subsets, validate_types incl. after mutation, '
             'setattr/delattr of every field and a new name, comparisons, hash); streams valid / near-miss (one corrupted position) / malformed; '
             'implementation-side dimensions: field identifiers from a pool of likely helper-parameter names (deep, cls, kwargs, changes, ...), '
             'operations made while the user __post_init__ of a type-safe dataclass runs (carrier plain / slots / stacked, the case\'s own class, '
             'a second thread) judged as the same operation at top level; '
             'distinct = hash of (classes, annotations, heap, script, identifiers); non-trivial = at least 2 fields or inheritance or not the valid stream',
        checker_cmd=f'make -C coq Props/{pid}.vo && coqc -Q coq PV coq/Props/{pid}.v (Print Assumptions under every theorem)',
        trusted_base=['Coq 8.16.1 kernel (coqc; vm_compute for model evaluation, prog_good and the witnesses)',
                      'translator/t_dataclass.py (Python ast -> Gen/Dataclass.v), translator/t_checker.py (-> Gen/CheckerTables.v)',
                      'Model/Dataclass.v: semantics of the decorator family and the model of dataclasses / copy.deepcopy / frames seen by get_context',
                      'Model/Checker.v (the type checker plugged in for `check`; its correctness is C01/C02)',
                      'harness/w_dataclass.py, harness/dc_common.py, harness/universe.py (correspondence glue, canonical encodings)',
                      'CPython 3.12 dataclasses, copy, typing'])
