"""C05 - see harness/p_common.py (shared engine of C03 / C04 / C05) and coq/Props/C05.v."""
import p_common


def run(tier, seed, replay=None):
    return p_common.run('C05', 'Props/C05.v', tier, seed, replay)
