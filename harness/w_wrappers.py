"""Implementation worker for C18: decorated callable vs its undecorated twin.

Every case is rendered into two tiny modules (same source, one with the `@decorator` lines, one without), compiled
with a linecache entry so that inspect.getsource works.  Bodies journal what they receive (by object identity) and
return / raise scripted objects; stdout and warnings are captured into one ordered event list.
Codes (shared with coq/Model/WrapperEval.v): value [0,n] token n | [1,0] None | [2,n] class n | [4,c] unawaited
coroutine of callee c | [5,0] unawaited coroutine of a wrapper | [8,0] unknown object;
result = value + [0] | [6, class code, instance] | events 1 = one printed line, 2 = DeprecationWarning, 3 = other warning."""
import sys, json, linecache, warnings, inspect, types
import excs

excs._cache[(0, 16)] = Warning
excs._cache[(0, 16, 0)] = DeprecationWarning

NAMES = ['self', 'p0', 'p1', 'p2', 'p3', 'q0', 'q1', 'q2', 'x0', 'x1', 'x2', 'old0', 'old1', 'old2', 'cls',
         'func', 'args', 'kwargs', 'wrapper', 'f', 'result', 'value', 'other', 'k', 'v', 'return_value', 'decorated_func',
         'call', 'original_result', 'other_func', 'start_time', 'async_wrapper', 'param_dict', 'result_kwargs']
FILTERS = ['always', 'default', 'error', 'ignore', 'once', 'module']
_counter = [0]


def enc_exn(path):
    acc = 0
    for x in path:
        acc = acc * 100 + x + 1
    return acc


class Yield:
    """an awaitable that really suspends once"""
    def __await__(self):
        yield


def drive(thunk):
    """what `await thunk()` does in a caller, without an event loop"""
    async def main():
        return await thunk()
    c = main()
    try:
        while True:
            c.send(None)
    except StopIteration as e:
        return e.value


class Out:
    def __init__(self, events):
        self.events = events

    def write(self, text):
        for _ in range(text.count('\n')):
            self.events.append(1)
        return len(text)

    def flush(self):
        pass


class BadRepr(list):
    """a value whose __repr__ (hence str) raises a prepared exception instance"""
    pv_exc = None

    def __repr__(self):
        raise self.pv_exc


class CallObj:
    """a callable object: no __name__, no __qualname__"""
    def __init__(self, fn):
        self.fn = fn

    def __call__(*args, **kwargs):           # no named parameter: the caller may pass any keyword, also `self`
        return args[0].fn(*args[1:], **kwargs)


def underlying(o):
    """the def behind wrappers, partials and callable objects"""
    import functools
    for _ in range(60):
        if isinstance(o, functools.partial):
            o = o.func
        elif isinstance(o, CallObj):
            o = o.fn
        elif hasattr(o, '__wrapped__'):
            o = o.__wrapped__
        else:
            break
    return o


class World:
    """objects of one case"""
    def __init__(self, bad=None):
        self.tok = {}
        self.back = {}
        self.keep = []
        self.bad = {int(k): v for k, v in (bad or {}).items()}     # token -> class path its __repr__ raises

    def T(self, code):
        if code is None:
            return None
        if code not in self.tok:
            if code in self.bad:
                o = BadRepr([code % 10])
                o.pv_exc = excs.cls_of(self.bad[code])('repr of %d' % code)
                self.reg(o.pv_exc, [7, 2000 + code])
            else:
                o = [code % 10]
            self.tok[code] = o
            self.back[id(o)] = code
        return self.tok[code]

    def reg(self, obj, enc):
        self.keep.append(obj)
        self.back[id(obj)] = enc

    def enc(self, o):
        if o is None:
            return [1, 0]
        b = self.back.get(id(o))
        if isinstance(b, int):
            return [0, b]
        if b is not None:
            return list(b)
        return [8, 0]


def params_src(sig, w, dflt_base):
    parts, names = [], []
    for i, (n, d) in enumerate(sig['pos']):
        parts.append(f'{n}=DFLT[{dflt_base + i}]' if d else n)
        names.append(n)
    if sig['varargs']:
        parts.append('*args')
    elif sig['kwonly']:
        parts.append('*')
    for i, (n, d) in enumerate(sig['kwonly']):
        parts.append(f'{n}=DFLT[{dflt_base + 10 + i}]' if d else n)
        names.append(n)
    if sig['varkw']:
        parts.append('**kwargs')
    bound = '{' + ', '.join(f'{n!r}: {n}' for n in names) + '}'
    return ', '.join(parts), bound, ('args' if sig['varargs'] else '()'), ('kwargs' if sig['varkw'] else '{}')


def fn_src(name, sig, is_async, cid, indent='', dflt_base=80):
    p, bound, va, vk = params_src(sig, None, dflt_base)
    head = f'{indent}{"async " if is_async else ""}def {name}({p}):\n'
    body = f'{indent}    "documentation of {name}"\n'
    if is_async:
        body += f'{indent}    await YIELD()\n'
    body += f'{indent}    return RT({cid}, {bound}, {va}, {vk})\n'
    return head + body


def deco_line(l, i):
    d = l['d']
    if d in ('trace', 'timer', 'count_calls', 'deprecated', 'require_kwargs', 'unimplemented'):
        return f'@{d}'
    if d in ('trace_if_returns', 'mock'):
        return f'@{d}(RV[{i}])'
    if d == 'does_same_as_function':
        return '@does_same_as_function(other)'
    if d == 'rename_kwargs':
        return '@rename_kwargs(*RULES[%d])' % i
    if d == 'overrides':
        return f'@overrides(Base{i})'
    raise ValueError(d)


def make_deco(l, i, ns):
    """the decorator object of level i (programmatic application)"""
    d = l['d']
    f = ns[d]
    if d in ('trace_if_returns', 'mock'):
        return f(ns['RV'][i])
    if d == 'does_same_as_function':
        return f(ns['other'])
    if d == 'rename_kwargs':
        return f(*ns['RULES'][i])
    if d == 'overrides':
        return f(ns[f'Base{i}'])
    return f


def render(case, decorated):
    """module source for a stack case"""
    src = ''
    stack = case['stack']
    for i, l in list(enumerate(stack)) + [(100 + i, l) for i, l in enumerate(case.get('redeco', []))]:
        if l['d'] == 'overrides':
            own = '    def f(self):\n        pass\n'
            if l.get('dir', True) == 'inherited':      # the name comes from a grandparent
                src += f'class GrandBase{i}:\n{own}class Base{i}(GrandBase{i}):\n    pass\n'
            else:
                src += f'class Base{i}:\n' + (own if l.get('dir', True) else '    pass\n')
    if any(l['d'] == 'does_same_as_function' for l in stack + case.get('redeco', [])):
        o = case['other']
        src += fn_src('other', o['sig'], o['async'], 1, dflt_base=60)
    ind = ''
    if case.get('method'):
        src += 'class K:\n'
        ind = '    '
        if case.get('recv_badrepr'):          # the receiver's own __repr__ raises (a prepared instance)
            src += '    def __repr__(self):\n        raise RECV_EXC\n'
    if decorated and case.get('apply', '@') == '@':
        for i, l in enumerate(stack):
            src += ind + deco_line(l, i) + '\n'
    src += fn_src('f', case['sig'], case['async'], 0, indent=ind)
    return src


def load(src, ns):
    _counter[0] += 1
    fname = f'/pv-generated/c18_{_counter[0]}.py'
    linecache.cache[fname] = (len(src), None, src.splitlines(True), fname)
    exec(compile(src, fname, 'exec'), ns)
    return fname


def result_of(w, thunk, is_async, codes):
    """run one call; returns the result code"""
    try:
        r = drive(thunk) if is_async else thunk()
    except BaseException as ex:
        b = w.back.get(id(ex))
        return [6, enc_exn(excs.path_of(type(ex))), b[1] if b is not None else 5000]
    if inspect.iscoroutine(r):
        code = r.cr_code
        r.close()
        return [4, codes[code], 0] if code in codes else [5, 0, 0]
    return w.enc(r) + [0]


def path_or_fresh(ex):
    return enc_exn(excs.path_of(type(ex)))


def count_wrappers(top):
    """the count_calls wrapper objects under `top`, outermost first"""
    out, o, seen = [], top, 0
    while o is not None and seen < 50:
        code = getattr(o, '__code__', None)
        if code is not None and code.co_filename.endswith('fn_deco_count_calls.py') and hasattr(o, 'num_calls'):
            out.append(o)
        o = getattr(o, '__wrapped__', None)
        seen += 1
    return out


def run_stack(case):
    import pedantic.decorators as pd
    import functools
    w = World(case.get('badrepr'))
    res = {}
    redeco = case.get('redeco', [])
    nameless = case.get('nameless')
    for decorated in (False, True):
        events, journal = [], []
        holder = {'ccs': []}
        scripts = {0: (case['outs'], case['tail']), 1: (case.get('other', {}).get('outs', []), case.get('other', {}).get('tail', ['ret', None]))}
        counts = {0: 0, 1: 0}

        def RT(cid, bound, va, vk):
            i = counts[cid]
            counts[cid] += 1
            journal.append([cid, len(events), [c.num_calls for c in holder['ccs']],
                            [[NAMES.index(n), w.enc(v)] for n, v in bound.items()], [w.enc(v) for v in va],
                            [[NAMES.index(n) if n in NAMES else 99, w.enc(v)] for n, v in vk.items()]])
            outs, tail = scripts[cid]
            o = outs[i] if i < len(outs) else tail
            key = ('out', cid, i)
            if o[0] == 'ret':
                return w.T(o[1])
            if key not in w.tok:
                ex = excs.cls_of(o[1])('scripted %d' % i)
                w.tok[key] = ex
                w.reg(ex, [7, (1000 if cid else 0) + i])
            raise w.tok[key]

        levels = dict(enumerate(case['stack']))
        levels.update({100 + i: l for i, l in enumerate(redeco)})
        ns = {'__name__': 'pvgen', 'RT': RT, 'YIELD': Yield, 'DFLT': {i: w.T(i) for i in range(60, 100)},
              'RV': {i: w.T(l.get('rv')) for i, l in levels.items()},
              'RULES': {i: [pd.Rename(from_=a, to=b) for a, b in l.get('rules', [])] for i, l in levels.items()}}
        for n in ('trace', 'timer', 'count_calls', 'deprecated', 'require_kwargs', 'unimplemented', 'trace_if_returns', 'mock',
                  'does_same_as_function', 'rename_kwargs', 'overrides'):
            ns[n] = getattr(pd, n)

        # bound: what gets decorated (by call) is the BOUND METHOD K().f - a named callable whose repr shows the receiver;
        # from then on it is handled like a plain callable that already has its receiver
        as_method = bool(case.get('method')) and not case.get('bound')
        if case.get('recv_badrepr'):
            ns['RECV_EXC'] = excs.cls_of(case['recv_badrepr'])('repr of the receiver')
            w.reg(ns['RECV_EXC'], [7, 2999])

        def apply_by_call(lv, base):
            obj = ns['K'].__dict__['f'] if as_method else ns['f']
            for i in reversed(range(len(lv))):
                obj = make_deco(lv[i], base + i, ns)(obj)
            if as_method:
                setattr(ns['K'], 'f', obj)
            else:
                ns['f'] = obj
        inst = None
        try:
            load(render(case, decorated), ns)
            if case.get('bound'):
                inst = ns['K']()
                w.reg(inst, [0, 50])
                ns['f'] = inst.f
            if nameless:                        # what gets decorated is a partial / a callable object, not the def
                ns['f'] = functools.partial(ns['f']) if nameless == 'partial' else CallObj(ns['f'])
            if decorated and case.get('apply', '@') == 'call':      # f = d1(d2(f)), no decorator lines in the source
                apply_by_call(case['stack'], 0)
        except BaseException as ex:
            res['dec' if decorated else 'twin'] = {'deco_error': path_or_fresh(ex), 'deco_error_repr': repr(ex)[:200]}
            continue
        if as_method:
            inst = ns['K']()
            w.reg(inst, [0, 50])

        def current():
            return (getattr(inst, 'f'), ns['K'].__dict__['f']) if as_method else (ns['f'], ns['f'])
        fn, raw = current()
        codes = {underlying(raw).__code__: 0}
        if 'other' in ns:
            codes[underlying(ns['other']).__code__] = 1
        holder['ccs'] = count_wrappers(raw)
        results, cnts = [], []
        out = {}
        old_out = sys.stdout
        with warnings.catch_warnings():
            warnings.simplefilter(case.get('filter', 'default'), DeprecationWarning)

            def show(message, category, filename, lineno, file=None, line=None):
                if category is RuntimeWarning:      # "coroutine ... was never awaited", emitted whenever the collector runs
                    return
                events.append(2 if category is DeprecationWarning else 3)
            warnings.showwarning = show
            sys.stdout = Out(events)
            try:
                for phase, calls in ((1, case['calls']), (2, case.get('calls2', []))):
                    if phase == 2:
                        if not redeco and not calls:
                            break
                        if decorated:
                            if 'twin_fn' in res:
                                out['meta'] = meta_of(raw, res['twin_fn'], nameless)
                            # decoration as an operation inside the history: wrap the used callable again
                            apply_by_call(redeco, 100)
                            fn, raw = current()
                            holder['ccs'] = count_wrappers(raw)
                    for c in calls:
                        a = [w.T(x) for x in c['a']]
                        k = {n: w.T(x) for n, x in c['k']}
                        results.append(result_of(w, (lambda: fn(*a, **k)), case['async'], codes))
                        cnts.append([c2.num_calls for c2 in holder['ccs']])
            except BaseException as ex:      # the second decoration raised
                out['redeco_error'] = repr(ex)[:200]
            finally:
                sys.stdout = old_out
            flt = [f[0] for f in warnings.filters if f[2] is DeprecationWarning and f[1] is None]
            flt_after = FILTERS.index(flt[0]) if flt and flt[0] in FILTERS else -1
        out.update({'results': results, 'counts': cnts, 'journal': journal, 'events': events, 'filter_after': flt_after})
        if decorated:
            t = res.get('twin_fn')
            if t is not None:
                out['meta2'] = meta_of(raw, t, nameless)
                out.setdefault('meta', out['meta2'])
        else:
            res['twin_fn'] = raw
        res['dec' if decorated else 'twin'] = out
    res.pop('twin_fn', None)
    return res


def meta_of(dec, twin, nameless=None):
    if nameless:       # nothing to preserve: the decorated callable has no __name__ / __qualname__ of its own
        return {'name': True, 'qualname': True, 'doc': True, 'module': True, 'wrapped': True, 'same_object': dec is twin,
                'iscoro': bool(inspect.iscoroutinefunction(dec)), 'twin_iscoro': bool(inspect.iscoroutinefunction(twin))}
    m = {a: getattr(dec, '__%s__' % a, '<missing>') == getattr(twin, '__%s__' % a, '<missing2>')
         for a in ('name', 'qualname', 'doc', 'module')}
    m['iscoro'] = bool(inspect.iscoroutinefunction(dec))
    m['twin_iscoro'] = bool(inspect.iscoroutinefunction(twin))
    m['same_object'] = dec is twin
    # __wrapped__ leads to a function with the twin's code
    try:
        m['wrapped'] = inspect.unwrap(dec).__code__.co_code == inspect.unwrap(twin).__code__.co_code
    except Exception:
        m['wrapped'] = False
    return m


# ---- metadata of every decorator of the package -------------------------------------------------------------------
def run_meta(case):
    import pedantic.decorators as pd
    from pedantic.decorators.fn_deco_validate.fn_deco_validate import validate
    from pedantic.decorators.fn_deco_validate.parameters import Parameter
    name, is_async = case['deco'], case['async']
    head = 'async def' if is_async else 'def'
    body = 'pass'
    line = '@' + name
    if name in ('trace_if_returns', 'mock'):
        line += '(42)'
    elif name == 'does_same_as_function':
        line += '(other)'
    elif name == 'rename_kwargs':
        line += "(Rename(from_='old0', to='p0'))"
    elif name == 'overrides':
        line += '(Base)'
    elif name == 'validate':
        line += "(Parameter(name='p0'))"
    elif name == 'retry':
        line += '(attempts=2)'
    elif name in ('safe_contextmanager', 'safe_async_contextmanager'):
        body = 'yield 1'
    src = 'class Base:\n    def f(self):\n        pass\n' + f'{head} other(p0: int) -> int:\n    return p0\n'
    fsrc = f'{head} f(p0: int) -> int:\n    """the documentation of f.\n\n    Args:\n        p0 (int): a number\n\n    Returns:\n        int: a number\n    """\n    {body}\n'
    out = {}
    ns_t = {'__name__': 'pvgen'}
    ns_d = {'__name__': 'pvgen', 'validate': validate, 'Parameter': Parameter, 'Rename': pd.Rename}
    for n in dir(pd):
        if not n.startswith('_'):
            ns_d.setdefault(n, getattr(pd, n))
    load(src + fsrc, ns_t)
    try:
        load(src + line + '\n' + fsrc, ns_d)
    except BaseException as ex:
        return {'deco_error': repr(ex)[:300]}
    dec, twin = ns_d['f'], ns_t['f']
    m = {a: getattr(dec, '__%s__' % a, '<missing>') == getattr(twin, '__%s__' % a, '<missing2>')
         for a in ('name', 'qualname', 'doc', 'module')}
    m['iscoro'] = bool(inspect.iscoroutinefunction(dec))
    m['twin_iscoro'] = bool(inspect.iscoroutinefunction(twin))
    m['same_object'] = dec is ns_d.get('f') and not hasattr(dec, '__wrapped__') and isinstance(dec, types.FunctionType) \
        and dec.__code__.co_filename.startswith('/pv-generated/')
    w = getattr(dec, '__wrapped__', None)
    m['wrapped'] = isinstance(w, types.FunctionType) and w.__code__.co_filename.startswith('/pv-generated/')
    return m


# ---- classes decorated with trace_class / timer_class ---------------------------------------------------------------
def class_src(case, decorated):
    sig, is_async = case['sig'], case['async']
    m = case['member']
    src = ''
    if decorated:
        src += '@' + case['deco'] + '\n'
    src += 'class K:\n'
    first = {'func': 'self', 'static': None, 'classm': 'cls', 'prop': 'self'}[m]
    s2 = dict(sig)
    if first:
        s2['pos'] = [[first, False]] + [p for p in sig['pos']]
    if m == 'prop':
        s2 = {'pos': [['self', False]], 'varargs': False, 'kwonly': [], 'varkw': False}
        is_async = False
    if m == 'static':
        src += '    @staticmethod\n'
    elif m == 'classm':
        src += '    @classmethod\n'
    elif m == 'prop':
        src += '    @property\n'
    src += fn_src('f', s2, is_async, 0, indent='    ')
    if case.get('own_repr') == 'calls_member':      # an (undecorated) __repr__ that uses another method of the class
        src += '    def helper(self):\n        return 1\n    def __repr__(self):\n        return "K(%s)" % self.helper()\n'
    elif case.get('own_repr'):        # the class has its own __repr__ / __str__
        src += f'    def __{case["own_repr"]}__(self):\n        return "an instance"\n'
    src += 'class Sub(K):\n    pass\n'
    return src


def run_class(case):
    import pedantic.decorators as pd
    w = World(case.get('badrepr'))
    res = {}
    for decorated in (False, True):
        events, journal, counts = [], [], {0: 0}

        def RT(cid, bound, va, vk):
            i = counts[cid]
            counts[cid] += 1
            journal.append([cid, 0, 0, [[NAMES.index(n), w.enc(v)] for n, v in bound.items()], [w.enc(v) for v in va],
                            [[NAMES.index(n) if n in NAMES else 99, w.enc(v)] for n, v in vk.items()]])
            o = case['outs'][i] if i < len(case['outs']) else case['tail']
            key = ('out', cid, i)
            if o[0] == 'ret':
                return w.T(o[1])
            if key not in w.tok:
                ex = excs.cls_of(o[1])('scripted %d' % i)
                w.tok[key] = ex
                w.reg(ex, [7, i])
            raise w.tok[key]
        ns = {'__name__': 'pvgen', 'RT': RT, 'YIELD': Yield, 'DFLT': {i: w.T(i) for i in range(60, 100)},
              'trace_class': pd.trace_class, 'timer_class': pd.timer_class}
        try:
            load(class_src(case, decorated), ns)
        except BaseException as ex:
            res['dec' if decorated else 'twin'] = {'deco_error': path_or_fresh(ex), 'deco_error_repr': repr(ex)[:200]}
            continue
        K, Sub = ns['K'], ns['Sub']
        w.reg(K, [2, 0]); w.reg(Sub, [2, 1])
        inst, sinst = K(), Sub()
        w.reg(inst, [0, 50]); w.reg(sinst, [0, 51])
        recv = {'inst': inst, 'class': K, 'subinst': sinst, 'subclass': Sub}[case['access']]
        a = [w.T(x) if not isinstance(x, str) else {'inst': inst, 'subinst': sinst}[x] for x in case['a']]
        k = {n: w.T(x) for n, x in case['k']}
        raw = inspect.unwrap(K.__dict__['f'].__func__ if isinstance(K.__dict__['f'], (staticmethod, classmethod)) else
                             (K.__dict__['f'].fget if isinstance(K.__dict__['f'], property) else K.__dict__['f']))
        codes = {raw.__code__: 0}
        old_out = sys.stdout
        sys.stdout = Out(events)
        try:
            if case['member'] == 'prop':
                def thunk():
                    return recv.f
                r = result_of(w, thunk, False, codes)
                if not journal:
                    r = None        # the access does not reach the function
            else:
                r = result_of(w, (lambda: recv.f(*a, **k)), case['async'], codes)
        finally:
            sys.stdout = old_out
        res['dec' if decorated else 'twin'] = {'result': r, 'journal': journal, 'events': events}
    return res


def main():
    cases = json.load(sys.stdin)
    for c in cases:
        try:
            kind = c.get('kind', 'stack')
            r = run_stack(c) if kind == 'stack' else run_meta(c) if kind == 'meta' else run_class(c)
        except BaseException as ex:   # harness-level failure
            import traceback
            r = {'error': repr(ex), 'tb': traceback.format_exc()[-800:]}
        print(json.dumps(r), flush=True)


if __name__ == '__main__':
    main()
