"""C07 - TypeVar consistency: within one call, per generic instance Cls[X], never across calls /
instances.  Proof: coq/Props/C07.v.  Correspondence + property on the implementation:
streams `typevars` (one generated @pedantic function x several keyword calls) and
`generic-history` (random histories of calls over instances of generated generic / non-generic
@pedantic_class classes, plain classes and plain functions); every step's outcome class is compared
with the model (Model/GenericInstance.v evaluated inside Coq) and judged against Spec/TypeVarSpec.v."""
import copy, json
from lib import *
import universe as U
import gen_checker as G

import os as _os
UNITS = ['CheckerTables'] + (['TypeVarShape'] if _os.path.exists(_os.path.join(ROOT, 'translator', 't_typevar.py')) else [])
MODEL = ['Model/TypeVarEval.vo']
PROPS = 'Props/C07.v' if _os.path.exists(_os.path.join(COQ, 'Props/C07.v')) else None
PRE = ('From Coq Require Import List ZArith.\nFrom PV Require Import Base.Exn Base.Values Base.Ann Model.Checker '
       'Model.GenericInstance Model.TypeVarEval.\nImport ListNotations.')
OUT = {0: 'returned', 1: 'PedanticTypeCheckException', 2: 'PedanticTypeVarMismatchException', 3: 'other PedanticException',
       4: 'non-Pedantic Exception', 5: 'BaseException', 8: 'not run (the enclosing call was rejected before its body)', 9: 'absent'}
VERD = {0: 'Unspec', 1: 'Must', 2: 'MustNot', 9: 'absent'}


# ------------------------------------------------------------------------------------------ Coq terms
def coq_sig(sg):
    return '{| ms_params := [' + '; '.join(U.coq_ann(a) for a in sg['params']) + ']; ms_ret := ' + U.coq_ann(sg['ret']) + ' |}'


def coq_expanded(sg, nva, nkw):
    opt = lambda a: 'None' if a is None else f'(Some {U.coq_ann(a)})'
    return f'(expand_variadic {coq_sig(sg)} {opt(sg.get("varargs"))} {nva}%nat {opt(sg.get("varkw"))} {nkw}%nat)'


def coq_cdef(cd, extra=()):
    ids = '[' + '; '.join('%d%%nat' % t['id'] for t in cd['tparams']) + ']'
    kind = {'plain': 'KPlain', 'pedantic': 'KPedantic', 'gensub': f'(kind_gensub {ids})'}.get(cd['kind']) or f'(KGeneric {ids})'
    init = 'None' if cd['init'] is None else f'(Some {coq_sig(cd["init"])})'
    meths = [coq_sig(m) for m in cd['methods']] + [coq_expanded(cd['methods'][m], a, k) for (m, a, k) in extra]
    return f'{{| cd_kind := {kind}; cd_tparams := {ids}; cd_init := {init}; cd_methods := [' + '; '.join(meths) + '] |}'


def coq_world_steps(r):
    """the world and the history as Coq terms.  A call that collects n positional / k keyword values addresses the
    signature expand_variadic sg va n vk k (Model/GenericInstance.v), appended to the methods / functions"""
    w = r['world']
    cls_of_slot, extra_m, extra_f, steps = {}, {k: [] for k in range(len(w['classes']))}, [], []
    vs = lambda l: '[' + '; '.join(U.coq_val(v) for v in l) + ']'
    for s in r['steps']:
        if s[0] == 'new':
            cls_of_slot.setdefault(s[1], s[2])     # the slot is assigned once in generated histories
            steps.append(f'SNew {s[1]}%nat {s[2]}%nat [' + '; '.join(U.coq_ann(x) for x in s[3]) + f'] {vs(s[4])}')
        elif s[0] == 'call':
            m, ex, kw = s[2], (s[5] if len(s) > 5 else []), (s[6] if len(s) > 6 else [])
            k = cls_of_slot.get(s[1])
            if (ex or kw) and k is not None and k < len(w['classes']) and m < len(w['classes'][k]['methods']):
                key = (m, len(ex), len(kw))
                if key not in extra_m[k]:
                    extra_m[k].append(key)
                m = len(w['classes'][k]['methods']) + extra_m[k].index(key)
            steps.append(f'SCall {s[1]}%nat {m}%nat {vs(s[3] + ex + kw)} {U.coq_val(s[4])}')
        else:
            f, ex, kw = s[1], (s[5] if len(s) > 5 else []), (s[6] if len(s) > 6 else [])
            if (ex or kw) and f < len(w['funs']):
                key = (f, len(ex), len(kw))
                if key not in extra_f:
                    extra_f.append(key)
                f = len(w['funs']) + extra_f.index(key)
            steps.append(f'SFun {f}%nat {vs(s[2] + ex + kw)} {U.coq_val(s[3])}')
    world = ('{| w_classes := [' + '; '.join(coq_cdef(c, extra_m[k]) for k, c in enumerate(w['classes'])) + ']; w_funs := ['
             + '; '.join([coq_sig(f) for f in w['funs']] + [coq_expanded(w['funs'][f], a, k) for (f, a, k) in extra_f]) + '] |}')
    return world, steps


def coq_step(s):
    vs = lambda l: '[' + '; '.join(U.coq_val(v) for v in l) + ']'
    if s[0] == 'new':
        return f'SNew {s[1]}%nat {s[2]}%nat [' + '; '.join(U.coq_ann(x) for x in s[3]) + f'] {vs(s[4])}'
    if s[0] == 'call':
        return f'SCall {s[1]}%nat {s[2]}%nat {vs(s[3])} {U.coq_val(s[4])}'
    return f'SFun {s[1]}%nat {vs(s[2])} {U.coq_val(s[3])}'


def coq_case(c, r):
    world, steps = coq_world_steps(r)
    return f'eval_history {U.coq_ctx(c["ctx"])} ({world}) [' + '; '.join(steps) + ']'


# ------------------------------------------------------------------------------------------ generators
def tvd(i, constraints=(), bound=None, contra=False):
    return {'id': i, 'constraints': list(constraints), 'bound': bound, 'contra': contra}


CLASS_TVS = [tvd(0), tvd(1), tvd(2)]
CLASS_TVS_SPECIAL = [tvd(3, bound='int'), tvd(4, constraints=['int', 'str']), tvd(5, bound=['user', [0]])]
CALL_TVS = [tvd(10), tvd(11), tvd(10), tvd(11), tvd(12, constraints=['int', 'str']), tvd(13, constraints=['str', 'bytes']),
            tvd(14, bound='int'), tvd(15, bound=['user', [0]]), tvd(16, contra=True),
            tvd(17, constraints=[['user', [0]], ['user', [1]]]), tvd(18, bound='object'),
            # the TypeVars typing itself exports (w_typevars.STD_TVS renders these ids as typing.AnyStr / typing.T / typing.KT /
            # typing.T_contra - the objects of the typing module, not look-alikes): AnyStr is the constrained one everybody uses
            tvd(20, constraints=['bytes', 'str']), tvd(20, constraints=['bytes', 'str']), tvd(21), tvd(22), tvd(23, contra=True)]
DFLT = ['dflt']       # an argument of a step: the parameter is left out of the call and takes the default of the signature
BIND_CLS = ['int', 'str', 'bool', 'float', 'bytes', 'NoneType', ['user', [0]], ['user', [0, 1]], ['user', [1]], ['user', [0, 1, 0]],
            'int', 'str', 'list', 'object']


def T(t):
    return ['tv', t]


def gen_pos(rng, tvs, free_d=1):
    """annotation of one position (parameter / result) over the TypeVars tvs"""
    if not tvs:
        return G.gen_ann(rng, rng.choice([0, 0, 1, free_d]))
    r = rng.random()
    t = T(rng.choice(tvs))
    if r < 0.40:
        return t
    if r < 0.75:
        sp = 'builtin' if rng.random() < 0.3 else 'typing'
        shape = rng.choice(['list', 'list', 'set', 'seq', 'dictv', 'dictv', 'dictk', 'tup2', 'tup2', 'tupi', 'tupvar', 'opt', 'opt',
                            'union', 'union', 'listlist', 'dictlist', 'tupS', 'optpipe', 'union3',
                            'optlist', 'optlist', 'uniondict', 'opttup', 'uniontupvar', 'listoptlist'])
        leaf = lambda: ['cls', rng.choice(['int', 'str', 'float', ['user', [0]]])]
        if shape == 'list': return ['gen', sp, 'List', [t]]
        if shape == 'set': return ['gen', sp, rng.choice(['Set', 'FrozenSet']), [t]]
        if shape == 'seq': return ['gen', 'typing', rng.choice(['Sequence', 'Iterable', 'Collection', 'Deque']), [t]]
        if shape == 'dictv': return ['gen', sp, 'Dict', [leaf(), t]]
        if shape == 'dictk': return ['gen', sp, 'Dict', [t, leaf()]]
        if shape == 'tup2': return ['gen', sp, 'Tuple', [t, t]]
        if shape == 'tupi': return ['gen', sp, 'Tuple', [t, leaf()] if rng.random() < 0.5 else [leaf(), t]]
        if shape == 'tupvar': return ['tuplevar', sp, t]
        if shape == 'opt': return ['union', 'typing', [t, ['cls', 'NoneType']]]
        if shape == 'optpipe': return ['union', 'pipe', [t, ['cls', 'NoneType']]]
        if shape == 'union': return ['union', 'typing', [t, leaf()]]
        if shape == 'union3': return ['union', 'typing', [leaf(), t, ['cls', 'NoneType']]]
        # a generic alternative with TypeVars inside Optional / Union (what it binds must stay bound)
        if shape == 'optlist':
            members = [['gen', sp, 'List', [t]], ['cls', 'NoneType']]
            if rng.random() < 0.3: members.reverse()
            return ['union', 'typing', members]
        if shape == 'uniondict': return ['union', 'typing', [['gen', sp, 'Dict', [['cls', 'str'], t]], ['cls', rng.choice(['int', 'float'])]]]
        if shape == 'opttup': return ['union', 'typing', [['gen', sp, 'Tuple', [t, t]], ['cls', 'NoneType']]]
        if shape == 'uniontupvar': return ['union', 'typing', [['cls', 'str'], ['tuplevar', sp, t], ['cls', 'NoneType']]]
        if shape == 'listoptlist': return ['gen', 'typing', 'List', [['union', 'typing', [['gen', 'typing', 'List', [t]], ['cls', 'NoneType']]]]]
        if shape == 'listlist': return ['gen', 'typing', 'List', [['gen', sp, 'List', [t]]]]
        if shape == 'dictlist': return ['gen', 'typing', 'Dict', [['cls', 'str'], ['gen', 'typing', 'List', [t]]]]
        if shape == 'tupS': return ['gen', 'typing', 'Tuple', [t, T(rng.choice(tvs))]]
    if r < 0.93:
        return G.gen_ann(rng, rng.choice([0, 0, 1, free_d]))
    # outside the vocabulary of the specification (observed, compared with the model only)
    odd = rng.choice(['union2tv', 'type', 'callable', 'unionlist', 'bare'])
    t2 = T(rng.choice(tvs))
    if odd == 'union2tv': return ['union', 'typing', [t, T(tvd(19))]] if t2 == t else ['union', 'typing', [t, t2]]
    if odd == 'type': return ['gen', 'typing', 'Type', [t]]
    if odd == 'callable': return ['callable', [t], t]
    if odd == 'unionlist': return ['union', 'typing', [['gen', 'typing', 'List', [t]], ['cls', 'int']]]
    return ['bare', 'List']


def subst(a, env):
    k = a[0]
    if k == 'tv':
        return env(a[1])
    if k == 'union':
        return ['union', a[1], [subst(x, env) for x in a[2]]]
    if k == 'gen':
        args = [subst(x, env) for x in a[3]]
        if a[2] == 'Type':
            args = [x if x[0] in ('cls', 'any') else ['any'] for x in args]
        return ['gen', a[1], a[2], args]
    if k == 'tuplevar':
        return ['tuplevar', a[1], subst(a[2], env)]
    if k == 'callable':
        return ['callable', None if a[1] is None else [['any'] for _ in a[1]], ['any']]
    return a


def pick_cls(rng, t):
    if t['constraints'] and rng.random() < 0.85:
        return rng.choice(t['constraints'])
    if t['bound'] is not None and rng.random() < 0.85:
        b = t['bound']
        subs = [c for c in BIND_CLS if G.is_sub(c, b)]
        return rng.choice(subs or [b])
    return rng.choice(BIND_CLS)


def gen_args(rng, positions, xenv, mode, pre=None):
    """one value per position.  xenv: TypeVar id -> annotation X (class-level TypeVars of a generic instance);
    pre: TypeVar id -> class already decided (the classes the defaults of the signature were generated for)"""
    chosen = dict(pre or {})

    def env_same(t):
        if t['id'] in xenv:
            return xenv[t['id']]
        if t['id'] not in chosen:
            chosen[t['id']] = ['cls', pick_cls(rng, t)]
        return chosen[t['id']]

    def env_mixed(t):
        if t['id'] in xenv:
            x = xenv[t['id']]
            r = rng.random()
            if r < 0.6:
                return x
            # a "sibling" of X: same runtime class, other content (Cls[List[int]]: ['x'] next to [1])
            if r < 0.85 and x[0] == 'gen' and x[2] in ('List', 'Set', 'FrozenSet', 'Dict', 'Tuple', 'Sequence', 'Iterable'):
                leaf = rng.choice([['cls', 'str'], ['cls', 'bytes'], ['cls', ['user', [2]]], ['cls', 'float']])
                return ['gen', x[1], x[2], [leaf for _ in x[3]]]
            if r < 0.85 and x[0] == 'tuplevar':
                return ['tuplevar', x[1], rng.choice([['cls', 'str'], ['cls', 'bytes'], ['cls', 'float']])]
        return ['cls', pick_cls(rng, t)]
    vals = []
    wrong = rng.randrange(len(positions)) if mode == 'near' else -1
    for j, a in enumerate(positions):
        if mode == 'random' and rng.random() < 0.6:
            vals.append(deiter(rng.choice(G.SCALARS + G.CONTAINERS)))
            continue
        if mode == 'mixed':
            chosen.clear()
        conc = subst(a, env_mixed if mode == 'mixed' else env_same)
        v = G.gen_conf(rng, conc, size=2)
        if v is not None and j == wrong:
            w = G.corrupt(rng, conc, v)
            v = w if w is not None else v
        if v is None or (v[0] == 'iter') or not renderable(v):
            v = rng.choice(G.SCALARS)
        vals.append(deiter(v))
    return vals


def deiter(v):
    """one-shot iterators are consumed by the first traversal (K1 is C04's matter): use lists here"""
    k = v[0]
    if k == 'iter':
        return ['list', [deiter(x) for x in v[1]]]
    if k in ('list', 'tuple', 'set', 'frozenset', 'deque', 'keys', 'values'):
        return [k, [deiter(x) for x in v[1]]]
    if k in ('dict', 'defaultdict', 'ordereddict', 'items'):
        return [k, [[deiter(a), deiter(b)] for a, b in v[1]]]
    return v


def renderable(v):
    """set elements and dict keys must be hashable (a TypeVar under Set[...] may have been replaced by List[...])"""
    k = v[0]
    if k in ('set', 'frozenset', 'keys'):
        return all(G.is_hashable(x) and renderable(x) for x in v[1])
    if k in ('list', 'tuple', 'deque', 'values', 'iter'):
        return all(renderable(x) for x in v[1])
    if k in ('dict', 'defaultdict', 'ordereddict', 'items'):
        return all(G.is_hashable(a) and renderable(a) and renderable(b) for a, b in v[1])
    return True


def gen_defaults(rng, sg):
    """DEFAULT values for a suffix of the parameters, generated from the annotations for one choice of classes (sg['dcls']); a
    call leaves such a parameter out (argument DFLT) and Python binds the default - one object for all calls -, which takes
    part in the call like any other value: it is matched against the TypeVars of its annotation"""
    n = len(sg['params'])
    first = rng.randrange(n)
    chosen = {}

    def env(t):
        if t['id'] not in chosen:
            chosen[t['id']] = ['cls', pick_cls(rng, t)]
        return chosen[t['id']]
    dl = [None] * n
    for j in range(first, n):
        v = G.gen_conf(rng, subst(sg['params'][j], env), size=2)
        if v is None or v[0] == 'iter' or not renderable(v):
            return
        dl[j] = deiter(v)
    sg['defaults'], sg['dcls'] = dl, {str(k): v for k, v in chosen.items()}


def gen_sig(rng, tvs, nmax=3, ret_none=0.4, variadic=False, defaults=False):
    n = rng.choice([1, 2, 2, 3][:nmax + 1])
    params = [gen_pos(rng, tvs) for _ in range(n)]
    ret = ['none'] if rng.random() < ret_none else gen_pos(rng, tvs)
    sg = {'params': params, 'ret': ret}
    if defaults and tvs and rng.random() < 0.3:
        if rng.random() < 0.6:
            # the shape the dimension is about: a T-annotated parameter with a default next to another occurrence of T
            t = T(rng.choice(tvs))
            sg['params'][-1] = t
            if rng.random() < 0.6 or n == 1:
                sg['ret'] = t
            elif not any(has_tv(a) for a in sg['params'][:-1]):
                sg['params'][0] = gen_pos(rng, [t[1]]) if rng.random() < 0.4 else t
        gen_defaults(rng, sg)
        return sg
    if variadic and rng.random() < 0.22:
        # *args: T / **kwargs: T (sometimes List[T] or a TypeVar-free annotation), possibly as the only parameters
        def va():
            r = rng.random()
            if tvs and r < 0.6: return T(rng.choice(tvs))
            if tvs and r < 0.8: return ['gen', 'typing', 'List', [T(rng.choice(tvs))]]
            return ['cls', rng.choice(['int', 'str', ['user', [0]]])]
        kind = rng.choice(['args', 'args', 'kwargs', 'both'])
        if kind in ('args', 'both'): sg['varargs'] = va()
        if kind in ('kwargs', 'both'): sg['varkw'] = va()
        if rng.random() < 0.3:
            sg['params'] = params[:rng.choice([0, 1])]
    return sg


def positions_of(sg):
    """every annotation of the signature (variadic ones once), the result last"""
    return sg['params'] + [sg[k] for k in ('varargs', 'varkw') if sg.get(k) is not None] + [sg['ret']]


def gen_call_v(rng, sg, xenv):
    """-> step tail [args, ret, extra positional values, surplus keyword values]"""
    nva = rng.choice([0, 1, 2, 2, 3]) if sg.get('varargs') is not None else 0
    nkw = rng.choice([0, 1, 1, 2]) if sg.get('varkw') is not None else 0
    pos = sg['params'] + [sg.get('varargs')] * nva + [sg.get('varkw')] * nkw + [sg['ret']]
    pre = None
    if sg.get('defaults') and rng.random() < 0.5:
        pre = {int(k): v for k, v in sg['dcls'].items()}      # the classes the defaults belong to: a call they are consistent with
    vals = gen_args(rng, pos, xenv, rng.choice(MODES), pre)
    n = len(sg['params'])
    args = vals[:n]
    for j, d in enumerate(sg.get('defaults') or []):
        if d is not None and rng.random() < 0.6:
            args[j] = DFLT
    return args, vals[-1], vals[n:n + nva], vals[n + nva:n + nva + nkw]


MODES = ['same', 'same', 'same', 'mixed', 'mixed', 'near', 'random']


def gen_call(rng, sg, xenv):
    vals = gen_args(rng, sg['params'] + [sg['ret']], xenv, rng.choice(MODES))
    return vals[:-1], vals[-1]


def gen_x(rng):
    r = rng.random()
    if r < 0.55:
        return ['cls', rng.choice(G.LEAF_CLS)]
    if r < 0.63:
        return ['any']
    while True:
        a = G.gen_ann(rng, rng.choice([1, 1, 2]))
        if a[0] not in ('none', 'str'):
            return a


def gen_typevars_case(rng):
    """stream `typevars`: one plain function (or a method of an undecorated class), a few calls"""
    tvs = rng.sample(CALL_TVS, rng.choice([1, 1, 2]))
    tvs = list({t['id']: t for t in tvs}.values())
    sg = gen_sig(rng, tvs, variadic=True, defaults=True)
    if rng.random() < 0.8 and sg['params'] and not sg.get('defaults') and not any(has_tv(a) for a in positions_of(sg)):
        sg['params'][0] = T(tvs[0])
    as_method = rng.random() < 0.25
    world = {'classes': [{'kind': 'plain', 'tparams': [], 'init': None, 'methods': [sg]}] if as_method else [],
             'funs': [] if as_method else [sg]}
    steps = [['new', 0, 0, [], []]] if as_method else []
    for _ in range(rng.choice([2, 3, 4])):
        args, ret, ex, kw = gen_call_v(rng, sg, {})
        steps.append(['call', 0, 0, args, ret, ex, kw] if as_method else ['fun', 0, args, ret, [], ex, kw])
    return {'stream': 'typevars', 'ctx': G.CTX, 'world': world, 'steps': steps}


def gen_reentrancy_case(rng):
    """stream `reentrancy`: a plain @pedantic function whose body calls the same decorated function again (depth 1-2,
    usually with values of other classes) before it returns; every call is judged on its own"""
    tvs = list({t['id']: t for t in rng.sample(CALL_TVS, rng.choice([1, 1, 2]))}.values())
    sg = gen_sig(rng, tvs, ret_none=0.15)
    if not any(has_tv(a) for a in sg['params']):
        sg['params'][0] = T(tvs[0])
    if rng.random() < 0.6:
        sg['ret'] = T(tvs[0])

    def node(depth):
        args, ret = gen_call(rng, sg, {})
        nested = [node(depth - 1) for _ in range(rng.choice([1, 1, 2]))] if depth > 0 else []
        return [args, ret, nested]
    # the outer call is mostly consistent: it is the one a leaking binding would spoil
    vals = gen_args(rng, positions_of(sg), {}, rng.choice(['same', 'same', 'same', 'mixed', 'near']))
    top = [vals[:-1], vals[-1], [node(rng.choice([0, 0, 1])) for _ in range(rng.choice([1, 1, 2]))]]
    return {'stream': 'reentrancy', 'ctx': G.CTX, 'world': {'classes': [], 'funs': [sg]}, 'steps': [['fun', 0] + top]}


def has_tv(a):
    k = a[0]
    if k == 'tv': return True
    if k == 'union': return any(has_tv(x) for x in a[2])
    if k == 'gen': return any(has_tv(x) for x in a[3])
    if k == 'tuplevar': return has_tv(a[2])
    if k == 'callable': return any(has_tv(x) for x in (a[1] or [])) or has_tv(a[2])
    return False


def tvs_of(a, acc):
    k = a[0]
    if k == 'tv': acc.setdefault(a[1]['id'], a[1])
    elif k == 'union': [tvs_of(x, acc) for x in a[2]]
    elif k == 'gen': [tvs_of(x, acc) for x in a[3]]
    elif k == 'tuplevar': tvs_of(a[2], acc)
    elif k == 'callable':
        [tvs_of(x, acc) for x in (a[1] or [])]
        tvs_of(a[2], acc)
    return acc


def sig_tvs(sg):
    acc = {}
    for a in positions_of(sg):
        tvs_of(a, acc)
    return acc


def gen_history_case(rng, max_steps):
    call_tvs = list({t['id']: t for t in rng.sample(CALL_TVS, 2)}.values())
    classes = []
    for _ in range(rng.choice([1, 1, 2])):
        n = rng.choice([1, 1, 2, 3])
        tps = rng.sample(CLASS_TVS, n)
        if rng.random() < 0.2:
            tps[0] = rng.choice(CLASS_TVS_SPECIAL)
        methods = []
        for _m in range(rng.choice([2, 3, 4])):
            r = rng.random()
            pool = tps if r < 0.55 else (tps + call_tvs if r < 0.8 else call_tvs)
            methods.append(gen_sig(rng, pool, variadic=True, defaults=True))
        init = None
        if rng.random() < 0.5:
            init = gen_sig(rng, rng.choice([tps, tps + call_tvs, []]), nmax=2, ret_none=1.0)
            init['ret'] = ['none']
            init['params'] = [strip_fwd(a) for a in init['params']]
        classes.append({'kind': 'gensub' if (init is None and rng.random() < 0.2) else 'generic', 'tparams': tps, 'init': init, 'methods': methods})
    if rng.random() < 0.55:
        classes.append({'kind': 'pedantic', 'tparams': [], 'init': None,
                        'methods': [gen_sig(rng, call_tvs, variadic=True, defaults=True) for _ in range(rng.choice([1, 2]))]})
    if rng.random() < 0.4:
        classes.append({'kind': 'plain', 'tparams': [], 'init': None,
                        'methods': [gen_sig(rng, call_tvs, variadic=True) for _ in range(rng.choice([1, 2]))]})
    funs = [gen_sig(rng, call_tvs, variadic=True, defaults=True) for _ in range(rng.choice([0, 1, 1, 2]))]
    world = {'classes': classes, 'funs': funs}
    steps, insts = [], {}      # slot -> (class index, xenv)

    def new(k):
        cd = classes[k]
        slot = len(insts)
        xs = [gen_x(rng) for _ in cd['tparams']] if cd['kind'] in ('generic', 'gensub') else []
        if cd['kind'] in ('generic', 'gensub') and cd['tparams'][0]['contra']:
            xs = [['cls', rng.choice(G.LEAF_CLS)] for _ in xs]
        args = []
        if cd['init'] is not None:
            # during __init__ the class's type variables are not bound to X yet
            args, _ = gen_call(rng, cd['init'], {})
        insts[slot] = (k, {t['id']: x for t, x in zip(cd['tparams'], xs)})
        steps.append(['new', slot, k, xs, args])
    gen_idx = [k for k, c in enumerate(classes) if c['kind'] in ('generic', 'gensub')]
    for _ in range(rng.choice([1, 2, 2, 3])):
        new(rng.choice(gen_idx))
    for k, c in enumerate(classes):
        if c['kind'] not in ('generic', 'gensub'):
            new(k)
    n = rng.choice([max_steps // 2, max_steps, max_steps])
    while len(steps) < max(4, n):
        r = rng.random()
        if r < 0.04 and len(insts) < 6:
            new(rng.choice(gen_idx))
        elif r < 0.16 and funs:
            f = rng.randrange(len(funs))
            args, ret, ex, kw = gen_call_v(rng, funs[f], {})
            steps.append(['fun', f, args, ret, [], ex, kw])
        else:
            slot = rng.choice(list(insts))
            k, xenv = insts[slot]
            if not classes[k]['methods']:
                continue
            m = rng.randrange(len(classes[k]['methods']))
            args, ret, ex, kw = gen_call_v(rng, classes[k]['methods'][m], xenv)
            steps.append(['call', slot, m, args, ret, ex, kw])
    return {'stream': 'generic-history', 'ctx': G.CTX, 'world': world, 'steps': steps}


def strip_fwd(a):
    """__init__ is called from typing.py: forward references cannot be resolved there"""
    k = a[0]
    if k == 'fwd': return ['cls', 'int']
    if k == 'union': return ['union', a[1], [strip_fwd(x) for x in a[2]]]
    if k == 'gen': return ['gen', a[1], a[2], [strip_fwd(x) for x in a[3]]]
    if k == 'tuplevar': return ['tuplevar', a[1], strip_fwd(a[2])]
    if k == 'newtype': return ['newtype', strip_fwd(a[1])]
    if k == 'callable': return ['callable', None if a[1] is None else [strip_fwd(x) for x in a[1]], strip_fwd(a[2])]
    return a


# ------------------------------------------------------------------------------------------ evaluation
def evaluate(ck, cases):
    """-> list of (impl result | None, [[M, S, mm] per step] | None)"""
    impl = ck.run_impl('w_typevars', cases, timeout=1500)
    ok = [k for k, r in enumerate(impl) if r is not None and 'error' not in r]
    terms = [coq_case(cases[k], impl[k]) for k in ok]
    model = ck.coq_eval(PRE, terms, chunk=max(8, min(60, len(terms) // (2 * NPROC) + 1))) if ck.model_ok else [None] * len(terms)
    res = [(r, None) for r in impl]
    for k, m in zip(ok, model):
        if m is not None and len(m) == 3 * len(impl[k]['steps']):
            res[k] = (impl[k], [m[3 * i:3 * i + 3] for i in range(len(impl[k]['steps']))])
    return res


def judge_step(I, M, S, mm):
    """the property on the implementation, for one step"""
    if I in (8, 9) or M == 9:
        return None        # the addressed instance does not exist on one side: a correspondence matter
    if S == 1 and I != 0:
        return f'a call whose values are consistent (and conform) was rejected with {OUT.get(I, I)}'
    if S == 2 and I == 0:
        return 'a call that must be rejected was accepted'
    if S == 2 and I not in (1, 2, 3):
        return f'a call that must be rejected left with {OUT.get(I, I)}'
    if mm and I in (1, 3):
        return f'values of unrelated classes matched against one TypeVar were rejected with {OUT.get(I, I)}, not PedanticTypeVarMismatchException'
    return None


def dflt_note(steps):
    """the part of a history the reified steps do not show: which parameters were left out (their default took part)"""
    out = []
    for i, s in enumerate(steps):
        args = s[2] if s[0] == 'fun' else s[3] if s[0] == 'call' else []
        left = [f'p{j}' for j, a in enumerate(args) if a == DFLT]
        if left:
            out.append(f'step {i}: {", ".join(left)}')
    return (' [parameters left out of the call, bound to their DEFAULT (shown in the reified step): ' + '; '.join(out) + ']') if out else ''


def step_slot(s):
    return s[1] if s[0] in ('new', 'call') else None


def shrink_candidates(c, k):
    """smaller histories ending in step k of case c (original, un-reified syntax)"""
    s = c['steps'][k]
    if s[0] == 'fun' or s[0] == 'new':
        return [[s]]
    slot = s[1]
    news = [x for x in c['steps'][:k] if x[0] == 'new' and x[1] == slot][-1:]
    earlier = [x for x in c['steps'][:k] if x[0] == 'call' and x[1] == slot]
    cands = [news + [s]]
    for e in earlier[-14:]:
        cands.append(news + [e, s])
    cands.append(news + earlier + [s])
    return cands


def describe(c, r, k):
    """facts about step k of a (reified) case that the matchers of the known findings look at"""
    s = r['steps'][k]
    w = r['world']
    info = {'step_kind': s[0], 'class_kind': None, 'shared_tv_positions': False, 'method_level_tv_seen_before': False}
    if s[0] == 'fun':
        sg = w['funs'][s[1]]
    else:
        news = [x for x in r['steps'][:k + 1] if x[0] == 'new' and x[1] == s[1]]
        if not news:
            return info
        cd = w['classes'][news[-1][2]]
        info['class_kind'] = 'generic' if cd['kind'] == 'gensub' else cd['kind']
        info['generic_by_inheritance'] = cd['kind'] == 'gensub'
        sg = cd['init'] if s[0] == 'new' else cd['methods'][s[2]]
        if sg is None:
            return info
        class_level = {t['id'] for t in cd['tparams']}
        mine = set(sig_tvs(sg)) - class_level
        for e in r['steps'][:k]:
            if e[0] in ('call', 'new') and e[1] == s[1]:
                esg = cd['init'] if e[0] == 'new' else cd['methods'][e[2]]
                if esg is not None and mine & set(sig_tvs(esg)):
                    info['method_level_tv_seen_before'] = True
        info['method_level_tvs'] = sorted(mine)
        # a type parameter whose X is not a plain class and that occurs NESTED (not as a whole position) in this signature
        xs = news[-1][3]
        non_class = {t['id'] for t, x in zip(cd['tparams'], xs) if x[0] != 'cls'}
        info['nested_class_tv_with_annotation_x'] = s[0] == 'call' and any(
            a[0] != 'tv' and (set(tvs_of(a, {})) & non_class) for a in positions_of(sg))
    # a variadic parameter stands for any number of positions
    per_pos = [set(tvs_of(a, {})) for a in positions_of(sg) + [sg[k] for k in ('varargs', 'varkw') if sg.get(k) is not None]]
    info['shared_tv_positions'] = any(per_pos[i] & per_pos[j] for i in range(len(per_pos)) for j in range(i + 1, len(per_pos)))
    return info


def matcher(f, case):
    m = f['matcher']['id']
    d = case.get('facts') or {}
    if not case.get('impl_agrees_with_model'):
        return False          # every known finding is reproduced by the model; anything else is new
    if m == 'non_generic_pedantic_class_typevar_across_positions':
        return d.get('step_kind') == 'call' and d.get('class_kind') == 'pedantic' and d.get('shared_tv_positions') \
            and case.get('impl_out') == 0 and case.get('spec') == 'MustNot'
    if m == 'generic_instance_nested_class_typevar_degrades_to_runtime_class':
        return d.get('step_kind') == 'call' and d.get('class_kind') == 'generic' and d.get('nested_class_tv_with_annotation_x') \
            and case.get('impl_out') == 0 and case.get('spec') == 'MustNot'
    if m == 'generic_instance_method_level_typevar_bound_earlier':
        return d.get('step_kind') == 'call' and d.get('class_kind') == 'generic' and d.get('method_level_tv_seen_before') \
            and case.get('impl_out') in (1, 2) and case.get('spec') == 'Must'
    return False


def run(tier, seed, replay=None):
    ck = Check('C07', tier, seed, UNITS, MODEL, PROPS)
    ck.prepare()

    def last_step_fails(case):
        (r, m), = evaluate(ck, [case])
        if r is None or m is None:
            raise RuntimeError('witness could not be evaluated: ' + json.dumps(r)[:300])
        I, (M, S, mm) = r['out'][-1], m[-1]
        return judge_step(I, M, S, mm) is not None
    ck.replay_known_findings(lambda f: last_step_fails(f['witness']))

    if replay is not None:
        cases = [replay['case']]
    else:
        n_tv = (800 if tier == 'quick' else 7000) * ck.scale()
        n_h = (230 if tier == 'quick' else 700) * ck.scale()
        max_steps = 40 if tier == 'quick' else 400
        cases = [gen_typevars_case(ck.rng) for _ in range(n_tv)]
        cases += [gen_reentrancy_case(ck.rng) for _ in range((300 if tier == 'quick' else 3000) * ck.scale())]
        for i in range(n_h):
            cases.append(gen_history_case(ck.rng, max_steps if i % 3 == 0 else max(12, max_steps // (2 if i % 3 == 1 else 4))))
    results = evaluate(ck, cases)
    hist = {'stream': {}, 'step_kind': {}, 'class_kind': {}, 'impl_outcome': {}, 'spec_verdict': {}, 'history_length': {},
            'mismatch_demanded': 0, 'x_kind': {}}
    bump = lambda name, key: hist[name].__setitem__(key, hist[name].get(key, 0) + 1)
    disagreements, pending, lost = [], [], 0
    res_of = {}
    for c, (r, m) in zip(cases, results):
        if r is None or m is None or 'error' in (r or {}):
            lost += 1
            if r is not None and 'error' in r and 'outside the universe' not in r['error'] and 'unhashable type' not in r['error']:
                disagreements.append({'what': 'worker error', 'impl': r, 'case': c})
            continue
        bump('stream', c['stream'])
        hist['steps_leaving_out_a_defaulted_parameter'] = hist.get('steps_leaving_out_a_defaulted_parameter', 0) + sum(
            1 for s in c['steps'] if DFLT in (s[2] if s[0] == 'fun' else s[3] if s[0] == 'call' else []))
        hist['cases_with_a_typevar_exported_by_typing'] = hist.get('cases_with_a_typevar_exported_by_typing', 0) + bool(
            any(20 <= i <= 23 for sg in r['world']['funs'] + [m for cd in r['world']['classes'] for m in cd['methods']] for i in sig_tvs(sg)))
        bump('history_length', str(10 * (len(r['steps']) // 10)) + '+')
        seen_slots = {}
        res_of[id(c)] = (r, m)
        for k, s in enumerate(r['steps']):
            I, (M, S, mm) = r['out'][k], m[k]
            if I == 8:
                bump('impl_outcome', 'not run'); continue
            facts = describe(c, r, k)
            bump('step_kind', s[0]); bump('class_kind', str(facts['class_kind'])); bump('impl_outcome', OUT.get(I, str(I)))
            bump('spec_verdict', VERD.get(S, str(S)))
            hist['mismatch_demanded'] += mm
            hist['steps_collecting_variadic_values'] = hist.get('steps_collecting_variadic_values', 0) + bool(len(s) > 5 and (s[5] or (len(s) > 6 and s[6])))
            hist['steps_on_classes_generic_by_inheritance'] = hist.get('steps_on_classes_generic_by_inheritance', 0) + bool(facts.get('generic_by_inheritance'))
            if s[0] == 'new':
                for x in s[3]:
                    bump('x_kind', x[0])
            slot = step_slot(s)
            earlier_on_slot = seen_slots.get(slot, 0)
            if slot is not None:
                seen_slots[slot] = earlier_on_slot + 1
            nontrivial = S in (1, 2) and (facts['shared_tv_positions'] or (facts['class_kind'] == 'generic' and earlier_on_slot >= 2)
                                          or (c['stream'] == 'reentrancy' and k == len(r['steps']) - 1))
            ck.note_case(json.dumps([r['world'], r['steps'][:k + 1]]) if nontrivial else str(ck.evaluations), nontrivial=nontrivial)
            what = judge_step(I, M, S, mm)
            if I == M and not what:
                ck.traces_validated += 1
            if what:
                pending.append((c, k, what, I, M, S, mm))
            elif I != M:
                disagreements.append({'stream': c['stream'], 'step': k, 'reified_step': s, 'impl': OUT.get(I, I), 'exc': r['exc'][k],
                                      'model': OUT.get(M, M), 'world': r['world'], 'prefix': r['steps'][:k]})
    # shrink: re-run smaller histories that end in the failing step; report the smallest that still fails
    seen_kinds, todo = {}, []
    # re-entrancy cases are reported as they are (one enclosing call): smallest first, the enclosing call preferred
    for p in sorted([q for q in pending if q[0]['stream'] == 'reentrancy'], key=lambda q: (len(json.dumps(q[0]['steps'])), -q[1]))[:6]:
        c, k, what, I, M, S, mm = p
        r, m = res_of[id(c)]
        case = dict(c, reified={'world': r['world'], 'steps': r['steps']}, facts=describe(c, r, k), impl_out=I,
                    impl_agrees_with_model=(I == M), spec=VERD.get(S, S))
        ck.violation(what + (' (the enclosing call; its body re-entered the same function)' if k == len(r['steps']) - 1 else ' (a re-entrant call)'),
                     case, stream='reentrancy', matcher=matcher,
                     extra={'impl': {'out': OUT.get(I, I), 'exc': r['exc'][k], 'all_outcomes': [OUT.get(x, x) for x in r['out']]},
                            'model_out': OUT.get(M, M), 'spec': VERD.get(S, S), 'failing_step': k,
                            'note': 'reified steps are listed innermost call first, the enclosing call last'})
    pending = [q for q in pending if q[0]['stream'] != 'reentrancy']
    pending.sort(key=lambda p: (p[1], len(json.dumps(p[0]['steps'][p[1]]))))
    for p in pending:
        c, k, what, I, M, S, mm = p
        key = (what[:40], c['steps'][k][0], I == M)
        seen_kinds[key] = seen_kinds.get(key, 0) + 1
        if seen_kinds[key] <= 6:
            todo.append(p)
    hist['property_failures_before_shrinking'] = len(pending)
    cand_cases, owner = [], []
    for pi, (c, k, what, I, M, S, mm) in enumerate(todo):
        for steps in shrink_candidates(c, k):
            cand_cases.append({'stream': c['stream'], 'ctx': c['ctx'], 'world': c['world'], 'steps': copy.deepcopy(steps)})
            owner.append(pi)
    cres = evaluate(ck, cand_cases) if cand_cases else []
    for pi, (c, k, what, I, M, S, mm) in enumerate(todo):
        best = None
        for cc, (r, m), o in zip(cand_cases, cres, owner):
            if o != pi or r is None or m is None:
                continue
            I2, (M2, S2, mm2) = r['out'][-1], m[-1]
            w2 = judge_step(I2, M2, S2, mm2)
            if w2 and (best is None or len(cc['steps']) < len(best[0]['steps'])):
                best = (cc, r, m, w2, I2, M2, S2)
        if best is None:    # only the full prefix reproduces it
            cc = {'stream': c['stream'], 'ctx': c['ctx'], 'world': c['world'], 'steps': c['steps'][:k + 1]}
            (r, m), = evaluate(ck, [cc])
            if r is None or m is None:
                continue
            best = (cc, r, m, what, r['out'][-1], m[-1][0], m[-1][1])
        cc, r, m, w2, I2, M2, S2 = best
        kk = len(r['steps']) - 1
        case = dict(cc, reified={'world': r['world'], 'steps': r['steps']}, facts=describe(cc, r, kk), impl_out=I2,
                    impl_agrees_with_model=(I2 == M2), spec=VERD.get(S2, S2))
        ck.violation(w2 + dflt_note(cc['steps']), case, stream=cc['stream'], matcher=matcher,
                     extra={'impl': {'out': OUT.get(I2, I2), 'exc': r['exc'][kk], 'tables': r.get('tables')}, 'model_out': OUT.get(M2, M2),
                            'spec': VERD.get(S2, S2), 'failing_step': kk, 'original_history_length': len(c['steps'])})
    ck.violations.sort(key=lambda v: (len(v['case'].get('reified', v['case'])['steps']), len(json.dumps(v['case']['steps']))))
    ck.oblige('correspondence:typevars+generic-history', 'correspondence', not disagreements,
              json.dumps(disagreements[0])[:1500] if disagreements else f'{ck.traces_validated} steps agree with the model')
    # a silently degenerate generator must not look like coverage
    if replay is None:
        tot = sum(hist['spec_verdict'].values()) or 1
        share = {k: hist['spec_verdict'].get(k, 0) / tot for k in ('Must', 'MustNot')}
        ck.oblige('generator-floor', 'correspondence', share['Must'] > 0.12 and share['MustNot'] > 0.12 and lost < len(cases) * 0.05,
                  f'Must {share["Must"]:.2f} MustNot {share["MustNot"]:.2f} lost {lost}/{len(cases)}')
    hist['disagreements'] = len(disagreements)
    hist['lost_cases'] = lost
    ck.coverage.update(hist)
    ck.samples = [{'world': r['world'], 'steps': r['steps'][:4], 'impl': r['out'][:4], 'model_spec': m[:4]}
                  for (r, m) in results[:2] + results[-2:] if r is not None and m is not None and 'error' not in r]
    ck.assumptions = ['bodies of generated methods return a prescribed value and do not call methods of the same instance',
                      'instances are always created as Cls[X](...) from generated source (pedantic scans the source text of the caller)',
                      'user classes form a single-inheritance tree; class identity = class name',
                      'the Self entry of the binding table is not modelled (no typing.Self in the vocabulary)']
    return ck.finish(
        rule='TypeVars: user-defined ones and the ones typing exports (typing.AnyStr, T, KT, T_contra); parameters with DEFAULT values left out of calls (the default takes part in the call); reentrancy: a generated plain function whose body calls the same decorated function again (depth 1-2, other classes), each call judged alone; typevars: generated signature over bare / nested / constrained / bound / contravariant TypeVars x 2-4 keyword calls '
             '(same class, mixed classes, near miss, random values); generic-history: random histories of creations and calls over 1-3 '
             'instances of generic classes with 1-3 TypeVars, a non-generic @pedantic_class, a plain class and plain functions; '
             'distinct = (world, history prefix); non-trivial = verdict Must/MustNot and (a TypeVar shared by two positions, or a call on a '
             'generic instance after >= 2 earlier steps on it)',
        checker_cmd='make -C coq Props/C07.vo && coqc -Q coq PV coq/Props/C07.v (Print Assumptions under every theorem)',
        trusted_base=['Coq 8.16.1 kernel (coqc; vm_compute for model evaluation and finite side conditions)',
                      'translator/t_checker.py, translator/t_typevar.py (Python ast -> Gen/CheckerTables.v, Gen/TypeVarShape.v)',
                      'Model/Checker.v, Model/GenericInstance.v (hand-written models, validated by the correspondence streams)',
                      'harness/universe.py render/reify, harness/w_typevars.py, harness/c07.py (correspondence glue)',
                      'CPython 3.12 typing: Generic.__class_getitem__, __orig_class__ set after __init__, isinstance/issubclass'])
