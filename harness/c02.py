"""C02 - the type checker is complete and spelling independent.  Proof: coq/Props/C02.v.
Correspondence + property on the implementation: harness/checker_common.py."""
import os
import checker_common as CC

PROPS = 'Props/C02.v' if os.path.exists(os.path.join(CC.COQ, 'Props/C02.v')) else None


def judge(ck, c, r, I, M, S, sup):
    if c['stream'] == 'abc-spelling' and S == 1 and I != 0:
        return f'a conforming value was rejected under the collections.abc / collections spelling of a generic ({CC.OUT_NAMES.get(I, I)})'
    if not sup:
        return None
    if S == 1 and I != 0:
        return f'a conforming value was rejected ({CC.OUT_NAMES.get(I, I)})'
    if 'twin' in c and c['twin'] < len(ck.env['impl']):
        t = ck.env['impl'][c['twin']]
        c['twin_case'] = {k: v for k, v in ck.env['cases'][c['twin']].items() if k != 'twin_case'}     # lets a replay rebuild the pair
        if t is not None and 'out' in t and t['out'] != 9 and (t['out'] == 0) != (I == 0):
            if c['stream'] == 'reorder':
                # equal keys (True / 1 / 1.0) collapse while the dict is built: then the twin is not a mere reordering
                if 'val' not in t or CC.canon_val(t['val']) != CC.canon_val(r['val']):
                    return None
                return (f'the verdict depends on the iteration order of a nested dict / set: {CC.OUT_NAMES.get(t["out"])} for '
                        f'{ck.env["cases"][c["twin"]]["val"]} but {CC.OUT_NAMES.get(I)} for the reordered {c["val"]}')
            return (f'the verdict depends on the spelling: {CC.OUT_NAMES.get(t["out"])} for {ck.env["cases"][c["twin"]]["ann"]} '
                    f'but {CC.OUT_NAMES.get(I)} for the equivalent {c["ann"]}')
    return None


def run(tier, seed, replay=None):
    def extra(ck, cases):
        if replay is None or replay.get('case', {}).get('obs') == 'named':
            CC.named_stream(ck, 'complete')
        if replay is not None and replay.get('case', {}).get('obs') == 'named':
            cases.clear()
    return CC.run('C02', tier, seed, replay, PROPS, judge, extra_streams=extra, rule_extra=' (every annotation also in an equivalent spelling: typing<->builtin alias, '
                  'Union/Optional/|, permuted members; every value with a dict or set inside also with all of them built in the opposite order)')
