"""Abstract syntax of annotations / values shared by the checker streams (C01 C02 C06 C07 C08 C03...):
JSON-able terms, rendering into real Python / typing objects, reification of real objects back
into abstract syntax (so that typing's own normalisation and real iteration orders are what the
Coq model sees), and printing as Coq terms of coq/Base/{Values,Ann}.v.

render/reify are correspondence glue (trusted base); harness/selftest.py round-trips them."""
import collections, inspect, types, typing

BUILTIN_CLS = {
    'object': ('CObject', object), 'type': ('CType', type), 'NoneType': ('CNoneType', type(None)), 'bool': ('CBool', bool),
    'int': ('CInt', int), 'float': ('CFloat', float), 'str': ('CStr', str), 'bytes': ('CBytes', bytes), 'list': ('CList', list),
    'tuple': ('CTuple', tuple), 'set': ('CSet', set), 'frozenset': ('CFrozenSet', frozenset), 'dict': ('CDict', dict),
    'deque': ('CDeque', collections.deque), 'defaultdict': ('CDefaultDict', collections.defaultdict),
    'OrderedDict': ('COrderedDict', collections.OrderedDict), 'dict_keys': ('CDictKeys', type({}.keys())),
    'dict_values': ('CDictValues', type({}.values())), 'dict_items': ('CDictItems', type({}.items())),
    'list_iterator': ('CListIterator', type(iter([]))), 'function': ('CFunction', types.FunctionType),
    'builtin_function': ('CBuiltinFn', types.BuiltinFunctionType), 'inspect_empty': ('CInspectEmpty', inspect.Parameter.empty),
}
_PY2NAME = {v[1]: k for k, v in BUILTIN_CLS.items()}
TNAMES = ['List', 'Set', 'FrozenSet', 'Dict', 'Tuple', 'Type', 'Deque', 'DefaultDict', 'OrderedDict', 'Counter', 'ChainMap',
          'Iterable', 'Collection', 'Container', 'Sequence', 'MutableSequence', 'AbstractSet', 'MutableSet', 'Mapping',
          'MutableMapping', 'MappingView', 'KeysView', 'ValuesView', 'ItemsView', 'ByteString', 'AsyncIterable', 'Generator',
          'Iterator', 'Awaitable', 'Coroutine', 'Callable', 'Union', 'Optional', 'Literal', 'Any']
BUILTIN_ORIGIN = {'List': list, 'Set': set, 'FrozenSet': frozenset, 'Dict': dict, 'Tuple': tuple, 'Type': type}
_ORIGIN2NAME = {v: k for k, v in BUILTIN_ORIGIN.items()}
# PEP 585 spelling of the abstract collections / collections classes (spelling 'abc')
import collections.abc as _abc
ABC_ORIGIN = {'Iterable': _abc.Iterable, 'Collection': _abc.Collection, 'Container': _abc.Container, 'Sequence': _abc.Sequence,
              'MutableSequence': _abc.MutableSequence, 'AbstractSet': _abc.Set, 'MutableSet': _abc.MutableSet, 'Mapping': _abc.Mapping,
              'MutableMapping': _abc.MutableMapping, 'KeysView': _abc.KeysView, 'ValuesView': _abc.ValuesView, 'ItemsView': _abc.ItemsView,
              'Deque': collections.deque, 'DefaultDict': collections.defaultdict, 'OrderedDict': collections.OrderedDict}
_ABC2NAME = {v: k for k, v in ABC_ORIGIN.items()}

# ------------------------------------------------------------------------------------------ user classes
_user = {}


def user_class(path):
    path = tuple(path)
    if path not in _user:
        parent = user_class(path[:-1]) if len(path) > 1 else object
        c = type('U' + '_'.join(map(str, path)), (parent,), {'_pv_path': list(path)})
        c.__module__ = 'pv_universe'
        _user[path] = c
    return _user[path]


def ctx_name(n):
    """the n-th name a forward reference / string annotation may use: names user class [n]"""
    return 'U%d' % n


def render_cls(c):
    return user_class(c[1]) if isinstance(c, list) else BUILTIN_CLS[c][1]


def reify_cls(c):
    if c in _PY2NAME:
        return _PY2NAME[c]
    if isinstance(c, type) and '_pv_path' in c.__dict__:
        return ['user', list(c._pv_path)]
    raise KeyError(f'class outside the universe: {c!r}')


def coq_cls(c):
    if isinstance(c, list):
        return '(CUser [' + '; '.join('%d%%nat' % x for x in c[1]) + '])'
    return BUILTIN_CLS[c][0]


# ------------------------------------------------------------------------------------------ values
class _Inst:
    pass


_inst_cache = {}


def make_inst(path, i):
    k = (tuple(path), i)
    if k not in _inst_cache:
        o = user_class(path)()
        o._pv_id = i
        _inst_cache[k] = o
    return _inst_cache[k]


_fun_counter = [0]


def make_fun(spec):
    """a real def function with the given parameter annotations / defaults / return annotation"""
    ns = {'typing': typing}
    parts = []
    for i, (ann, has_default) in enumerate(spec['params']):
        s = f'p{i}'
        if ann is not None:
            ns[f'A{i}'] = typing.Any if ann == 'any' else render_cls(ann)
            s += f': A{i}'
        if has_default:
            s += ' = None'
        parts.append(s)
    ret = ''
    if spec['ret'] is not None:
        ns['R'] = typing.Any if spec['ret'] == 'any' else (None if spec['ret'] == 'NoneType' else render_cls(spec['ret']))
        ret = ' -> R'
    _fun_counter[0] += 1
    name = f'pv_fun_{_fun_counter[0]}'
    src = f'{"async " if spec["coroutine"] else ""}def {name}({", ".join(parts)}){ret}:\n    return None\n'
    exec(src, ns)
    return ns[name]


def render_val(v):
    k = v[0]
    if k == 'none': return None
    if k == 'bool': return bool(v[1])
    if k == 'int': return int(v[1])
    if k == 'float': return v[1] / 2.0
    if k == 'str': return ''.join(chr(c) for c in v[1])
    if k == 'bytes': return bytes(v[1])
    if k == 'list': return [render_val(x) for x in v[1]]
    if k == 'tuple': return tuple(render_val(x) for x in v[1])
    if k == 'set': return {render_val(x) for x in v[1]}
    if k == 'frozenset': return frozenset(render_val(x) for x in v[1])
    if k == 'dict': return {render_val(a): render_val(b) for a, b in v[1]}
    if k == 'defaultdict':
        d = collections.defaultdict(int)
        d.update({render_val(a): render_val(b) for a, b in v[1]})
        return d
    if k == 'ordereddict': return collections.OrderedDict((render_val(a), render_val(b)) for a, b in v[1])
    if k == 'deque': return collections.deque(render_val(x) for x in v[1])
    if k == 'keys': return {render_val(x): None for x in v[1]}.keys()
    if k == 'values': return {i: render_val(x) for i, x in enumerate(v[1])}.values()
    if k == 'items': return {render_val(a): render_val(b) for a, b in v[1]}.items()
    if k == 'iter': return iter([render_val(x) for x in v[1]])
    if k == 'inst': return make_inst(v[1], v[2])
    if k == 'class': return render_cls(v[1])
    if k == 'fun': return make_fun(v[1])
    if k == 'lambda': return (lambda *a: None)
    if k == 'builtinfn': return len
    if k == 'object': return object()
    raise ValueError(v)


def reify_val(o, abstract=None):
    """real object -> abstract value (iteration order as observed).  One-shot iterators cannot be
    observed without consuming them: the term they were rendered from (`abstract`, followed
    positionally through ordered containers) is returned for them."""
    def kids(kind, n):
        if abstract is not None and abstract[0] == kind and len(abstract[1]) == n:
            return abstract[1]
        return [None] * n
    if o is None: return ['none']
    t = type(o)
    if t is bool: return ['bool', o]
    if t is int: return ['int', o]
    if t is float: return ['float', int(o * 2)]
    if t is str: return ['str', [ord(c) for c in o]]
    if t is bytes: return ['bytes', list(o)]
    if t is list: return ['list', [reify_val(x, a) for x, a in zip(o, kids('list', len(o)))]]
    if t is tuple: return ['tuple', [reify_val(x, a) for x, a in zip(o, kids('tuple', len(o)))]]
    if t is set: return ['set', [reify_val(x) for x in o]]
    if t is frozenset: return ['frozenset', [reify_val(x) for x in o]]
    for py, kind in ((dict, 'dict'), (collections.defaultdict, 'defaultdict'), (collections.OrderedDict, 'ordereddict')):
        if t is py:
            return [kind, [[reify_val(a), reify_val(b, (k or [None, None])[1])] for (a, b), k in zip(o.items(), kids(kind, len(o)))]]
    if t is collections.deque: return ['deque', [reify_val(x, a) for x, a in zip(o, kids('deque', len(o)))]]
    if t is type({}.keys()): return ['keys', [reify_val(x) for x in o]]
    if t is type({}.values()): return ['values', [reify_val(x, a) for x, a in zip(o, kids('values', len(o)))]]
    if t is type({}.items()): return ['items', [[reify_val(a), reify_val(b, (k or [None, None])[1])] for (a, b), k in zip(o, kids('items', len(o)))]]
    if t is type(iter([])):
        if abstract is None or abstract[0] != 'iter':
            raise KeyError('one-shot iterator at a position that cannot be tracked')
        return abstract
    if isinstance(o, type): return ['class', reify_cls(o)]
    if '_pv_path' in t.__dict__: return ['inst', list(t._pv_path), o._pv_id]
    if t is types.FunctionType:
        if o.__name__ == '<lambda>': return ['lambda']
        sig = inspect.signature(o)

        def ra(a):
            if a is inspect.Parameter.empty: return None
            if a is typing.Any: return 'any'
            if a is None: return 'NoneType'
            return reify_cls(a)
        return ['fun', {'params': [[ra(p.annotation), p.default is not inspect.Parameter.empty] for p in sig.parameters.values()],
                        'ret': ra(sig.return_annotation), 'coroutine': inspect.iscoroutinefunction(o)}]
    if t is types.BuiltinFunctionType: return ['builtinfn']
    if t is object: return ['object']
    raise KeyError(f'value outside the universe: {o!r}')


def coq_val(v):
    k = v[0]
    L = lambda xs: '[' + '; '.join(coq_val(x) for x in xs) + ']'
    P = lambda kvs: '[' + '; '.join(f'({coq_val(a)}, {coq_val(b)})' for a, b in kvs) + ']'
    Z = lambda n: f'({n})%Z' if n < 0 else f'{n}%Z'
    NL = lambda xs: '[' + '; '.join('%d%%nat' % x for x in xs) + ']'
    if k == 'none': return 'VNone'
    if k == 'bool': return f'(VBool {"true" if v[1] else "false"})'
    if k == 'int': return f'(VInt {Z(v[1])})'
    if k == 'float': return f'(VFloat {Z(v[1])})'
    if k == 'str': return f'(VStr {NL(v[1])})'
    if k == 'bytes': return f'(VBytes {NL(v[1])})'
    if k in ('list', 'tuple', 'set', 'frozenset', 'deque', 'iter'):
        c = {'list': 'VList', 'tuple': 'VTuple', 'set': 'VSet', 'frozenset': 'VFrozenSet', 'deque': 'VDeque', 'iter': 'VIter'}[k]
        return f'({c} {L(v[1])})'
    if k == 'keys': return f'(VKeysView {L(v[1])})'
    if k == 'values': return f'(VValuesView {L(v[1])})'
    if k in ('dict', 'defaultdict', 'ordereddict', 'items'):
        c = {'dict': 'VDict', 'defaultdict': 'VDefaultDict', 'ordereddict': 'VOrderedDict', 'items': 'VItemsView'}[k]
        return f'({c} {P(v[1])})'
    if k == 'inst': return f'(VInst {NL(v[1])} {v[2]}%nat)'
    if k == 'class': return f'(VClass {coq_cls(v[1])})'
    if k == 'fun':
        def oa(a):
            return 'None' if a is None else ('(Some None)' if a == 'any' else f'(Some (Some {coq_cls(a)}))')
        ps = '[' + '; '.join(f'({oa(a)}, {"true" if d else "false"})' for a, d in v[1]['params']) + ']'
        return (f'(VFun {{| fs_params := {ps}; fs_ret := {oa(v[1]["ret"])}; '
                f'fs_coroutine := {"true" if v[1]["coroutine"] else "false"} |}})')
    if k == 'lambda': return 'VLambda'
    if k == 'builtinfn': return 'VBuiltinFn'
    if k == 'object': return 'VObject'
    raise ValueError(v)


# ------------------------------------------------------------------------------------------ annotations
_tv_cache = {}
_nt_counter = [0]


def render_tv(d):
    k = (d['id'], tuple(map(str, d['constraints'])), str(d['bound']), d['contra'])
    if k not in _tv_cache:
        kw = {}
        if d['bound'] is not None:
            kw['bound'] = render_cls(d['bound'])
        if d['contra']:
            kw['contravariant'] = True
        _tv_cache[k] = (typing.TypeVar('T%d' % d['id'], *[render_cls(c) for c in d['constraints']], **kw), d)
    return _tv_cache[k][0]


OTHER_ZOO = None


def render_ann(a):
    k = a[0]
    if k == 'none': return None
    if k == 'cls': return render_cls(a[1])
    if k == 'any': return typing.Any
    if k == 'union':
        args = [render_ann(x) for x in a[2]]
        if a[1] == 'pipe':
            r = args[0]
            for x in args[1:]:
                r = r | x
            return r
        return typing.Union[tuple(args)]
    if k == 'lit': return typing.Literal[tuple(render_val(x) for x in a[1])]
    if k == 'newtype':
        _nt_counter[0] += 1
        return typing.NewType('NT%d' % _nt_counter[0], render_ann(a[1]))
    if k == 'fwd': return typing.ForwardRef(ctx_name(a[1]))
    if k == 'str': return ctx_name(a[1])
    if k == 'gen':
        args = tuple((None if x == ['cls', 'NoneType'] else render_ann(x)) for x in a[3])   # people write dict[str, None]
        base = BUILTIN_ORIGIN[a[2]] if a[1] == 'builtin' else ABC_ORIGIN[a[2]] if a[1] == 'abc' else getattr(typing, a[2])
        return base[args if len(args) != 1 else args[0]]
    if k == 'tuplevar':
        return (tuple if a[1] == 'builtin' else typing.Tuple)[render_ann(a[2]), ...]
    if k == 'tupleempty':
        return (tuple if a[1] == 'builtin' else typing.Tuple)[()]
    if k == 'bare': return getattr(typing, a[1])
    if k == 'callable':
        r = render_ann(a[2])
        return typing.Callable[..., r] if a[1] is None else typing.Callable[[render_ann(x) for x in a[1]], r]
    if k == 'tv': return render_tv(a[1])
    if k == 'other': return OTHER_ZOO[a[1]][1]
    raise ValueError(a)


def _name_index(s):
    if isinstance(s, str) and s.startswith('U') and s[1:].isdigit():
        return int(s[1:])
    return None


def reify_ann(o, top=True):
    """real annotation object -> abstract syntax; anything unrecognised becomes ['other', -1]"""
    try:
        if o is None:
            return ['none'] if top else ['cls', 'NoneType']     # typing turns a nested None into NoneType; builtin aliases keep it
        if isinstance(o, str):
            n = _name_index(o)
            return ['str', n] if (top and n is not None) else ['other', -1]
        if o is typing.Any:
            return ['any']
        if isinstance(o, typing.TypeVar):
            for tv, d in _tv_cache.values():
                if tv is o:
                    return ['tv', d]
            return ['other', -1]
        if isinstance(o, typing.ForwardRef):
            n = _name_index(o.__forward_arg__)
            return ['fwd', n] if n is not None else ['other', -1]
        if isinstance(o, typing.NewType):
            return ['newtype', reify_ann(o.__supertype__, False)]
        if isinstance(o, type) and not isinstance(o, types.GenericAlias):
            return ['cls', reify_cls(o)]
        org = typing.get_origin(o)
        args = typing.get_args(o)
        if isinstance(o, types.UnionType):
            return ['union', 'pipe', [reify_ann(x, False) for x in args]]
        if org is typing.Union:
            return ['union', 'typing', [reify_ann(x, False) for x in args]]
        if org is typing.Literal:
            return ['lit', [reify_val(x) for x in args]]
        if isinstance(o, (typing._SpecialGenericAlias, typing._SpecialForm)) and getattr(o, '_name', None) in TNAMES:
            return ['bare', o._name]
        if org is collections.abc.Callable and type(o).__module__ == 'typing':
            flat = o.__args__
            if len(flat) == 2 and flat[0] is Ellipsis:
                return ['callable', None, reify_ann(flat[1], False)]
            return ['callable', [reify_ann(x, False) for x in flat[:-1]], reify_ann(flat[-1], False)]
        if isinstance(o, types.GenericAlias):
            if org in _ORIGIN2NAME:
                name, sp = _ORIGIN2NAME[org], 'builtin'
            elif org in _ABC2NAME and type(o) is types.GenericAlias:
                name, sp = _ABC2NAME[org], 'abc'
            else:
                return ['other', -1]
        elif isinstance(o, typing._GenericAlias) and org is not None and getattr(o, '_name', None) in TNAMES:
            name, sp = o._name, 'typing'
        elif isinstance(o, (typing._SpecialGenericAlias, typing._SpecialForm)) and getattr(o, '_name', None) in TNAMES:
            return ['bare', o._name]
        else:
            return ['other', -1]
        if name == 'Tuple':
            if len(args) == 2 and args[1] is Ellipsis:
                return ['tuplevar', sp, reify_ann(args[0], False)]
            if len(args) == 0:
                return ['tupleempty', sp]
        if any(x is Ellipsis for x in args):
            return ['other', -1]
        return ['gen', sp, name, [reify_ann(x, False) for x in args]]
    except KeyError:
        return ['other', -1]


def coq_ann(a):
    k = a[0]
    L = lambda xs: '[' + '; '.join(coq_ann(x) for x in xs) + ']'
    SP = lambda s: {'builtin': 'SpBuiltin', 'abc': 'SpAbc'}.get(s, 'SpTyping')
    if k == 'none': return 'ANone'
    if k == 'cls': return f'(ACls {coq_cls(a[1])})'
    if k == 'any': return 'AAny'
    if k == 'union': return f'(AUnion {"UPipe" if a[1] == "pipe" else "UTyping"} {L(a[2])})'
    if k == 'lit': return '(ALiteral [' + '; '.join(coq_val(x) for x in a[1]) + '])'
    if k == 'newtype': return f'(ANewType {coq_ann(a[1])})'
    if k == 'fwd': return f'(AFwdRef {a[1]}%nat)'
    if k == 'str': return f'(AStr {a[1]}%nat)'
    if k == 'gen': return f'(AGeneric {SP(a[1])} T{a[2]} {L(a[3])})'
    if k == 'tuplevar': return f'(ATupleVar {SP(a[1])} {coq_ann(a[2])})'
    if k == 'tupleempty': return f'(ATupleEmpty {SP(a[1])})'
    if k == 'bare': return f'(ABare T{a[1]})'
    if k == 'callable':
        ps = 'None' if a[1] is None else f'(Some {L(a[1])})'
        return f'(ACallable {ps} {coq_ann(a[2])})'
    if k == 'tv':
        d = a[1]
        cs = '[' + '; '.join(coq_cls(c) for c in d['constraints']) + ']'
        b = 'None' if d['bound'] is None else f'(Some {coq_cls(d["bound"])})'
        return (f'(ATypeVar {{| tv_id := {d["id"]}%nat; tv_constraints := {cs}; tv_bound := {b}; '
                f'tv_contravariant := {"true" if d["contra"] else "false"} |}})')
    if k == 'other': return f'(AOther {max(a[1], 0)}%nat)'
    raise ValueError(a)


def coq_ctx(ctx):
    """ctx: list of [n, cls]"""
    return '[' + '; '.join(f'({n}%nat, {coq_cls(c)})' for n, c in ctx) + ']'


def real_ctx(ctx):
    return {ctx_name(n): render_cls(c) for n, c in ctx}


def depth(a):
    if a[0] in ('union',): return 1 + max([depth(x) for x in a[2]] or [0])
    if a[0] == 'gen': return 1 + max([depth(x) for x in a[3]] or [0])
    if a[0] in ('tuplevar', 'newtype'): return 1 + depth(a[2] if a[0] == 'tuplevar' else a[1])
    if a[0] == 'callable': return 1
    return 0
