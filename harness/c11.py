"""C11 - frozen dataclass: immutability, copy_with (shallow) / deep_copy_with (deep), same class, original unchanged,
eq / hash / order as the tuple of fields.
Proof: coq/Props/C11.v over the decorator program regenerated into Gen/Dataclass.v.
Correspondence + property on the implementation: stream `dataclass` (harness/dc_common.py, harness/w_dataclass.py)."""
import dc_common


def run(tier, seed, replay=None):
    return dc_common.run('C11', tier, seed, replay)
