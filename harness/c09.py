"""C09 - ENABLE_PEDANTIC switch.  Proof: coq/Props/C09.v over the switch logic, guards and cross reference regenerated
into Gen/Env.v by translator/t_env.py.  Correspondence stream `env-history`: operation histories (setenv / unsetenv /
enable_pedantic() / disable_pedantic() / decorate a fresh function or class with one of the seven decorators / create a decorator
object and keep it / apply a kept decorator object to a fresh target / decorate AGAIN an object that went through a decorator
earlier in the history (the one that was given, or the one that came back) / define a fresh SUBCLASS of a decorated class and
decorate it / call a decorated object) run on the real package (harness/w_env.py, in processes started with the variable unset, "0" and "1") and on the model
and the specification inside Coq (Model/EnvEval.v)."""
import io, json, os, re, tokenize
from lib import *

UNITS = ['Env']
MODEL = ['Model/EnvEval.vo', 'Model/EnvOverlapEval.vo']
PROPS = 'Props/C09.v'
PRE = 'From Coq Require Import List ZArith.\nFrom PV Require Import Model.EnvEval Model.EnvOverlapEval.\nImport ListNotations.'

SETENV, UNSETENV, ENABLE, DISABLE, DECORATE, CALL, CREATE, APPLY, REDECO, SUBDECO = 0, 1, 2, 3, 4, 5, 6, 7, 8, 9
BEGIN, NEXT, END = 10, 11, 12        # overlapping decorations (implementation-only stream, see the section below)
UNSET = 5
DNAMES = ['pedantic', 'pedantic_require_docstring', 'pedantic_class', 'pedantic_class_require_docstring', 'trace_class',
          'timer_class', 'for_all_methods']
OBS = {0: '-', 1: 'returned the very object, unmodified', 2: 'returned a new/modified object', 3: 'decoration raised',
       4: 'call unchecked (plain)', 5: 'call checked/wrapped', 6: 'switch failed at call time', 7: 'inconsistent probes',
       8: 'harness problem', 9: 'nothing (the statement leaves it open)'}
VALNAME = {0: '"0"', 1: '"1"', 2: '"2"', 3: '""', 4: '"true"', 5: 'unset'}
TOGGLES = [[SETENV, 0], [SETENV, 1], [UNSETENV], [ENABLE], [DISABLE]]


# ---------------------------------------------------------------------------------------------------------------
# the generator's own bookkeeping (used only to steer generation and to classify cases, never as an oracle)
# ---------------------------------------------------------------------------------------------------------------
def env_after(env, op):
    if op[0] == SETENV:
        return op[1]
    if op[0] == UNSETENV:
        return UNSET
    if op[0] == ENABLE:
        return 1
    if op[0] == DISABLE:
        return 0
    return env


def in_domain_prefix(case):
    """number of leading ops that stay inside the domain of the statement (variable unset / "0" / "1")"""
    if case['init'] not in (0, 1, UNSET):
        return 0
    n = 0
    for op in case['ops']:
        if op[0] == SETENV and op[1] not in (0, 1):
            break
        n += 1
    return n


def fam_of(d):
    return 'fn' if d in (0, 1) else 'cls'


class Book:
    """the generator's bookkeeping, one operation at a time (see walk2)"""
    def __init__(self, init):
        self.env, self.created, self.objects, self.dirty, self.n_pid, self.n_ops = init, [], [], set(), 0, 0

    def push(self, op, commit=True):
        env, created, objects = self.env, self.created, self.objects
        r = {'op': op, 'env': env, 'n_obj': len(objects), 'n_created': len(created), 'd': None, 'c_env': None, 'how': None,
             'src': None, 'ok': True, 'obj': None}
        code = op[0]
        given = t = None
        n_pid = self.n_pid
        if code == DECORATE:
            r.update(d=op[1], c_env=env, how='fresh')
            t = op[2] if len(op) > 2 else 0
        elif code == APPLY and 0 <= op[1] < len(created):
            r.update(d=created[op[1]][0], c_env=created[op[1]][1], how='fresh')
            t = op[2] if len(op) > 2 else 0
        elif code in (REDECO, SUBDECO) and len(op) >= (5 if code == REDECO else 4) and 0 <= op[1] < len(objects):
            kind, x = op[3:5] if code == REDECO else op[2:4]
            src = objects[op[1]]
            dd = (x, env) if kind == 0 and 0 <= x <= 6 else created[x] if kind != 0 and 0 <= x < len(created) else None
            if dd is not None and fam_of(dd[0]) == src['fam'] and (code == REDECO or src['fam'] == 'cls'):
                r.update(d=dd[0], c_env=dd[1], how='again' if code == REDECO else 'sub', src=src)
                t = src['t']
                if code == REDECO:
                    given = src['res'] if op[2] else src['given']
        if r['d'] is not None:
            if r['how'] != 'again':
                given = n_pid
                n_pid += 1
            # inputs outside the statement, which only says "they check" about an enabled decorator: targets an ENABLED decorator
            # rejects or cannot check (kinds >= 10); an ENABLED decorator applied to something an enabled decorator produced or
            # changed before - pedantic rejects its own *args/**kwargs wrappers (PedanticDocstringException: documented
            # arguments do not match), a class decorated twice trips over the hook method the first pass installed; an Enum
            # with members cannot be subclassed at all.  All of them are fine while the variable is "0".
            if env != 0 and (t >= 10 or (r['how'] == 'again' and given in self.dirty)):
                r['ok'] = False
            if r['how'] == 'sub' and t == 10:
                r['ok'] = False
            if env in (1, UNSET) and fam_of(r['d']) == 'fn':
                res = n_pid
                n_pid += 1
            else:
                res = given
            r['obj'] = {'fam': fam_of(r['d']), 't': t, 'env': env, 'given': given, 'res': res, 'sub': r['how'] == 'sub',
                        'base': r['src']['res'] if r['how'] == 'sub' else None}
            if commit:
                if env != 0:
                    self.dirty.add(res)
                objects.append(r['obj'])
        if commit:
            self.n_pid = n_pid
            if code == CREATE:
                created.append((op[1], env))
            self.env = env_after(env, op)
        return r


def walk2(case):
    """per op a dict: op, env (value of the variable before it), n_obj / n_created (decorated objects / decorator objects before
    it), d (decorator kind if the op decorates something, else None), c_env (value of the variable when that decorator object
    was created), how ('fresh' / 'again' / 'sub'), src (the earlier object a re-decoration / subclass refers to: a dict of
    `objects`), ok (False: an input the generator must not produce, see history_ok), obj (the object the op makes, if any).
    objects: fam, t, env (value of the variable when it was decorated), given / res (abstract identities of the python objects:
    a class decorator returns the class it was given; an enabled function decorator a new function), sub (made by op 9)."""
    book = Book(case['init'])
    return [book.push(op) for op in case['ops']]


def walk(case):
    """per op: (op, value of the variable before it, number of decorated objects before it, decorator objects created before
    it, decorator kind if the op decorates something else None, value of the variable when that decorator object was created)"""
    for r in walk2(case):
        yield r['op'], r['env'], r['n_obj'], r['n_created'], r['d'], r['c_env']


def features(case):
    """(decorations, calls, inert-toggle witnesses, split witnesses, again witnesses, subclass witnesses).  inert-toggle witness: a
    call of an object after the tracked value of the variable has changed between enabled and disabled since its decoration.
    split witness: a decorator object applied after the value changed between enabled and disabled since the object was
    created.  again witness: an object decorated again after such a change since its earlier decoration ([on->off, off->on]).
    subclass witness: a subclass decorated after such a change since the decoration of its base class ([on->off, off->on])"""
    deco_env = []
    n_dec = n_call = witnesses = split = 0
    again, sub = [0, 0], [0, 0]
    for r in walk2(case):
        op, env = r['op'], r['env']
        if r['d'] is not None:
            deco_env.append(env)
            n_dec += 1
            if (r['c_env'] == 0) != (env == 0):
                split += 1
            if r['src'] is not None and (r['src']['env'] == 0) != (env == 0):
                (again if r['how'] == 'again' else sub)[0 if env == 0 else 1] += 1
        elif op[0] == CALL:
            n_call += 1
            if op[1] < len(deco_env) and (deco_env[op[1]] == 0) != (env == 0):
                witnesses += 1
    return n_dec, n_call, witnesses, split, again, sub


def history_ok(case):
    """targets that an *enabled* decorator rejects or cannot check - awkward kinds, its own earlier products - are only
    meaningful while the variable is "0" (see walk2)"""
    return all(r['ok'] for r in walk2(case))


awkward_ok = history_ok


def rand_decorate(rng, awkward=False):
    d = rng.randrange(7)
    t = rng.choice([10, 11, 12]) if awkward else rng.choice([0, 0, 1, 2])
    u = rng.randrange(4) if d == 6 else 0
    return [DECORATE, d, t, u]


def target_for(rng, d, awkward=False):
    return rng.choice([10, 11, 12]) if awkward else rng.choice([0, 0, 1, 2])


def class_decorator(rng):
    d = rng.randrange(2, 7)
    return d, (rng.randrange(4) if d == 6 else 0)


def rand_again(rng, book):
    """an op that decorates again an earlier object, or a fresh subclass of one, admissible (history_ok) in the state of the
    bookkeeping; None if there is none"""
    objects = book.objects
    if not objects:
        return None
    created = [d for d, _ in book.created]
    for _ in range(6):
        i = len(objects) - 1 - min(len(objects) - 1, int(rng.expovariate(0.7))) if rng.random() < 0.6 else rng.randrange(len(objects))
        o = objects[i]
        kept = [k for k, d in enumerate(created) if fam_of(d) == o['fam']]
        if o['fam'] == 'cls' and rng.random() < 0.45:
            if kept and rng.random() < 0.3:
                op = [SUBDECO, i, 1, rng.choice(kept)]
            else:
                op = [SUBDECO, i, 0, *class_decorator(rng)]
        else:
            w = rng.randrange(2)
            if kept and rng.random() < 0.3:
                op = [REDECO, i, w, 1, rng.choice(kept)]
            elif o['fam'] == 'fn':
                op = [REDECO, i, w, 0, rng.randrange(2), 0]
            else:
                op = [REDECO, i, w, 0, *class_decorator(rng)]
        if book.push(op, commit=False)['ok']:
            return op
    return None


def gen_history(rng, length, values=(0, 1), awkward_share=0.0, split_share=0.35, again_share=0.3):
    init = rng.choice([UNSET, 0, 1] if values == (0, 1) else [UNSET, 0, 1, 2, 3, 4])
    env, ops, n_obj, created = init, [], 0, []
    book = Book(init)
    for _ in range(length):
        for op in ops[book.n_ops:]:                 # bring the bookkeeping up to date
            book.push(op)
        book.n_ops = len(ops)
        r = rng.random()
        if r < 0.34 or n_obj == 0 and r < 0.5:
            aw = env == 0 and rng.random() < awkward_share
            k = rng.random()
            again = rand_again(rng, book) if n_obj and rng.random() < again_share else None
            if again is not None:
                ops.append(again)
                n_obj += 1
            elif k < split_share and created:
                j = rng.randrange(len(created))
                ops.append([APPLY, j, target_for(rng, created[j], aw)])
                n_obj += 1
            elif k < 2 * split_share:
                d = rng.randrange(7)
                ops.append([CREATE, d, rng.randrange(4)])
                created.append(d)
            else:
                ops.append(rand_decorate(rng, aw))
                n_obj += 1
        elif r < 0.64 and n_obj:
            # mostly the most recent objects, sometimes any
            i = n_obj - 1 - min(n_obj - 1, int(rng.expovariate(0.8))) if rng.random() < 0.7 else rng.randrange(n_obj)
            ops.append([CALL, i])
        else:
            k = rng.random()
            op = [SETENV, rng.choice(values)] if k < 0.35 else [UNSETENV] if k < 0.5 else [ENABLE] if k < 0.75 else [DISABLE]
            ops.append(op)
            env = env_after(env, op)
    return {'init': init, 'ops': ops}


def gen_cases(rng, tier, scale):
    cases = []
    procs = [UNSET, 0, 1]
    # 1. exhaustive small scope: initial value x toggle x decorator x toggle, observed by a call before and after
    pre = [None] + TOGGLES
    for proc in procs:
        for init in (UNSET, 0, 1):
            for a in pre:
                for d in range(7):
                    for b in TOGGLES:
                        if proc != UNSET and tier == 'quick' and rng.random() > 0.34:
                            continue
                        t = rng.choice([0, 1, 2])
                        u = rng.randrange(4) if d == 6 else 0
                        ops = ([a] if a else []) + [[DECORATE, d, t, u], [CALL, 0], b, [CALL, 0]]
                        if rng.random() < 0.3:
                            ops += [rng.choice(TOGGLES), [DECORATE, d, t, u], [CALL, 1], [CALL, 0]]
                        cases.append({'stream': 'small-scope', 'proc': proc, 'init': init, 'ops': ops})
    # 1b. the same with the decorator object created first and applied later: create x toggle x apply, call, toggle, call,
    #     toggle, apply the same object again
    for proc in procs:
        for init in (UNSET, 0, 1):
            for d in range(7):
                for a in TOGGLES:
                    for b in TOGGLES:
                        if tier == 'quick' and rng.random() > (0.5 if proc == UNSET else 0.17):
                            continue
                        t = rng.choice([0, 1, 2])
                        ops = [[CREATE, d, rng.randrange(4)], a, [APPLY, 0, t], [CALL, 0], b, [CALL, 0]]
                        if rng.random() < 0.5:
                            ops += [rng.choice(TOGGLES), [APPLY, 0, rng.choice([0, 1, 2])], [CALL, 1], [CALL, 0]]
                        cases.append({'stream': 'small-scope-split', 'proc': proc, 'init': init, 'ops': ops})
    # 1c. an object decorated, the switch toggled, THE SAME object (what was given / what came back) decorated again - directly or
    #     with a decorator object created before the toggle -, both called, a toggle, both called again.  Combinations the
    #     statement says nothing about (history_ok) are left out
    for proc in procs:
        for init in (UNSET, 0, 1):
            for d in range(7):
                for a in TOGGLES:
                    for w in (0, 1):
                        for d2 in ((0, 1) if d < 2 else (2, 3, 4, 5, 6)):
                            if tier == 'quick' and rng.random() > (0.45 if proc == UNSET else 0.12):
                                continue
                            t = rng.choice([0, 1, 2])
                            u, u2 = (rng.randrange(4) if x == 6 else 0 for x in (d, d2))
                            if rng.random() < 0.3:
                                ops = [[CREATE, d2, u2], [DECORATE, d, t, u], [CALL, 0], a, [REDECO, 0, w, 1, 0]]
                            else:
                                ops = [[DECORATE, d, t, u], [CALL, 0], a, [REDECO, 0, w, 0, d2, u2]]
                            ops += [[CALL, 1], [CALL, 0], rng.choice(TOGGLES), [CALL, 1], [CALL, 0]]
                            c = {'stream': 'small-scope-again', 'proc': proc, 'init': init, 'ops': ops}
                            if history_ok(c):
                                cases.append(c)
    # 1d. class hierarchies whose members are decorated at different states of the switch: a class decorated, a toggle, a fresh
    #     subclass of it decorated, both called, a toggle, both called; sometimes the base class is then decorated again and
    #     a second subclass follows
    for proc in procs:
        for init in (UNSET, 0, 1):
            for d in range(2, 7):
                for a in TOGGLES:
                    for d2 in range(2, 7):
                        if tier == 'quick' and rng.random() > (0.6 if proc == UNSET else 0.15):
                            continue
                        t = rng.choice([0, 1, 2])
                        u, u2 = (rng.randrange(4) if x == 6 else 0 for x in (d, d2))
                        ops = [[DECORATE, d, t, u], a, [SUBDECO, 0, 0, d2, u2], [CALL, 1], [CALL, 0], rng.choice(TOGGLES), [CALL, 1], [CALL, 0]]
                        if rng.random() < 0.4:
                            ops += [[REDECO, 0, 1, 0, *class_decorator(rng)], rng.choice(TOGGLES), [SUBDECO, 2, 0, *class_decorator(rng)],
                                    [CALL, 3], [CALL, 1], [CALL, 0]]
                        c = {'stream': 'small-scope-subclass', 'proc': proc, 'init': init, 'ops': ops}
                        while not history_ok(c) and len(c['ops']) > 8:      # drop the optional tail if it is not admissible
                            c = dict(c, ops=c['ops'][:8])
                        if history_ok(c):
                            cases.append(c)
    n = (500 if tier == 'quick' else 25000) * scale
    max_len = 30 if tier == 'quick' else 200
    # 2. valid: in-domain histories
    for _ in range(n):
        ln = rng.choice([3, 5, 8, 12, 20, max_len]) if rng.random() < 0.8 else rng.randrange(1, max_len + 1)
        c = gen_history(rng, ln)
        c.update(stream='valid', proc=rng.choice(procs))
        cases.append(c)
    # 3. near-miss: a valid history in which one object is decorated, the switch is flipped to the opposite setting right
    #    after (by each of the available means), and the object is called; the mirror: flip, then decorate, then call; and the
    #    split form: create the decorator object, flip, apply it, call
    for _ in range(n):
        c = gen_history(rng, rng.choice([2, 4, 8, 16]))
        ops = c['ops']
        pos = rng.randrange(len(ops) + 1)
        env, n_obj, n_created = c['init'], 0, 0
        for k, (op, e, no, nc, d, ce) in enumerate(walk(c)):
            if k == pos:
                break
            env, n_obj, n_created = env_after(e, op), no + (d is not None), nc + (op[0] == CREATE)
        flip = rng.choice([[SETENV, 1], [ENABLE], [UNSETENV]] if env == 0 else [[SETENV, 0], [DISABLE]])
        r = rng.random()
        new_deco, new_obj = 0, 1
        if r < 0.2:
            ins = [rand_decorate(rng), flip, [CALL, n_obj]]
        elif r < 0.4:
            ins = [flip, rand_decorate(rng), [CALL, n_obj], rng.choice(TOGGLES), [CALL, n_obj]]
        elif r < 0.6:
            ins = [[CREATE, rng.randrange(7), rng.randrange(4)], flip, [APPLY, n_created, rng.choice([0, 1, 2])], [CALL, n_obj]]
            new_deco = 1
        elif r < 0.8:
            # decorate, flip, decorate THE SAME object again (what was given / what came back), call both
            dec = rand_decorate(rng)
            d2 = rng.randrange(2) if dec[1] < 2 else None
            ins = [dec, flip, [REDECO, n_obj, rng.randrange(2), 0, *((d2, 0) if d2 is not None else class_decorator(rng))],
                   [CALL, n_obj + 1], [CALL, n_obj]]
            new_obj = 2
        else:
            # decorate a class, flip, decorate a fresh subclass of it, call both
            ins = [[DECORATE, *class_decorator(rng)], flip, [SUBDECO, n_obj, 0, *class_decorator(rng)], [CALL, n_obj + 1], [CALL, n_obj]]
            ins[0] = [DECORATE, ins[0][1], rng.choice([0, 1, 2]), ins[0][2]]
            new_obj = 2
        # later calls/applications refer to objects by position: shift the references behind the insertion
        def shift(op):
            if op[0] in (CALL, REDECO, SUBDECO) and op[1] >= n_obj:
                op = [op[0], op[1] + new_obj] + op[2:]
            if op[0] == APPLY and op[1] >= n_created:
                op = [APPLY, op[1] + new_deco] + op[2:]
            if op[0] == REDECO and op[3] == 1 and op[4] >= n_created:
                op = op[:4] + [op[4] + new_deco] + op[5:]
            if op[0] == SUBDECO and op[2] == 1 and op[3] >= n_created:
                op = op[:3] + [op[3] + new_deco] + op[4:]
            return op
        nm = {'stream': 'near-miss', 'proc': rng.choice(procs), 'init': c['init'], 'ops': ops[:pos] + ins + [shift(list(op)) for op in ops[pos:]]}
        if not history_ok(nm):
            # the insertion made a later re-decoration inadmissible (the object it refers to is an enabled product now): keep
            # the admissible prefix
            good_len = next(k for k, r_ in enumerate(walk2(nm)) if not r_['ok'])
            nm['ops'] = nm['ops'][:max(good_len, pos + len(ins))]
        if history_ok(nm):
            cases.append(nm)
    # 4. malformed: values outside the domain, calls of objects that do not exist, targets that an enabled decorator rejects
    #    (enum, dataclass, non-function, wrong or missing docstring/annotations) while the variable is "0"
    for _ in range(max(60, n // 3)):
        kind = rng.random()
        if kind < 0.45:
            c = gen_history(rng, rng.choice([3, 6, 12, 24]), awkward_share=0.7)
            c['stream'] = 'malformed-awkward-target'
        elif kind < 0.85:
            c = gen_history(rng, rng.choice([3, 6, 12, 24]), values=(0, 1, 2, 3, 4))
            c['stream'] = 'malformed-value'
        else:
            c = gen_history(rng, rng.choice([3, 6, 12]))
            pos = rng.randrange(len(c['ops']) + 1)
            before = [r['obj'] for r in walk2(dict(c, ops=c['ops'][:pos])) if r['obj'] is not None]
            bad = [[CALL, rng.choice([7, 50, 1000])], [APPLY, rng.choice([9, 77]), 0], [REDECO, rng.choice([50, 400]), 0, 0, 0, 0],
                   [SUBDECO, 77, 0, 2, 0], [REDECO, 0, 1, 1, 99], [SUBDECO, 0, 1, 99]]
            if before:
                # a class decorator on a function, a function decorator on a class, a subclass of a function: none of them an
                # input of the statement; model, specification and worker agree that nothing happens
                i = rng.randrange(len(before))
                wrong = rng.randrange(2, 7) if before[i]['fam'] == 'fn' else rng.randrange(2)
                bad += [[REDECO, i, rng.randrange(2), 0, wrong, 0]] * 2
                bad += [[SUBDECO, i, 0, rng.randrange(2, 7) if before[i]['fam'] == 'fn' else rng.randrange(2), 0]] * 2
            c['ops'].insert(pos, rng.choice(bad))
            c['stream'] = 'malformed-index'
        c['proc'] = rng.choice(procs)
        cases.append(c)
    # 5. overlapping decorations
    cases += gen_overlap(rng, tier, scale)
    return cases


# ---------------------------------------------------------------------------------------------------------------
# OVERLAPPING decorations (stream `overlap`).  [BEGIN, d, t, u, hook, thread] ... [NEXT] ... [END]: class decorator d is applied to a
# fresh class; WHILE it is at work - in the method decorator handed to for_all_methods (hook 0) or in a descriptor of the class
# that the decorator reads (hook 1), in the same thread (thread 0), with the class decorator running in a second thread (1) or
# the interleaved operations running in a second thread (2) - the operations up to END are carried out: toggles, decorations of
# other objects, calls, further overlapping decorations.  The worker keeps the order of the list in every case, so the
# judgement needs nothing but the statement: EVERY decoration - the ones in progress and the ones made meanwhile - is
# governed by the value of the variable at the moment it is applied (for an overlapping one: when it is started), a call by
# the value at the decoration of the called object (ov_walk below; Spec/EnvOverlapSpec.v xdemand is the same thing inside Coq).
# Model: Model/EnvOverlap.v (the sequential machine plus a stack of decorations in progress; threads and the kind of hook are
# not modelled - they are dimensions of the implementation stream only), theorems C09_overlap_* in Props/C09.v.
# ---------------------------------------------------------------------------------------------------------------
OV_OUTERS = [(6, 0, 0), (6, 0, 1), (2, 0, 1), (3, 0, 1), (4, 0, 1), (5, 0, 1), (6, 1, 1), (6, 2, 1), (6, 3, 1), (6, 2, 0), (6, 3, 0), (6, 1, 0)]
ON_TOGGLES = [[SETENV, 1], [UNSETENV], [ENABLE]]
OFF_TOGGLES = [[SETENV, 0], [DISABLE]]


def is_overlap(c):
    return str(c.get('stream', '')).startswith('overlap') or any(op and op[0] in (BEGIN, NEXT, END) for op in c['ops'])


def reads_switch_per_method(d, u):
    """class decorators whose method decorator consults the switch itself for every method (pedantic flavours).
    SUSPECTED DEFECT of the unchanged library (reported, kept out of the generator): one application of pedantic_class /
    pedantic_class_require_docstring / for_all_methods(pedantic) reads the switch 1 + (number of methods) times; if the
    switch is flipped between two methods (a descriptor of the class, another thread) the class comes out HALF wrapped -
    applied while the switch was on, yet some methods impose no checks.  The generator therefore restores the
    enabled/disabled setting before it lets such a decorator go on"""
    return d in (2, 3) or (d == 6 and u == 1)


def ov_walk(c):
    """per op what the STATEMENT demands (None: nothing), plus the bookkeeping for messages and coverage"""
    env, objs, created, stack, out = c['init'], [], [], [], []
    for op in c['ops']:
        code = op[0]
        r = {'op': op, 'env': env, 'exp': None, 'open': [dict(x) for x in stack], 'ok': True, 'deco': None}
        if code in (SETENV, UNSETENV, ENABLE, DISABLE):
            if code == SETENV and op[1] not in (0, 1):
                r['ok'] = False
            env = env_after(env, op)
        elif code == DECORATE:
            r['ok'] = len(op) >= 4 and 0 <= op[1] <= 6 and op[2] in (0, 1, 2) and 0 <= op[3] <= 3
            r['exp'], r['deco'] = (1 if env == 0 else 2), op[1]
            objs.append(env)
        elif code == CREATE:
            r['ok'] = len(op) >= 3 and 0 <= op[1] <= 6 and 0 <= op[2] <= 3
            created.append((op[1], env))
        elif code == APPLY:
            if len(op) >= 3 and 0 <= op[1] < len(created) and op[2] in (0, 1, 2):
                r['exp'], r['deco'], r['c_env'] = (1 if env == 0 else 2), created[op[1]][0], created[op[1]][1]
                objs.append(env)
            else:
                r['ok'] = False
        elif code == CALL:
            if len(op) >= 2 and 0 <= op[1] < len(objs):
                r['exp'] = 4 if objs[op[1]] == 0 else 5
            else:
                r['ok'] = False
        elif code == BEGIN:
            r['ok'] = len(op) >= 6 and 2 <= op[1] <= 6 and op[2] in (0, 1, 2) and 0 <= op[3] <= 3 and op[4] in (0, 1) and op[5] in (0, 1, 2) \
                and (op[4] == 1 or op[1] == 6) and len(stack) < 3
            stack.append({'env': env, 'd': op[1], 'u': op[3] if len(op) > 3 else 0, 'hook': op[4] if len(op) > 4 else 1,
                          'thread': op[5] if len(op) > 5 else 0})
        elif code in (NEXT, END):
            if not stack:
                r['ok'] = False
            else:
                top = stack[-1]
                if reads_switch_per_method(top['d'], top['u']) and (env == 0) != (top['env'] == 0):
                    r['ok'] = False                 # see reads_switch_per_method
                if code == END:
                    stack.pop()
                    r['exp'], r['deco'], r['begin'] = (1 if top['env'] == 0 else 2), top['d'], top
                    objs.append(top['env'])
        else:
            r['ok'] = False
        out.append(r)
    if stack:
        out[-1]['ok'] = False                       # an overlapping decoration that never ends
    return out


def overlap_ok(c):
    return c['init'] in (UNSET, 0, 1) and bool(c['ops']) and all(r['ok'] for r in ov_walk(c))


def ov_features(c):
    """(decorations applied while another decoration is in progress, those among them whose setting differs from the setting the
    decoration in progress was started under [started on / now off, started off / now on], overlapping decorations, threads used)"""
    inner = n_outer = 0
    flipped = [0, 0]
    threads = set()
    for r in ov_walk(c):
        if r['op'][0] == BEGIN:
            n_outer += 1
            threads.add(r['op'][5])
        if r['exp'] in (1, 2) and r['open'] and r['op'][0] in (DECORATE, APPLY, END):
            inner += 1
            if any((o['env'] == 0) != (r['env'] == 0) for o in r['open']) and r['op'][0] != END:
                flipped[0 if r['env'] == 0 else 1] += 1
    return inner, flipped, n_outer, threads


def gen_overlap_ops(rng, st, length, depth, restore_to=None):
    """operations carried out while (depth > 0) or around (depth 0) an overlapping decoration; st: env, n_obj, created"""
    ops = []
    for _ in range(length):
        r = rng.random()
        if r < 0.38:
            op = rng.choice(TOGGLES)
            ops.append(op)
            st['env'] = env_after(st['env'], op)
        elif r < 0.66:
            d = rng.randrange(7)
            ops.append([DECORATE, d, rng.choice([0, 0, 1, 2]), rng.randrange(4) if d == 6 else 0])
            st['n_obj'] += 1
        elif r < 0.74:
            ops.append([CREATE, rng.randrange(7), rng.randrange(4)])
            st['created'] += 1
        elif r < 0.80 and st['created']:
            ops.append([APPLY, rng.randrange(st['created']), rng.choice([0, 1, 2])])
            st['n_obj'] += 1
        elif r < 0.90 and st['n_obj']:
            ops.append([CALL, rng.randrange(st['n_obj'])])
        elif depth < 2:
            ops += gen_outer(rng, st, depth)
    if restore_to is not None and (st['env'] == 0) != (restore_to == 0):
        op = rng.choice(OFF_TOGGLES if restore_to == 0 else ON_TOGGLES)
        ops.append(op)
        st['env'] = env_after(st['env'], op)
    return ops


def gen_outer(rng, st, depth):
    d, u, hook = rng.choice(OV_OUTERS)
    begin_env = st['env']
    ops = [[BEGIN, d, rng.choice([0, 0, 1, 2]), u, hook, rng.randrange(3)]]
    restore = begin_env if reads_switch_per_method(d, u) else None
    for j in range(rng.choice([1, 1, 2, 3])):
        if j:
            ops.append([NEXT])
        if rng.random() < (0.75 if j == 0 else 0.3):
            # the point of the stream: flip the switch (by any means) and apply a decorator before the class decorator goes on
            op = rng.choice(ON_TOGGLES if st['env'] == 0 else OFF_TOGGLES)
            d2 = rng.randrange(7)
            ops += [op, [DECORATE, d2, rng.choice([0, 0, 1, 2]), rng.randrange(4) if d2 == 6 else 0]]
            st['env'] = env_after(st['env'], op)
            st['n_obj'] += 1
        ops += gen_overlap_ops(rng, st, rng.choice([1, 2, 3, 4]), depth + 1, restore)
    ops.append([END])
    st['n_obj'] += 1
    return ops


def gen_overlap_case(rng):
    init = rng.choice([UNSET, 0, 1])
    st = {'env': init, 'n_obj': 0, 'created': 0}
    ops = gen_overlap_ops(rng, st, rng.choice([0, 1, 2]), 0)
    if st['env'] == 0 and rng.random() < 0.8:       # nothing overlaps with a decoration that is started disabled
        op = rng.choice(ON_TOGGLES)
        ops.append(op)
        st['env'] = env_after(st['env'], op)
    ops += gen_outer(rng, st, 0)
    ops += gen_overlap_ops(rng, st, rng.choice([0, 1, 2]), 0)
    k = list(range(st['n_obj']))
    rng.shuffle(k)
    ops += [[CALL, i] for i in k[:6]]
    if rng.random() < 0.5:
        ops += [rng.choice(TOGGLES)] + [[CALL, i] for i in k[:3]]
    return {'init': init, 'ops': ops}


def gen_overlap(rng, tier, scale):
    cases = []
    # small scope: start enabled (by each means) x overlapping class decoration (each kind, hook, threading) x switch off inside
    # (by each means) x one of the seven decorators applied meanwhile x (setting restored / left) - and the mirror image
    for outer in OV_OUTERS:
        for thread in (0, 1, 2):
            for on in ON_TOGGLES + [None]:
                for off in OFF_TOGGLES:
                    for d2 in range(7):
                        if rng.random() > (0.11 if tier == 'quick' else 1.0):
                            continue
                        d, u, hook = outer
                        init = rng.choice([UNSET, 1]) if on is None else rng.choice([UNSET, 0, 1])
                        t2, u2 = rng.choice([0, 1, 2]), (rng.randrange(4) if d2 == 6 else 0)
                        back = rng.choice(ON_TOGGLES)
                        ops = ([on] if on else []) + [[BEGIN, d, rng.choice([0, 1, 2]), u, hook, thread], off, [DECORATE, d2, t2, u2], back]
                        if rng.random() < 0.5:
                            ops += [[NEXT], [DECORATE, d2, t2, u2]]
                        ops += [[END], [CALL, 0], [CALL, len([o for o in ops if o[0] == DECORATE])], rng.choice(TOGGLES), [CALL, 0]]
                        cases.append({'stream': 'overlap-small-scope', 'proc': rng.choice([UNSET, 0, 1]), 'init': init, 'ops': ops})
    for _ in range((220 if tier == 'quick' else 6000) * scale):
        c = gen_overlap_case(rng)
        c.update(stream='overlap', proc=rng.choice([UNSET, 0, 1]))
        cases.append(c)
    bad = [c for c in cases if not overlap_ok(c)]
    assert not bad, bad[0]
    return cases


def judge_overlap(c, impl, model=None):
    """-> (correspondence_ok, property_ok, what).  Property: the implementation against the statement (ov_walk; the same
    demands evaluated inside Coq, Spec/EnvOverlapSpec.v xdemand, must agree with them).  Correspondence: the implementation
    against the extended machine Model/EnvOverlap.v.  When the model is not available (a translator refused the source) the
    property is still judged"""
    if impl is None or 'error' in impl:
        return False, True, f'implementation worker failed: {impl}'
    io_ = impl['obs']
    if len(io_) != len(c['ops']) or 8 in io_:
        return False, True, f'harness problem: {impl.get("details")}'
    mo, sp = split_model(model)
    walked = ov_walk(c)
    corr = mo is not None and io_ == mo and len(sp) == len(walked) and \
        all(d == (r['exp'] if r['op'][0] in (DECORATE, END) and r['exp'] in (1, 2) else 9) for d, r in zip(sp, walked))
    what = []
    for k, r in enumerate(walked):
        if r['exp'] is None or io_[k] == r['exp']:
            continue
        op = r['op']
        val = lambda v: VALNAME.get(v, v)
        where = ''
        if r['open'] and op[0] != CALL:
            o = r['open'][-1]
            who = {0: 'in the same thread', 1: 'in a second thread', 2: 'in the main thread while this happened in a second thread'}[o['thread']]
            where = f' - applied while the decoration of a class by {DNAMES[o["d"]]}, started while the variable was {val(o["env"])}, ' \
                    f'was still in progress {who} ({"inside the method decorator handed to for_all_methods" if o["hook"] == 0 else "inside a descriptor of that class"})'
        if op[0] == DECORATE:
            subject = f'{DNAMES[op[1]]} (target kind {op[2]}) applied while the variable is {val(r["env"])}{where}'
        elif op[0] == APPLY:
            subject = f'decorator object #{op[1]} = {DNAMES[r["deco"]]} created while the variable was {val(r["c_env"])}, applied while it is ' \
                      f'{val(r["env"])} (target kind {op[2]}){where}'
        elif op[0] == END:
            b = r['begin']
            subject = f'overlapping decoration by {DNAMES[b["d"]]} started while the variable was {val(b["env"])}{where}'
        else:
            subject = f'object #{op[1]}'
        det = impl.get('details', {}).get(str(k))
        what.append(f'op {k} {subject}: observed "{OBS.get(io_[k], io_[k])}", the statement demands "{OBS.get(r["exp"], r["exp"])}"'
                    f'{" " + str(det) if det else ""}')
        break
    reads = impl.get('call_reads', [])
    if reads and not what:
        what.append(f'the switch was read while a decorated object was being called (op {reads[0]})')
    return corr, not what, '; '.join(what) if what else ('' if corr else f'model/spec in Coq: {mo} / {sp}')


def ov_without(c, p):
    """the history without op p (an overlapping decoration goes as a whole: BEGIN, its NEXTs and its END; what was inside
    stays) and without the calls / applications that refer to what it made; references renumbered"""
    ops = c['ops']
    drop = {p}
    if ops[p][0] == END:
        return None
    if ops[p][0] == BEGIN:
        depth = 0
        for q in range(p + 1, len(ops)):
            code = ops[q][0]
            if code == BEGIN:
                depth += 1
            elif code == NEXT and depth == 0:
                drop.add(q)
            elif code == END:
                if depth == 0:
                    drop.add(q)
                    break
                depth -= 1
    obj_map, deco_map, new_ops = {}, {}, []
    n_obj = n_deco = 0
    for q, r in enumerate(ov_walk(c)):
        op = list(r['op'])
        gone = q in drop
        if op[0] == CALL and r['exp'] is not None:
            if obj_map.get(op[1]) is None:
                gone = True
            else:
                op[1] = obj_map[op[1]]
        if op[0] == APPLY and r['exp'] is not None:
            if deco_map.get(op[1]) is None:
                gone = True
            else:
                op[1] = deco_map[op[1]]
        if r['exp'] in (1, 2):
            obj_map[len(obj_map)] = None if gone else n_obj
            n_obj += not gone
        if op[0] == CREATE:
            deco_map[len(deco_map)] = None if gone else n_deco
            n_deco += not gone
        if not gone:
            new_ops.append(op)
    return dict(c, ops=new_ops)


def ov_drop_candidates(c):
    out = [ov_without(c, p) for p in range(len(c['ops']))]
    if c['init'] != UNSET:
        out.append(dict(c, init=UNSET))
    if c.get('proc', UNSET) != UNSET:
        out.append(dict(c, proc=UNSET))
    for p, op in enumerate(c['ops']):
        if op[0] == BEGIN and op[5] != 0:           # the same without the second thread
            out.append(dict(c, ops=c['ops'][:p] + [op[:5] + [0]] + c['ops'][p + 1:]))
    return [x for x in out if x is not None and overlap_ok(x)]



def coq_case(c):
    ops = coq_list([coq_list([coq_Z(x) for x in op]) for op in c['ops']])
    return f'{"eval_xcase" if is_overlap(c) else "eval_case"} {coq_Z(c["init"])} {ops}'


def split_model(m):
    if m is None or -1 not in m:
        return None, None
    k = m.index(-1)
    return m[:k], m[k + 1:]


def judge(c, impl, model):
    """-> (correspondence_ok, property_ok, what)"""
    if is_overlap(c):
        return judge_overlap(c, impl, model)
    if impl is None or 'error' in impl:
        return False, True, f'implementation worker failed: {impl}'
    mo, sp = split_model(model)
    if mo is None:
        return False, True, 'model evaluation failed'
    io_ = impl['obs']
    corr = io_ == mo
    what = []
    dom = in_domain_prefix(c)
    info = None
    for k in range(min(dom, len(io_), len(sp))):
        if sp[k] == 9:                          # the statement leaves it open (see Spec/EnvSpec.v): compared with the model only
            continue
        if io_[k] != sp[k]:
            op = c['ops'][k]
            info = info or walk2(c)
            r = info[k]
            dn = DNAMES[r['d']] if r['d'] is not None else '?'
            how = f'decorator object #{op[4] if op[0] == REDECO else op[3]} = {dn} created while the variable was {VALNAME.get(r["c_env"], r["c_env"])}' \
                if op[0] in (REDECO, SUBDECO) and (op[3] if op[0] == REDECO else op[2]) == 1 else dn
            if op[0] == DECORATE:
                subject = f'{DNAMES[op[1]]} (target kind {op[2]})'
            elif op[0] == APPLY:
                subject = f'decorator object #{op[1]} = {dn} created while the variable was {VALNAME.get(r["c_env"], r["c_env"])}, ' \
                          f'applied while it is {VALNAME.get(r["env"], r["env"])} (target kind {op[2]})'
            elif op[0] == CREATE:
                subject = f'creation of a {DNAMES[op[1]]} decorator object'
            elif op[0] == REDECO and r['src'] is not None:
                subject = f'{how} applied, while the variable is {VALNAME.get(r["env"], r["env"])}, to the object that was ' \
                          f'{"returned by" if op[2] else "given to"} the decorator of object #{op[1]} (decorated while the variable was ' \
                          f'{VALNAME.get(r["src"]["env"], r["src"]["env"])}; target kind {r["src"]["t"]})'
            elif op[0] == SUBDECO and r['src'] is not None:
                subject = f'{how} applied, while the variable is {VALNAME.get(r["env"], r["env"])}, to a fresh subclass of object ' \
                          f'#{op[1]} (a class decorated while the variable was {VALNAME.get(r["src"]["env"], r["src"]["env"])}; target kind {r["src"]["t"]})'
            else:
                subject = f'object #{op[1]}'
            what.append(f'op {k} {subject}: observed "{OBS.get(io_[k], io_[k])}", the statement demands "{OBS.get(sp[k], sp[k])}"'
                        f'{" " + str(impl.get("details", {}).get(str(k), "")) if impl.get("details", {}).get(str(k)) else ""}')
            break
    reads = impl.get('call_reads', [])
    if reads and not what:
        what.append(f'the switch was read while a decorated object was being called (op {reads[0]})')
    creads = impl.get('create_reads', [])
    if creads and not what:
        what.append(f'the switch was read when the decorator object was created, before it was applied to anything (op {creads[0]})')
    return corr, not what, '; '.join(what)


def vclass(what):
    """coarse class of a violation message: which kind of operation, what was observed, what is demanded"""
    m = re.search(r'observed "([^"]*)", the statement demands "([^"]*)"', what)
    if not m:
        return what[:60]
    kind = 'overlap' if 'was still in progress' in what else 'again' if 'to the object that was' in what else 'subclass' if 'to a fresh subclass' in what else \
        'apply' if 'decorator object #' in what else 'create' if 'creation of' in what else 'call' if ' object #' in what else 'decorate'
    return f'{kind}: {m.group(1)} / {m.group(2)}'


# ---------------------------------------------------------------------------------------------------------------
# shrinking: drop operations while the violation persists (batches through the same worker and the same Coq evaluation)
# ---------------------------------------------------------------------------------------------------------------
def without(c, p):
    """the history without op p and without everything that refers to what op p made (calls / re-decorations / subclasses of
    its object, applications of its decorator object, and so on transitively); the remaining references are renumbered"""
    obj_map, deco_map, new_ops = {}, {}, []
    n_obj = n_deco = 0
    for q, r in enumerate(walk2(c)):
        op = list(r['op'])
        code = op[0]
        drop = q == p
        if code in (CALL, REDECO, SUBDECO) and len(op) > 1 and op[1] in obj_map:
            if obj_map[op[1]] is None:
                drop = True
            else:
                op[1] = obj_map[op[1]]
        if code == APPLY and op[1] in deco_map:
            if deco_map[op[1]] is None:
                drop = True
            else:
                op[1] = deco_map[op[1]]
        if code in (REDECO, SUBDECO):
            ki, xi = (3, 4) if code == REDECO else (2, 3)
            if len(op) > xi and op[ki] == 1 and op[xi] in deco_map:
                if deco_map[op[xi]] is None:
                    drop = True
                else:
                    op[xi] = deco_map[op[xi]]
        if r['d'] is not None:
            obj_map[r['n_obj']] = None if drop else n_obj
            n_obj += not drop
        if code == CREATE:
            deco_map[r['n_created']] = None if drop else n_deco
            n_deco += not drop
        if not drop:
            new_ops.append(op)
    return dict(c, ops=new_ops)


def drop_candidates(c):
    out = [without(c, p) for p in range(len(c['ops']))]
    if c['init'] != UNSET:
        out.append(dict(c, init=UNSET))
    if c.get('proc', UNSET) != UNSET:
        out.append(dict(c, proc=UNSET))
    return [x for x in out if history_ok(x)]


def evaluate(ck, cases):
    impl = [None] * len(cases)
    for proc in (UNSET, 0, 1):
        idx = [i for i, c in enumerate(cases) if c.get('proc', UNSET) == proc]
        if not idx:
            continue
        res = ck.run_impl('w_env', [cases[i] for i in idx], timeout=900,
                          env=None if proc == UNSET else {'ENABLE_PEDANTIC': str(proc)})
        for i, r in zip(idx, res):
            impl[i] = r
    model = ck.coq_eval(PRE, [coq_case(c) for c in cases]) if ck.model_ok else [None] * len(cases)
    return impl, model


def shrink(ck, c, cls, rounds=12):
    """the shrunk case must still violate the statement in the same way (same class of message)"""
    for _ in range(rounds):
        cands = ov_drop_candidates(c) if is_overlap(c) else drop_candidates(c)
        if not cands:
            break
        impl, model = evaluate(ck, cands)
        failing = [x for x, i, m in zip(cands, impl, model) if i is not None and 'error' not in i and (m is not None or is_overlap(x))
                   and not judge(x, i, m)[1] and vclass(judge(x, i, m)[2]) == cls]
        if not failing:
            break
        c = min(failing, key=lambda x: (len(x['ops']), x['init'] != UNSET))
    return c


# ---------------------------------------------------------------------------------------------------------------
# independent token-level scan (second implementation of the cross reference of DESIGN 6 C09; the first one is the list
# env_refs in Gen/Env.v, judged in Coq by C09_model_good / C09_cross_reference)
# ---------------------------------------------------------------------------------------------------------------
WATCH = {'is_enabled', 'enable_pedantic', 'disable_pedantic', 'ENVIRONMENT_VARIABLE_NAME', 'environ', 'environb', 'getenv',
         'getenvb', 'putenv', 'unsetenv', 'posix'}


def token_scan():
    """every NAME/STRING token that can reach the switch, outside env_var_logic.py, tests/ and examples/, with the logical
    line it stands in; returns (unexpected, guards)"""
    base = os.path.join(REPO, 'pedantic')
    allowed_lines = {
        'if not is_enabled():': 'guard',
        'return self._env_var_name in os.environ': 'foreign',
        'return os.environ[self._env_var_name].strip()': 'foreign',
    }
    unexpected, guards = [], []
    for d, dirs, files in os.walk(base):
        dirs[:] = sorted(x for x in dirs if x not in ('tests', 'examples', '__pycache__'))
        for fn in sorted(files):
            if not fn.endswith('.py'):
                continue
            path = os.path.join(d, fn)
            rel = os.path.relpath(path, REPO)
            if rel == 'pedantic/env_var_logic.py':
                continue
            try:
                toks = list(tokenize.generate_tokens(io.StringIO(open(path, encoding='utf-8').read()).readline))
            except (tokenize.TokenError, SyntaxError, UnicodeDecodeError) as ex:
                unexpected.append(f'{rel}: cannot be tokenised: {ex}')
                continue
            for t in toks:
                hit = (t.type == tokenize.NAME and t.string in WATCH) or \
                      (t.type == tokenize.STRING and re.search(r'ENABLE_PEDANTIC|[\'"](environ|getenv|is_enabled)[\'"]', t.string))
                if not hit:
                    continue
                line = ' '.join(t.line.split())
                if re.match(r'(from\s+[\w.]+\s+import\s|import\s)', line) and ' as ' not in line and t.string != 'posix' \
                        and t.string not in ('environ', 'getenv', 'putenv', 'unsetenv', 'environb', 'getenvb'):
                    continue                                  # plain import of the names
                kind = allowed_lines.get(line)
                if kind == 'guard':
                    guards.append(f'{rel}:{t.start[0]}')
                elif kind == 'foreign' and rel.endswith('environment_variable_parameter.py'):
                    pass
                elif t.type == tokenize.NAME and t.string in ('is_enabled', 'enable_pedantic', 'disable_pedantic') \
                        and rel in ('pedantic/__init__.py',) and re.match(r'[\w\s,\\()]+$', line):
                    pass                                      # continuation line of the import list in __init__.py
                else:
                    unexpected.append(f'{rel}:{t.start[0]}: {line[:120]}')
    return unexpected, guards


def run(tier, seed, replay=None):
    ck = Check('C09', tier, seed, UNITS, MODEL, PROPS)
    ck.prepare()
    ck.replay_known_findings(lambda f: False)
    # cross reference, second implementation
    unexpected, guards = token_scan()
    ok = not unexpected and sorted(g.split(':')[0] for g in guards) == ['pedantic/decorators/class_decorators.py',
                                                                        'pedantic/decorators/fn_deco_pedantic.py']
    ck.oblige('xref:token-scan', 'translation', ok,
              ('unexpected references to the switch: ' + '; '.join(unexpected[:6]) if unexpected else f'guards found at {guards}')
              if not ok else f'only the two decoration-time guards read the switch: {guards}')
    try:
        gen = open(os.path.join(COQ, 'Gen', 'Env.v'), encoding='utf-8').read()
        n_calls = len(re.findall(r'er_kind := RIsEnabledCall', gen))
        ck.oblige('xref:scans-agree', 'translation', n_calls == len(guards),
                  f'Gen/Env.v lists {n_calls} calls of is_enabled outside env_var_logic.py, the token scan {len(guards)} guards')
    except OSError as ex:
        ck.oblige('xref:scans-agree', 'translation', False, repr(ex))

    if replay is not None:
        cases = [dict(replay['case'])] if replay.get('case') else []
    else:
        cases = gen_cases(ck.rng, tier, ck.scale())
    for c in cases:
        c.setdefault('proc', UNSET)
        c.setdefault('stream', 'replay')
    impl, model = evaluate(ck, cases)
    hist = {'streams': {}, 'decorators': {n: 0 for n in DNAMES}, 'targets': {}, 'observations': {}, 'proc_start': {},
            'lengths': {}, 'toggle_kinds': {}, 'created_decorator_objects': {n: 0 for n in DNAMES},
            'applied_decorator_objects': {n: 0 for n in DNAMES}, 'split_create_enabled_apply_disabled': 0,
            'split_create_disabled_apply_enabled': 0,
            'decorated_again': {'given_object': 0, 'returned_object': 0, 'with_kept_decorator_object': 0,
                                'first_enabled_then_disabled': 0, 'first_disabled_then_enabled': 0, 'same_setting': 0},
            'subclass_decorated': {'with_kept_decorator_object': 0, 'base_enabled_subclass_disabled': 0,
                                   'base_disabled_subclass_enabled': 0, 'same_setting': 0, 'base_is_itself_a_subclass': 0},
            'not_an_input_nothing_happens': 0,
            'overlap': {'cases': 0, 'overlapping_decorations': 0, 'nested': 0, 'by_class_decorator': {n: 0 for n in DNAMES[2:]},
                        'hook_in_method_decorator': 0, 'hook_in_descriptor': 0, 'one_thread': 0, 'class_decorator_in_second_thread': 0,
                        'interleaved_operations_in_second_thread': 0, 'started_disabled': 0,
                        'decorations_made_meanwhile': {n: 0 for n in DNAMES},
                        'meanwhile_started_on_now_off': 0, 'meanwhile_started_off_now_on': 0, 'toggles_meanwhile': 0, 'calls_meanwhile': 0}}
    disagreements = {}
    max_len = 0
    n_wit = n_split = split_cases = again_cases = sub_cases = n_seq = ov_flipped_cases = seq_nontrivial = 0
    for c, i, m in zip(cases, impl, model):
        st = c['stream']
        if is_overlap(c):
            hist['streams'][st] = hist['streams'].get(st, 0) + 1
            hist['proc_start'][str(c['proc'])] = hist['proc_start'].get(str(c['proc']), 0) + 1
            ho = hist['overlap']
            ho['cases'] += 1
            max_len = max(max_len, len(c['ops']))
            for r in ov_walk(c):
                op = r['op']
                if op[0] == BEGIN:
                    ho['overlapping_decorations'] += 1
                    ho['nested'] += bool(r['open'])
                    ho['by_class_decorator'][DNAMES[op[1]]] += 1
                    ho['hook_in_descriptor' if op[4] else 'hook_in_method_decorator'] += 1
                    ho[['one_thread', 'class_decorator_in_second_thread', 'interleaved_operations_in_second_thread'][op[5]]] += 1
                    ho['started_disabled'] += r['env'] == 0
                elif r['open']:
                    if op[0] in (DECORATE, APPLY) and r['deco'] is not None:
                        ho['decorations_made_meanwhile'][DNAMES[r['deco']]] += 1
                    elif op[0] == CALL:
                        ho['calls_meanwhile'] += 1
                    elif op[0] in (SETENV, UNSETENV, ENABLE, DISABLE):
                        ho['toggles_meanwhile'] += 1
            if i and 'obs' in i:
                for o in i['obs']:
                    hist['observations'][OBS.get(o, str(o))] = hist['observations'].get(OBS.get(o, str(o)), 0) + 1
            inner, flipped, n_outer, threads = ov_features(c)
            ho['meanwhile_started_on_now_off'] += flipped[0]
            ho['meanwhile_started_off_now_on'] += flipped[1]
            ov_flipped_cases += sum(flipped) >= 1
            ck.note_case(json.dumps([c['proc'], c['init'], c['ops']]), nontrivial=sum(flipped) >= 1)
            corr, prop, what = judge(c, i, m)
            if corr and prop:
                ck.traces_validated += 1
            if not prop:
                ck.violation(what, {k: c[k] for k in ('proc', 'init', 'ops', 'stream')}, stream=c['stream'],
                             extra={'impl': i, 'model': m, 'class': vclass(what)})
            elif not corr:
                disagreements.setdefault(st, []).append({'case': c, 'impl': i, 'model': m, 'what': what})
            continue
        n_seq += 1
        hist['streams'][st] = hist['streams'].get(st, 0) + 1
        hist['proc_start'][str(c['proc'])] = hist['proc_start'].get(str(c['proc']), 0) + 1
        b = min(len(c['ops']) // 10 * 10, 200)
        hist['lengths'][f'{b}+'] = hist['lengths'].get(f'{b}+', 0) + 1
        max_len = max(max_len, len(c['ops']))
        for r in walk2(c):
            op, env, n_obj, n_created, d, c_env = r['op'], r['env'], r['n_obj'], r['n_created'], r['d'], r['c_env']
            if op[0] in (REDECO, SUBDECO):
                if d is None:
                    hist['not_an_input_nothing_happens'] += 1
                    continue
                hist['decorators'][DNAMES[d]] += 1
                hh = hist['decorated_again' if op[0] == REDECO else 'subclass_decorated']
                if (op[3] if op[0] == REDECO else op[2]) == 1:
                    hh['with_kept_decorator_object'] += 1
                was, now = r['src']['env'] == 0, env == 0
                if op[0] == REDECO:
                    hh['returned_object' if op[2] else 'given_object'] += 1
                    hh['same_setting' if was == now else 'first_enabled_then_disabled' if now else 'first_disabled_then_enabled'] += 1
                else:
                    hh['same_setting' if was == now else 'base_enabled_subclass_disabled' if now else 'base_disabled_subclass_enabled'] += 1
                    hh['base_is_itself_a_subclass'] += bool(r['src']['sub'])
            elif op[0] == DECORATE:
                hist['decorators'][DNAMES[op[1]]] += 1
                hist['targets'][str(op[2])] = hist['targets'].get(str(op[2]), 0) + 1
            elif op[0] == CREATE:
                hist['created_decorator_objects'][DNAMES[op[1]]] += 1
            elif op[0] == APPLY:
                if d is not None:
                    hist['applied_decorator_objects'][DNAMES[d]] += 1
                    hist['targets'][str(op[2])] = hist['targets'].get(str(op[2]), 0) + 1
                    if (c_env == 0) != (env == 0):
                        hist['split_create_disabled_apply_enabled' if c_env == 0 else 'split_create_enabled_apply_disabled'] += 1
            elif op[0] != CALL:
                k = ['setenv', 'unsetenv', 'enable_pedantic()', 'disable_pedantic()'][op[0]]
                hist['toggle_kinds'][k] = hist['toggle_kinds'].get(k, 0) + 1
        if i and 'obs' in i:
            for o in i['obs']:
                hist['observations'][OBS.get(o, str(o))] = hist['observations'].get(OBS.get(o, str(o)), 0) + 1
        n_dec, n_call, wit, split, again, sub = features(c)
        n_wit += wit
        n_split += split
        split_cases += split >= 1
        again_cases += sum(again) >= 1
        sub_cases += sum(sub) >= 1
        ck.note_case(json.dumps([c['proc'], c['init'], c['ops']]), nontrivial=wit >= 1 or split >= 1 or sum(again) >= 1 or sum(sub) >= 1)
        seq_nontrivial += wit >= 1 or split >= 1 or sum(again) >= 1 or sum(sub) >= 1
        corr, prop, what = judge(c, i, m)
        if corr and prop:
            ck.traces_validated += 1
        if not prop:
            ck.violation(what, {k: c[k] for k in ('proc', 'init', 'ops', 'stream')}, stream=c['stream'],
                         extra={'impl': i, 'model': m, 'class': vclass(what)})
        elif not corr:
            disagreements.setdefault(st, []).append({'case': c, 'impl': i, 'model': split_model(m)[0], 'what': what})
    # smallest first, then shrink the smallest
    ck.violations.sort(key=lambda v: (len(v['case']['ops']), v['case']['init'] != UNSET, v['case']['proc'] != UNSET))
    if ck.violations and replay is None:
        # shrink the (at most three) violations that ck.finish will report: first of each distinct message class
        seen = set()
        for v in ck.violations:
            key = v['class']
            if key in seen or len(seen) >= 3:
                continue
            seen.add(key)
            small = shrink(ck, dict(v['case']), key)
            if small != v['case']:
                i2, m2 = evaluate(ck, [small])
                c2, p2, w2 = judge(small, i2[0], m2[0])
                if not p2 and vclass(w2) == key:
                    v.update(case=small, what=w2, impl=i2[0], model=m2[0], shrunk_from=len(v['case']['ops']))
    streams = sorted(set(hist['streams']) | set(disagreements))
    for st in (['env-history'] if not streams else streams):
        ds = disagreements.get(st, [])
        ck.oblige(f'correspondence:env-history/{st}', 'correspondence', not ds,
                  json.dumps(min(ds, key=lambda x: len(x['case']['ops'])), default=str)[:1500] if ds
                  else f'{hist["streams"].get(st, 0)} histories agree')
    if replay is None:
        share = seq_nontrivial / max(1, n_seq)           # shares of the sequential histories (all streams but `overlap`)
        sshare = split_cases / max(1, n_seq)
        ashare = again_cases / max(1, n_seq)
        bshare = sub_cases / max(1, n_seq)
        ho = hist['overlap']
        oshare = ov_flipped_cases / max(1, ho['cases'])
        ck.oblige('generator:overlap-non-degenerate', 'correspondence',
                  oshare >= 0.6 and ho['cases'] >= 150 and all(v > 0 for v in ho['by_class_decorator'].values())
                  and all(v > 0 for v in ho['decorations_made_meanwhile'].values())
                  and all(ho[k] > 0 for k in ('hook_in_method_decorator', 'hook_in_descriptor', 'one_thread', 'class_decorator_in_second_thread',
                                              'interleaved_operations_in_second_thread', 'nested', 'started_disabled',
                                              'meanwhile_started_on_now_off', 'meanwhile_started_off_now_on', 'calls_meanwhile')),
                  f'{oshare:.2f} of the {ho["cases"]} overlap histories apply a decorator while a class decoration that was started under '
                  f'the opposite setting of the switch is still in progress: {ho}')
        ck.oblige('generator:non-degenerate', 'correspondence',
                  share >= 0.4 and sshare >= 0.12 and all(v > 0 for v in hist['decorators'].values())
                  and all(v > 0 for v in hist['applied_decorator_objects'].values())
                  and hist['split_create_enabled_apply_disabled'] > 0 and hist['split_create_disabled_apply_enabled'] > 0
                  and ashare >= 0.08 and bshare >= 0.05
                  and all(hist['decorated_again'][k] > 0 for k in ('given_object', 'returned_object', 'with_kept_decorator_object',
                                                                   'first_enabled_then_disabled', 'first_disabled_then_enabled'))
                  and all(hist['subclass_decorated'][k] > 0 for k in ('base_enabled_subclass_disabled', 'base_disabled_subclass_enabled',
                                                                      'with_kept_decorator_object')),
                  f'{ashare:.2f} of the histories decorate an object again after the switch flipped since its earlier decoration '
                  f'({hist["decorated_again"]}), {bshare:.2f} decorate a subclass after the switch flipped since the decoration of its '
                  f'base class ({hist["subclass_decorated"]}); '
                  f'{share:.2f} of the histories call an object after the switch flipped since its decoration or apply a decorator '
                  f'object after the switch flipped since its creation ({sshare:.2f} the latter: '
                  f'{hist["split_create_enabled_apply_disabled"]} applications created-enabled/applied-disabled, '
                  f'{hist["split_create_disabled_apply_enabled"]} created-disabled/applied-enabled); decorators {hist["decorators"]}; '
                  f'applied decorator objects {hist["applied_decorator_objects"]}')
    ck.coverage.update({'distribution': hist, 'max_history_length': max_len, 'inert_toggle_witnesses': n_wit, 'create_toggle_apply_witnesses': n_split,
                        'histories_with_decorate_toggle_decorate_again': again_cases, 'histories_with_base_toggle_subclass': sub_cases,
                        'disagreements': sum(len(v) for v in disagreements.values())})
    zipped = list(zip(cases, impl, model))
    ck.samples = [{'case': c, 'impl': i, 'model_then_spec': m} for c, i, m in zipped[:2] + zipped[len(zipped) // 2:len(zipped) // 2 + 2] + zipped[-2:]]
    ck.assumptions = [
        'object identity is observed as `result is argument` plus identity of every entry of the object\'s own __dict__ before/after',
        '"checks" is observed per decorator: pedantic flavours raise a PedanticException on a positional and on an ill-typed call, '
        'trace/timer print their line, for_all_methods(custom) runs the custom wrapper; a conforming keyword call returns in all cases',
        'the worker additionally counts reads of os.environ["ENABLE_PEDANTIC"] while a decorated object is being called and while a '
        'decorator object is being created without being applied (both must be 0)',
        'decorator objects: for_all_methods(inner), pedantic(), pedantic(require_docstring=False), pedantic_require_docstring(); for '
        'pedantic_class / pedantic_class_require_docstring / trace_class / timer_class, which cannot be split, the function object itself',
        'decorated again / subclass: "the very object, unmodified" additionally requires that the namespace of NO other object that went '
        'through a decorator (base classes included) changed; for a class the methods it defines itself are called, and for a subclass made '
        'by op 9 the inherited method must behave as on an instance of the base class; the marks a checking class may show are those of '
        'every decorator ever applied to that very class object',
        'what the object GIVEN to an enabled decorator does afterwards is left open by the statement (specification: OUnspec, code 9): such '
        'calls are compared with the model only; an enabled decorator applied to the product of an enabled decorator (pedantic rejects its '
        'own wrappers, a class decorated twice trips over the installed hook) is not generated, like the other targets enabled decorators reject',
        'values of the variable outside {unset,"0","1"} are compared with the model only (outside the statement)',
        'stream overlap (implementation against the statement and against Model/EnvOverlap.v, which knows decorations in progress but neither threads nor the kind of hook): a class decorator is at work '
        '(hooks: the method decorator handed to for_all_methods / descriptors of the class that getattr(cls, name) reads; same thread, class '
        'decorator in a second thread, interleaved operations in a second thread; threads hand over explicitly, so the order of the '
        'operations is the order of the list) while the switch is toggled and other objects are decorated and called: every decoration is '
        'judged by the value of the variable at the moment it is applied (the overlapping one: when it is started)',
        'overlap: while a class decorator whose method decorator consults the switch itself per method (pedantic_class, '
        'pedantic_class_require_docstring, for_all_methods(pedantic)) is at work, the generator restores the enabled/disabled setting before '
        'the decorator goes on - the statement does not say what a class is whose methods were wrapped under different settings']
    return ck.finish(
        rule='env-history: exhaustive small scope (start value of the process x initial value x toggle x 7 decorators x toggle, called before '
             'and after; the same with the decorator object created, the switch toggled, and the object applied - twice; the same with '
             'the decorated object (what was given / what came back) decorated AGAIN after the toggle, directly or with a kept decorator '
             'object; the same with a fresh SUBCLASS of the decorated class decorated after the toggle, then the base class decorated again '
             'and a second subclass) + random '
             'in-domain histories (decorate in one go / create / apply / decorate again / decorate a subclass / call / toggle) + near-miss '
             '(flip the switch right after / right before a decoration, between creation and application of a decorator object, between '
             'two decorations of the same object, between the decoration of a class and of its subclass, by every means) + '
             'malformed (values outside the domain, dangling indices, a class decorator on a function and vice versa, targets an enabled '
             'decorator rejects while disabled) + overlap (operations carried out WHILE a class decorator is at work, re-entrant and from a '
             'second thread, nested up to depth 3); '
             'distinct = (process start value, initial value, operations); non-trivial = an object is called after the switch changed '
             'between enabled and disabled since its decoration, a decorator object is applied after such a change since its creation, '
             'an object is decorated again / a subclass is decorated after such a change since the (base) object was decorated',
        checker_cmd='make -C coq Props/C09.vo && coqc -Q coq PV coq/Props/C09.v (Print Assumptions under every theorem)',
        trusted_base=['Coq 8.16.1 kernel (coqc; vm_compute for model evaluation and `good`)',
                      'translator/t_env.py (Python ast -> Gen/Env.v: env_var_logic.py, guards, shortcuts, cross reference)',
                      'Model/EnvSwitch.v: semantics given to the regenerated data (guard first => nothing else runs when disabled; '
                      'no reference at call time => wrappers do not depend on the variable)',
                      'harness/w_env.py, harness/c09.py (correspondence glue, probes that decide "checked")',
                      'CPython 3.12: os.environ, closures, class __dict__/setattr'])
