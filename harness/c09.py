"""C09 - ENABLE_PEDANTIC switch.  Proof: coq/Props/C09.v over the switch logic, guards and cross reference regenerated
into Gen/Env.v by translator/t_env.py.  Correspondence stream `env-history`: operation histories (setenv / unsetenv /
enable_pedantic() / disable_pedantic() / decorate a fresh function or class with one of the seven decorators / create a decorator
object and keep it / apply a kept decorator object to a fresh target / call a decorated object) run on the real package (harness/w_env.py, in processes started with the variable unset, "0" and "1") and on the model
and the specification inside Coq (Model/EnvEval.v)."""
import io, json, os, re, tokenize
from lib import *

UNITS = ['Env']
MODEL = ['Model/EnvEval.vo']
PROPS = 'Props/C09.v'
PRE = 'From Coq Require Import List ZArith.\nFrom PV Require Import Model.EnvEval.\nImport ListNotations.'

SETENV, UNSETENV, ENABLE, DISABLE, DECORATE, CALL, CREATE, APPLY = 0, 1, 2, 3, 4, 5, 6, 7
UNSET = 5
DNAMES = ['pedantic', 'pedantic_require_docstring', 'pedantic_class', 'pedantic_class_require_docstring', 'trace_class',
          'timer_class', 'for_all_methods']
OBS = {0: '-', 1: 'returned the very object, unmodified', 2: 'returned a new/modified object', 3: 'decoration raised',
       4: 'call unchecked (plain)', 5: 'call checked/wrapped', 6: 'switch failed at call time', 7: 'inconsistent probes',
       8: 'harness problem'}
VALNAME = {0: '"0"', 1: '"1"', 2: '"2"', 3: '""', 4: '"true"', 5: 'unset'}
TOGGLES = [[SETENV, 0], [SETENV, 1], [UNSETENV], [ENABLE], [DISABLE]]


# ---------------------------------------------------------------------------------------------------------------
# the generator's own bookkeeping (used only to steer generation and to classify cases, never as an oracle)
# ---------------------------------------------------------------------------------------------------------------
def env_after(env, op):
    if op[0] == SETENV:
        return op[1]
    if op[0] == UNSETENV:
        return UNSET
    if op[0] == ENABLE:
        return 1
    if op[0] == DISABLE:
        return 0
    return env


def in_domain_prefix(case):
    """number of leading ops that stay inside the domain of the statement (variable unset / "0" / "1")"""
    if case['init'] not in (0, 1, UNSET):
        return 0
    n = 0
    for op in case['ops']:
        if op[0] == SETENV and op[1] not in (0, 1):
            break
        n += 1
    return n


def walk(case):
    """per op: (op, value of the variable before it, number of decorated objects before it, decorator objects created before
    it, decorator kind if the op decorates something else None, value of the variable when that decorator object was created)"""
    env = case['init']
    n_obj, created = 0, []
    for op in case['ops']:
        d = c_env = None
        if op[0] == DECORATE:
            d, c_env = op[1], env
        elif op[0] == APPLY and op[1] < len(created):
            d, c_env = created[op[1]]
        yield op, env, n_obj, len(created), d, c_env
        if d is not None:
            n_obj += 1
        if op[0] == CREATE:
            created.append((op[1], env))
        env = env_after(env, op)


def features(case):
    """(decorations, calls, inert-toggle witnesses, split witnesses).  inert-toggle witness: a call of an object after the
    tracked value of the variable has changed between enabled and disabled since its decoration.  split witness: a decorator
    object applied after the value changed between enabled and disabled since the object was created"""
    deco_env = []
    n_dec = n_call = witnesses = split = 0
    for op, env, n_obj, n_created, d, c_env in walk(case):
        if d is not None:
            deco_env.append(env)
            n_dec += 1
            if (c_env == 0) != (env == 0):
                split += 1
        elif op[0] == CALL:
            n_call += 1
            if op[1] < len(deco_env) and (deco_env[op[1]] == 0) != (env == 0):
                witnesses += 1
    return n_dec, n_call, witnesses, split


def awkward_ok(case):
    """targets that an *enabled* decorator rejects or cannot check are only meaningful while the variable is "0" """
    for op, env, n_obj, n_created, d, c_env in walk(case):
        if d is not None and op[2] >= 10 and env != 0:
            return False
    return True


def rand_decorate(rng, awkward=False):
    d = rng.randrange(7)
    t = rng.choice([10, 11, 12]) if awkward else rng.choice([0, 0, 1, 2])
    u = rng.randrange(4) if d == 6 else 0
    return [DECORATE, d, t, u]


def target_for(rng, d, awkward=False):
    return rng.choice([10, 11, 12]) if awkward else rng.choice([0, 0, 1, 2])


def gen_history(rng, length, values=(0, 1), awkward_share=0.0, split_share=0.35):
    init = rng.choice([UNSET, 0, 1] if values == (0, 1) else [UNSET, 0, 1, 2, 3, 4])
    env, ops, n_obj, created = init, [], 0, []
    for _ in range(length):
        r = rng.random()
        if r < 0.30 or n_obj == 0 and r < 0.5:
            aw = env == 0 and rng.random() < awkward_share
            k = rng.random()
            if k < split_share and created:
                j = rng.randrange(len(created))
                ops.append([APPLY, j, target_for(rng, created[j], aw)])
                n_obj += 1
            elif k < 2 * split_share:
                d = rng.randrange(7)
                ops.append([CREATE, d, rng.randrange(4)])
                created.append(d)
            else:
                ops.append(rand_decorate(rng, aw))
                n_obj += 1
        elif r < 0.62 and n_obj:
            # mostly the most recent objects, sometimes any
            i = n_obj - 1 - min(n_obj - 1, int(rng.expovariate(0.8))) if rng.random() < 0.7 else rng.randrange(n_obj)
            ops.append([CALL, i])
        else:
            k = rng.random()
            op = [SETENV, rng.choice(values)] if k < 0.35 else [UNSETENV] if k < 0.5 else [ENABLE] if k < 0.75 else [DISABLE]
            ops.append(op)
            env = env_after(env, op)
    return {'init': init, 'ops': ops}


def gen_cases(rng, tier, scale):
    cases = []
    procs = [UNSET, 0, 1]
    # 1. exhaustive small scope: initial value x toggle x decorator x toggle, observed by a call before and after
    pre = [None] + TOGGLES
    for proc in procs:
        for init in (UNSET, 0, 1):
            for a in pre:
                for d in range(7):
                    for b in TOGGLES:
                        if proc != UNSET and tier == 'quick' and rng.random() > 0.34:
                            continue
                        t = rng.choice([0, 1, 2])
                        u = rng.randrange(4) if d == 6 else 0
                        ops = ([a] if a else []) + [[DECORATE, d, t, u], [CALL, 0], b, [CALL, 0]]
                        if rng.random() < 0.3:
                            ops += [rng.choice(TOGGLES), [DECORATE, d, t, u], [CALL, 1], [CALL, 0]]
                        cases.append({'stream': 'small-scope', 'proc': proc, 'init': init, 'ops': ops})
    # 1b. the same with the decorator object created first and applied later: create x toggle x apply, call, toggle, call,
    #     toggle, apply the same object again
    for proc in procs:
        for init in (UNSET, 0, 1):
            for d in range(7):
                for a in TOGGLES:
                    for b in TOGGLES:
                        if tier == 'quick' and rng.random() > (0.5 if proc == UNSET else 0.17):
                            continue
                        t = rng.choice([0, 1, 2])
                        ops = [[CREATE, d, rng.randrange(4)], a, [APPLY, 0, t], [CALL, 0], b, [CALL, 0]]
                        if rng.random() < 0.5:
                            ops += [rng.choice(TOGGLES), [APPLY, 0, rng.choice([0, 1, 2])], [CALL, 1], [CALL, 0]]
                        cases.append({'stream': 'small-scope-split', 'proc': proc, 'init': init, 'ops': ops})
    n = (500 if tier == 'quick' else 25000) * scale
    max_len = 30 if tier == 'quick' else 200
    # 2. valid: in-domain histories
    for _ in range(n):
        ln = rng.choice([3, 5, 8, 12, 20, max_len]) if rng.random() < 0.8 else rng.randrange(1, max_len + 1)
        c = gen_history(rng, ln)
        c.update(stream='valid', proc=rng.choice(procs))
        cases.append(c)
    # 3. near-miss: a valid history in which one object is decorated, the switch is flipped to the opposite setting right
    #    after (by each of the available means), and the object is called; the mirror: flip, then decorate, then call; and the
    #    split form: create the decorator object, flip, apply it, call
    for _ in range(n):
        c = gen_history(rng, rng.choice([2, 4, 8, 16]))
        ops = c['ops']
        pos = rng.randrange(len(ops) + 1)
        env, n_obj, n_created = c['init'], 0, 0
        for k, (op, e, no, nc, d, ce) in enumerate(walk(c)):
            if k == pos:
                break
            env, n_obj, n_created = env_after(e, op), no + (d is not None), nc + (op[0] == CREATE)
        flip = rng.choice([[SETENV, 1], [ENABLE], [UNSETENV]] if env == 0 else [[SETENV, 0], [DISABLE]])
        r = rng.random()
        new_deco = 0
        if r < 0.3:
            ins = [rand_decorate(rng), flip, [CALL, n_obj]]
        elif r < 0.6:
            ins = [flip, rand_decorate(rng), [CALL, n_obj], rng.choice(TOGGLES), [CALL, n_obj]]
        else:
            ins = [[CREATE, rng.randrange(7), rng.randrange(4)], flip, [APPLY, n_created, rng.choice([0, 1, 2])], [CALL, n_obj]]
            new_deco = 1
        # later calls/applications refer to objects by position: shift the references behind the insertion
        tail = [[CALL, op[1] + 1] if op[0] == CALL and op[1] >= n_obj else
                [APPLY, op[1] + new_deco] + op[2:] if op[0] == APPLY and op[1] >= n_created else op for op in ops[pos:]]
        cases.append({'stream': 'near-miss', 'proc': rng.choice(procs), 'init': c['init'], 'ops': ops[:pos] + ins + tail})
    # 4. malformed: values outside the domain, calls of objects that do not exist, targets that an enabled decorator rejects
    #    (enum, dataclass, non-function, wrong or missing docstring/annotations) while the variable is "0"
    for _ in range(max(60, n // 3)):
        kind = rng.random()
        if kind < 0.45:
            c = gen_history(rng, rng.choice([3, 6, 12, 24]), awkward_share=0.7)
            c['stream'] = 'malformed-awkward-target'
        elif kind < 0.85:
            c = gen_history(rng, rng.choice([3, 6, 12, 24]), values=(0, 1, 2, 3, 4))
            c['stream'] = 'malformed-value'
        else:
            c = gen_history(rng, rng.choice([3, 6, 12]))
            c['ops'].insert(rng.randrange(len(c['ops']) + 1), rng.choice([[CALL, rng.choice([7, 50, 1000])], [APPLY, rng.choice([9, 77]), 0]]))
            c['stream'] = 'malformed-index'
        c['proc'] = rng.choice(procs)
        cases.append(c)
    return cases


def coq_case(c):
    ops = coq_list([coq_list([coq_Z(x) for x in op]) for op in c['ops']])
    return f'eval_case {coq_Z(c["init"])} {ops}'


def split_model(m):
    if m is None or -1 not in m:
        return None, None
    k = m.index(-1)
    return m[:k], m[k + 1:]


def judge(c, impl, model):
    """-> (correspondence_ok, property_ok, what)"""
    if impl is None or 'error' in impl:
        return False, True, f'implementation worker failed: {impl}'
    mo, sp = split_model(model)
    if mo is None:
        return False, True, 'model evaluation failed'
    io_ = impl['obs']
    corr = io_ == mo
    what = []
    dom = in_domain_prefix(c)
    for k in range(min(dom, len(io_), len(sp))):
        if io_[k] != sp[k]:
            op = c['ops'][k]
            info = list(walk(c))[k]
            subject = f'{DNAMES[op[1]]} (target kind {op[2]})' if op[0] == DECORATE else \
                f'decorator object #{op[1]} = {DNAMES[info[4]] if info[4] is not None else "?"} created while the variable was ' \
                f'{VALNAME.get(info[5], info[5])}, applied while it is {VALNAME.get(info[1], info[1])} (target kind {op[2]})' \
                if op[0] == APPLY else f'creation of a {DNAMES[op[1]]} decorator object' if op[0] == CREATE else f'object #{op[1]}'
            what.append(f'op {k} {subject}: observed "{OBS.get(io_[k], io_[k])}", the statement demands "{OBS.get(sp[k], sp[k])}"'
                        f'{" " + str(impl.get("details", {}).get(str(k), "")) if impl.get("details", {}).get(str(k)) else ""}')
            break
    reads = impl.get('call_reads', [])
    if reads and not what:
        what.append(f'the switch was read while a decorated object was being called (op {reads[0]})')
    creads = impl.get('create_reads', [])
    if creads and not what:
        what.append(f'the switch was read when the decorator object was created, before it was applied to anything (op {creads[0]})')
    return corr, not what, '; '.join(what)


def vclass(what):
    """coarse class of a violation message: which kind of operation, what was observed, what is demanded"""
    m = re.search(r'observed "([^"]*)", the statement demands "([^"]*)"', what)
    if not m:
        return what[:60]
    kind = 'apply' if 'decorator object #' in what else 'create' if 'creation of' in what else 'call' if ' object #' in what else 'decorate'
    return f'{kind}: {m.group(1)} / {m.group(2)}'


# ---------------------------------------------------------------------------------------------------------------
# shrinking: drop operations while the violation persists (batches through the same worker and the same Coq evaluation)
# ---------------------------------------------------------------------------------------------------------------
def drop_candidates(c):
    ops = c['ops']
    info = list(walk(c))
    out = []
    for p, op in enumerate(ops):
        if info[p][4] is not None:                       # decorates: drop it and the calls of its object, renumber the others
            k = info[p][2]
            new = []
            for q, o in enumerate(ops):
                if q == p or (o[0] == CALL and o[1] == k):
                    continue
                new.append([CALL, o[1] - 1] if o[0] == CALL and o[1] > k else o)
        elif op[0] == CREATE:                            # drop it and its applications (with their calls), renumber
            j = info[p][3]
            gone = {info[q][2] for q, o in enumerate(ops) if o[0] == APPLY and o[1] == j and info[q][4] is not None}
            new = []
            for q, o in enumerate(ops):
                if q == p or (o[0] == APPLY and o[1] == j) or (o[0] == CALL and o[1] in gone):
                    continue
                if o[0] == CALL:
                    o = [CALL, o[1] - sum(1 for g in gone if g < o[1])]
                elif o[0] == APPLY and o[1] > j:
                    o = [APPLY, o[1] - 1] + o[2:]
                new.append(o)
        else:
            new = ops[:p] + ops[p + 1:]
        out.append(dict(c, ops=new))
    if c['init'] != UNSET:
        out.append(dict(c, init=UNSET))
    if c.get('proc', UNSET) != UNSET:
        out.append(dict(c, proc=UNSET))
    return [x for x in out if awkward_ok(x)]


def evaluate(ck, cases):
    impl = [None] * len(cases)
    for proc in (UNSET, 0, 1):
        idx = [i for i, c in enumerate(cases) if c.get('proc', UNSET) == proc]
        if not idx:
            continue
        res = ck.run_impl('w_env', [cases[i] for i in idx], timeout=900,
                          env=None if proc == UNSET else {'ENABLE_PEDANTIC': str(proc)})
        for i, r in zip(idx, res):
            impl[i] = r
    model = ck.coq_eval(PRE, [coq_case(c) for c in cases]) if ck.model_ok else [None] * len(cases)
    return impl, model


def shrink(ck, c, cls, rounds=12):
    """the shrunk case must still violate the statement in the same way (same class of message)"""
    for _ in range(rounds):
        cands = drop_candidates(c)
        if not cands:
            break
        impl, model = evaluate(ck, cands)
        failing = [x for x, i, m in zip(cands, impl, model) if i is not None and 'error' not in i and m is not None
                   and not judge(x, i, m)[1] and vclass(judge(x, i, m)[2]) == cls]
        if not failing:
            break
        c = min(failing, key=lambda x: (len(x['ops']), x['init'] != UNSET))
    return c


# ---------------------------------------------------------------------------------------------------------------
# independent token-level scan (second implementation of the cross reference of DESIGN 6 C09; the first one is the list
# env_refs in Gen/Env.v, judged in Coq by C09_model_good / C09_cross_reference)
# ---------------------------------------------------------------------------------------------------------------
WATCH = {'is_enabled', 'enable_pedantic', 'disable_pedantic', 'ENVIRONMENT_VARIABLE_NAME', 'environ', 'environb', 'getenv',
         'getenvb', 'putenv', 'unsetenv', 'posix'}


def token_scan():
    """every NAME/STRING token that can reach the switch, outside env_var_logic.py, tests/ and examples/, with the logical
    line it stands in; returns (unexpected, guards)"""
    base = os.path.join(REPO, 'pedantic')
    allowed_lines = {
        'if not is_enabled():': 'guard',
        'return self._env_var_name in os.environ': 'foreign',
        'return os.environ[self._env_var_name].strip()': 'foreign',
    }
    unexpected, guards = [], []
    for d, dirs, files in os.walk(base):
        dirs[:] = sorted(x for x in dirs if x not in ('tests', 'examples', '__pycache__'))
        for fn in sorted(files):
            if not fn.endswith('.py'):
                continue
            path = os.path.join(d, fn)
            rel = os.path.relpath(path, REPO)
            if rel == 'pedantic/env_var_logic.py':
                continue
            try:
                toks = list(tokenize.generate_tokens(io.StringIO(open(path, encoding='utf-8').read()).readline))
            except (tokenize.TokenError, SyntaxError, UnicodeDecodeError) as ex:
                unexpected.append(f'{rel}: cannot be tokenised: {ex}')
                continue
            for t in toks:
                hit = (t.type == tokenize.NAME and t.string in WATCH) or \
                      (t.type == tokenize.STRING and re.search(r'ENABLE_PEDANTIC|[\'"](environ|getenv|is_enabled)[\'"]', t.string))
                if not hit:
                    continue
                line = ' '.join(t.line.split())
                if re.match(r'(from\s+[\w.]+\s+import\s|import\s)', line) and ' as ' not in line and t.string != 'posix' \
                        and t.string not in ('environ', 'getenv', 'putenv', 'unsetenv', 'environb', 'getenvb'):
                    continue                                  # plain import of the names
                kind = allowed_lines.get(line)
                if kind == 'guard':
                    guards.append(f'{rel}:{t.start[0]}')
                elif kind == 'foreign' and rel.endswith('environment_variable_parameter.py'):
                    pass
                elif t.type == tokenize.NAME and t.string in ('is_enabled', 'enable_pedantic', 'disable_pedantic') \
                        and rel in ('pedantic/__init__.py',) and re.match(r'[\w\s,\\()]+$', line):
                    pass                                      # continuation line of the import list in __init__.py
                else:
                    unexpected.append(f'{rel}:{t.start[0]}: {line[:120]}')
    return unexpected, guards


def run(tier, seed, replay=None):
    ck = Check('C09', tier, seed, UNITS, MODEL, PROPS)
    ck.prepare()
    ck.replay_known_findings(lambda f: False)
    # cross reference, second implementation
    unexpected, guards = token_scan()
    ok = not unexpected and sorted(g.split(':')[0] for g in guards) == ['pedantic/decorators/class_decorators.py',
                                                                        'pedantic/decorators/fn_deco_pedantic.py']
    ck.oblige('xref:token-scan', 'translation', ok,
              ('unexpected references to the switch: ' + '; '.join(unexpected[:6]) if unexpected else f'guards found at {guards}')
              if not ok else f'only the two decoration-time guards read the switch: {guards}')
    try:
        gen = open(os.path.join(COQ, 'Gen', 'Env.v'), encoding='utf-8').read()
        n_calls = len(re.findall(r'er_kind := RIsEnabledCall', gen))
        ck.oblige('xref:scans-agree', 'translation', n_calls == len(guards),
                  f'Gen/Env.v lists {n_calls} calls of is_enabled outside env_var_logic.py, the token scan {len(guards)} guards')
    except OSError as ex:
        ck.oblige('xref:scans-agree', 'translation', False, repr(ex))

    if replay is not None:
        cases = [dict(replay['case'])] if replay.get('case') else []
    else:
        cases = gen_cases(ck.rng, tier, ck.scale())
    for c in cases:
        c.setdefault('proc', UNSET)
        c.setdefault('stream', 'replay')
    impl, model = evaluate(ck, cases)
    hist = {'streams': {}, 'decorators': {n: 0 for n in DNAMES}, 'targets': {}, 'observations': {}, 'proc_start': {},
            'lengths': {}, 'toggle_kinds': {}, 'created_decorator_objects': {n: 0 for n in DNAMES},
            'applied_decorator_objects': {n: 0 for n in DNAMES}, 'split_create_enabled_apply_disabled': 0,
            'split_create_disabled_apply_enabled': 0}
    disagreements = {}
    max_len = 0
    n_wit = n_split = split_cases = 0
    for c, i, m in zip(cases, impl, model):
        st = c['stream']
        hist['streams'][st] = hist['streams'].get(st, 0) + 1
        hist['proc_start'][str(c['proc'])] = hist['proc_start'].get(str(c['proc']), 0) + 1
        b = min(len(c['ops']) // 10 * 10, 200)
        hist['lengths'][f'{b}+'] = hist['lengths'].get(f'{b}+', 0) + 1
        max_len = max(max_len, len(c['ops']))
        for op, env, n_obj, n_created, d, c_env in walk(c):
            if op[0] == DECORATE:
                hist['decorators'][DNAMES[op[1]]] += 1
                hist['targets'][str(op[2])] = hist['targets'].get(str(op[2]), 0) + 1
            elif op[0] == CREATE:
                hist['created_decorator_objects'][DNAMES[op[1]]] += 1
            elif op[0] == APPLY:
                if d is not None:
                    hist['applied_decorator_objects'][DNAMES[d]] += 1
                    hist['targets'][str(op[2])] = hist['targets'].get(str(op[2]), 0) + 1
                    if (c_env == 0) != (env == 0):
                        hist['split_create_disabled_apply_enabled' if c_env == 0 else 'split_create_enabled_apply_disabled'] += 1
            elif op[0] != CALL:
                k = ['setenv', 'unsetenv', 'enable_pedantic()', 'disable_pedantic()'][op[0]]
                hist['toggle_kinds'][k] = hist['toggle_kinds'].get(k, 0) + 1
        if i and 'obs' in i:
            for o in i['obs']:
                hist['observations'][OBS.get(o, str(o))] = hist['observations'].get(OBS.get(o, str(o)), 0) + 1
        n_dec, n_call, wit, split = features(c)
        n_wit += wit
        n_split += split
        split_cases += split >= 1
        ck.note_case(json.dumps([c['proc'], c['init'], c['ops']]), nontrivial=wit >= 1 or split >= 1)
        corr, prop, what = judge(c, i, m)
        if corr and prop:
            ck.traces_validated += 1
        if not prop:
            ck.violation(what, {k: c[k] for k in ('proc', 'init', 'ops', 'stream')}, stream=c['stream'],
                         extra={'impl': i, 'model': m, 'class': vclass(what)})
        elif not corr:
            disagreements.setdefault(st, []).append({'case': c, 'impl': i, 'model': split_model(m)[0], 'what': what})
    # smallest first, then shrink the smallest
    ck.violations.sort(key=lambda v: (len(v['case']['ops']), v['case']['init'] != UNSET, v['case']['proc'] != UNSET))
    if ck.violations and replay is None:
        # shrink the (at most three) violations that ck.finish will report: first of each distinct message class
        seen = set()
        for v in ck.violations:
            key = v['class']
            if key in seen or len(seen) >= 3:
                continue
            seen.add(key)
            small = shrink(ck, dict(v['case']), key)
            if small != v['case']:
                i2, m2 = evaluate(ck, [small])
                c2, p2, w2 = judge(small, i2[0], m2[0])
                if not p2 and vclass(w2) == key:
                    v.update(case=small, what=w2, impl=i2[0], model=m2[0], shrunk_from=len(v['case']['ops']))
    streams = sorted(set(hist['streams']) | set(disagreements))
    for st in (['env-history'] if not streams else streams):
        ds = disagreements.get(st, [])
        ck.oblige(f'correspondence:env-history/{st}', 'correspondence', not ds,
                  json.dumps(min(ds, key=lambda x: len(x['case']['ops'])), default=str)[:1500] if ds
                  else f'{hist["streams"].get(st, 0)} histories agree')
    if replay is None:
        share = len(ck.nontrivial) / max(1, ck.evaluations)
        sshare = split_cases / max(1, ck.evaluations)
        ck.oblige('generator:non-degenerate', 'correspondence',
                  share >= 0.4 and sshare >= 0.12 and all(v > 0 for v in hist['decorators'].values())
                  and all(v > 0 for v in hist['applied_decorator_objects'].values())
                  and hist['split_create_enabled_apply_disabled'] > 0 and hist['split_create_disabled_apply_enabled'] > 0,
                  f'{share:.2f} of the histories call an object after the switch flipped since its decoration or apply a decorator '
                  f'object after the switch flipped since its creation ({sshare:.2f} the latter: '
                  f'{hist["split_create_enabled_apply_disabled"]} applications created-enabled/applied-disabled, '
                  f'{hist["split_create_disabled_apply_enabled"]} created-disabled/applied-enabled); decorators {hist["decorators"]}; '
                  f'applied decorator objects {hist["applied_decorator_objects"]}')
    ck.coverage.update({'distribution': hist, 'max_history_length': max_len, 'inert_toggle_witnesses': n_wit, 'create_toggle_apply_witnesses': n_split,
                        'disagreements': sum(len(v) for v in disagreements.values())})
    zipped = list(zip(cases, impl, model))
    ck.samples = [{'case': c, 'impl': i, 'model_then_spec': m} for c, i, m in zipped[:2] + zipped[len(zipped) // 2:len(zipped) // 2 + 2] + zipped[-2:]]
    ck.assumptions = [
        'object identity is observed as `result is argument` plus identity of every entry of the object\'s own __dict__ before/after',
        '"checks" is observed per decorator: pedantic flavours raise a PedanticException on a positional and on an ill-typed call, '
        'trace/timer print their line, for_all_methods(custom) runs the custom wrapper; a conforming keyword call returns in all cases',
        'the worker additionally counts reads of os.environ["ENABLE_PEDANTIC"] while a decorated object is being called and while a '
        'decorator object is being created without being applied (both must be 0)',
        'decorator objects: for_all_methods(inner), pedantic(), pedantic(require_docstring=False), pedantic_require_docstring(); for '
        'pedantic_class / pedantic_class_require_docstring / trace_class / timer_class, which cannot be split, the function object itself',
        'single-threaded histories; values of the variable outside {unset,"0","1"} are compared with the model only (outside the statement)']
    return ck.finish(
        rule='env-history: exhaustive small scope (start value of the process x initial value x toggle x 7 decorators x toggle, called before '
             'and after; the same with the decorator object created, the switch toggled, and the object applied - twice) + random '
             'in-domain histories (decorate in one go / create / apply / call / toggle) + near-miss (flip the switch right after / right '
             'before a decoration, or between creation and application of a decorator object, by every means) + '
             'malformed (values outside the domain, dangling indices, targets an enabled decorator rejects while disabled); '
             'distinct = (process start value, initial value, operations); non-trivial = an object is called after the switch changed '
             'between enabled and disabled since its decoration, or a decorator object is applied after such a change since its creation',
        checker_cmd='make -C coq Props/C09.vo && coqc -Q coq PV coq/Props/C09.v (Print Assumptions under every theorem)',
        trusted_base=['Coq 8.16.1 kernel (coqc; vm_compute for model evaluation and `good`)',
                      'translator/t_env.py (Python ast -> Gen/Env.v: env_var_logic.py, guards, shortcuts, cross reference)',
                      'Model/EnvSwitch.v: semantics given to the regenerated data (guard first => nothing else runs when disabled; '
                      'no reference at call time => wrappers do not depend on the variable)',
                      'harness/w_env.py, harness/c09.py (correspondence glue, probes that decide "checked")',
                      'CPython 3.12: os.environ, closures, class __dict__/setattr'])
