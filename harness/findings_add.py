#!/usr/bin/env python3
"""Add or replace one entry of /verif/known_findings.json under a file lock (several contributors
may register findings concurrently).  Usage:  python3 harness/findings_add.py < entry.json
entry = {"property","id","status":"open"|"fixed","what","witness",("matcher"),("commit")}"""
import fcntl, json, os, sys
ROOT = os.path.dirname(os.path.dirname(os.path.abspath(__file__)))
path = os.path.join(ROOT, 'known_findings.json')
entry = json.load(sys.stdin)
for k in ('property', 'id', 'status', 'what'):
    assert k in entry, 'missing ' + k
assert entry['status'] in ('open', 'fixed')
with open(path + '.lock', 'w') as lk:
    fcntl.flock(lk, fcntl.LOCK_EX)
    data = json.load(open(path))
    data['findings'] = [f for f in data['findings'] if f['id'] != entry['id']] + [entry]
    data['findings'].sort(key=lambda f: (f['property'], f['id']))
    tmp = path + '.tmp'
    with open(tmp, 'w') as fh:
        json.dump(data, fh, indent=1)
        fh.write('\n')
    os.replace(tmp, path)
print('ok', entry['id'])
