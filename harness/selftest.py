"""Harness self-test run by bin/setup: hygiene gate, exception map round trip."""
import sys, os
sys.path.insert(0, os.path.dirname(os.path.abspath(__file__)))
sys.path.insert(0, os.environ.get('PV_REPO', '/repo'))
import lib, excs

hits = lib.hygiene_scan()
assert not hits, hits
for p in ([], [0], [0, 1], [0, 3, 1], [0, 20, 0, 1], [1], [0, 0, 3]):
    c = excs.cls_of(p)
    assert excs.path_of(c) == p, (p, c, excs.path_of(c))
    if p:
        assert issubclass(c, excs.cls_of(p[:-1]))
print('selftest ok')
