"""C10 - type-safe frozen dataclass: an instance exists iff every field value conforms (constructor, copy_with,
deep_copy_with, validate_types; slots on/off; inheritance; user __post_init__ first).
Proof: coq/Props/C10.v over the decorator program regenerated into Gen/Dataclass.v.
Correspondence + property on the implementation: stream `dataclass` (harness/dc_common.py, harness/w_dataclass.py)."""
import dc_common


def run(tier, seed, replay=None):
    return dc_common.run('C10', tier, seed, replay)
