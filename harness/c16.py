"""C16 - safe_contextmanager / safe_async_contextmanager run the cleanup exactly once.

Proof: coq/Props/C16.v over the wrapper programs regenerated from fn_deco_context_manager.py (Gen/CtxShape.v),
interpreted by Model/SafeCtx.v on the generator objects of Model/Generator.v, driven by the transcription of
contextlib (Model/Contextlib.v).

Correspondence (implementation = current /repo tree, model = `Eval vm_compute` in Coq, spec = Spec/CtxSpec.v):
  with        exhaustive product setup x body x cleanup outcome classes, one with statement, sync and async
  nested      nested with statements (depth 2..5, nested statements and `with a, b:`), exhaustive at depth 2 on
              representative classes, random deeper
  repeated    several statements after one another on one decorated function
  decoration  the four kinds of `def` in several syntactic forms x both decorators x the state of the global switch
  switch      one with statement, decorated (and, independently, used) under every state of the global switch:
              ENABLE_PEDANTIC unset / "0" / "1", disable_pedantic() / enable_pedantic() called - the property text makes
              no exception for the switch
  method      the decorated generator function as an attribute of a class (instance method reached through the instance, bound
              once, Class.m(obj), a subclass instance; below @classmethod / @staticmethod): the receiver and the caller's own
              arguments must arrive unchanged - implementation side only, judged by the specification
  interpreter the decoration scenarios and a sample of the with statements once more in child interpreters started with
              -O, -OO, PYTHONOPTIMIZE=1/2 (assert statements stripped) and with ENABLE_PEDANTIC=0/1 already in the
              environment of the interpreter
  (the random nested / repeated cases draw a switch state as well)
  shape       functools.wraps metadata, kind of the wrapper, what the decorator returns
  generator   real (async) generators described by behaviour trees x next/send/throw/close sequences
              against Model/Generator.v
  contextlib  real contextlib.(async)contextmanager over such generators against Model/Contextlib.v
Compared are event journals (setup ran / body ran with which object bound / cleanup ran, order, count, were the
caller's own arguments received) and the identity and class of the object that leaves."""
import json
from lib import *

UNITS = ['CtxShape']
MODEL = ['Model/CtxEval.vo']
PROPS = 'Props/C16.v'
PRE = ('From Coq Require Import List ZArith.\n'
       'From PV Require Import Base.Exn Model.Generator Model.Contextlib Model.SafeCtx Spec.CtxSpec Model.CtxEval.\n'
       'Import ListNotations.')

SI, SAI, RTE, GE = [0, 7], [0, 8], [0, 6], [3]
# every class of outcome the property names, with near misses (subclasses of the classes that the generator
# protocol and contextlib treat specially, direct subclasses of BaseException)
FULL = [[0], [0, 1], [0, 20], [0, 20, 0], [0, 5], [], [1], [2], [4], [4, 0], GE, [3, 0], SI, [0, 7, 0], SAI, [0, 8, 0],
        RTE, [0, 6, 5], [0, 6, 0]]
REPS = [[0, 20], [1], [4], SI, SAI, GE, RTE]
NAMES = {(0,): 'Exception', (0, 1): 'ValueError', (0, 20): 'UserError(Exception)', (0, 20, 0): 'UserError subclass',
         (0, 5): 'AssertionError', (): 'BaseException', (1,): 'KeyboardInterrupt', (2,): 'SystemExit',
         (4,): 'custom BaseException subclass', (4, 0): 'its subclass', (3,): 'GeneratorExit', (3, 0): 'GeneratorExit subclass',
         (0, 7): 'StopIteration', (0, 7, 0): 'StopIteration subclass', (0, 8): 'StopAsyncIteration',
         (0, 8, 0): 'StopAsyncIteration subclass', (0, 6): 'RuntimeError', (0, 6, 5): 'RuntimeError subclass',
         (0, 6, 0): 'RecursionError'}
EARLY = ['return', 'break', 'continue']
STYLES = ['nested', 'multi']
# the circumstances of a decoration (harness/w_ctx.py): state of the global switch, set in the process ...
SWITCHES = ['unset', '0', '1', 'disabled', 'enabled']
# ... and the interpreter: [optimize level, given by flag or by PYTHONOPTIMIZE, ENABLE_PEDANTIC in its environment]
# ... and how the caller reaches the decorated generator function: directly, or as an attribute of a class (the decorator applied
# inside a class body).  "Arguments are forwarded unchanged" then includes the receiver: the instance (the class for a
# classmethod) comes first, followed by the caller's own arguments.  Implementation side only (harness/w_ctx.py bind_form); the
# model has no classes: the demanded journal is the one of the plain function.
BINDS = ['function', 'instance', 'instance_bound_once', 'class_call', 'classmethod', 'classmethod_on_instance', 'staticmethod',
         'subclass_instance']
BIND_WORDS = {'instance': 'an instance method called through the instance', 'instance_bound_once': 'an instance method, bound once and then called',
              'class_call': 'an instance method called as Class.method(instance, ...)', 'classmethod': 'below @classmethod, called through the class',
              'classmethod_on_instance': 'below @classmethod, called through an instance', 'staticmethod': 'below @staticmethod, called through an instance',
              'subclass_instance': 'an instance method called through an instance of a subclass'}
INTERPS = [[1, 'flag', None], [2, 'flag', None], [1, 'env', None], [2, 'env', None], [0, 'flag', '0'], [0, 'flag', '1'],
           [2, 'flag', '0']]


def enabled_of(c):
    """is_enabled() at decoration time: ENABLE_PEDANTIC unset or "1" """
    sw = c.get('switch', 'inherit')
    if sw == 'inherit':
        sw = (c.get('interp') or [0, 'flag', None])[2]
        sw = 'unset' if sw is None else sw
    return sw in ('unset', '1', 'enabled')


def optimize_of(c):
    return (c.get('interp') or [0, 'flag', None])[0] > 0


def circumstances(c):
    """in words, for the report; '' for the defaults"""
    out = []
    sw = c.get('switch', 'inherit')
    if c.get('bind', 'function') != 'function':
        out.append('the decorated generator function is ' + BIND_WORDS.get(c['bind'], str(c['bind'])))
    if sw not in ('inherit', 'unset'):
        out.append({'disabled': 'decorated after disable_pedantic()', 'enabled': 'decorated after enable_pedantic()'}.get(sw)
                   or f'decorated while ENABLE_PEDANTIC={sw}')
    if c.get('kind') == 'seq' and c.get('switch_use', sw) != sw:
        out.append(f'used while the switch is {c["switch_use"]}')
    it = c.get('interp')
    if it:
        if it[0]:
            out.append('interpreter started with ' + ('-' + 'O' * it[0] if it[1] == 'flag' else f'PYTHONOPTIMIZE={it[0]}'))
        if it[2] is not None:
            out.append(f'interpreter started with ENABLE_PEDANTIC={it[2]}')
    return ', '.join(out)


def cname(p):
    return NAMES.get(tuple(p), 'class ' + '.'.join(map(str, p)))


# ---- Coq terms ------------------------------------------------------------------------------------------

def c_path(p):
    return coq_list([coq_nat(x) for x in p])


def c_var(v):
    return 'Sync' if v == 'sync' else 'Async'


def c_use(u):
    s = {'ok': 'SetupOk', 'return': 'SetupReturn'}.get(u['setup'][0]) or f'(SetupRaise {c_path(u["setup"][1])})'
    c = u['cleanup']
    cl = 'CleanOk' if c[0] == 'ok' else f'(CleanRaise {c_path(c[1])})' if c[0] == 'raise' else f'(CleanYield {coq_nat(c[1])})'
    return f'(mkUse {coq_nat(u["id"])} {coq_nat(u["args"])} {s} {coq_nat(u["val"])} {cl})'


def c_body(b):
    return {'normal': 'BodyNormal', 'early': 'BodyEarly'}.get(b[0]) or f'(BodyRaise {c_path(b[1])})'


def c_tree(t):
    k = t[0]
    if k == 'ret':
        return 'BRet'
    if k == 'reraise':
        return 'BReraise'
    if k == 'raise':
        return f'(BRaise {c_path(t[1])} {coq_nat(t[2])})'
    if k == 'emit':
        return f'(BEmit {coq_nat(t[1])} {c_tree(t[2])})'
    return f'(BYield {coq_nat(t[1])} {c_tree(t[2])} {c_tree(t[3])})'


def c_op(o):
    return {'next': 'OpNext', 'send': 'OpSend', 'close': 'OpClose'}.get(o[0]) or f'(OpThrow {c_path(o[1])})'


FKIND = {'plain': 'FPlain', 'coroutine': 'FCoroutine', 'generator': 'FGenerator', 'asyncgen': 'FAsyncGenerator'}


def seen_kind(c):
    """what inspect sees: a plain function that merely carries __wrapped__, or an instance with __call__, is a plain callable"""
    return 'plain' if c['form'] in ('wrapped', 'callable_object') else c['fkind']


def coq_term(c):
    k = c['kind']
    if k == 'seq':
        items = coq_list([f'({coq_list([c_use(u) for u in it["uses"]])}, {c_body(it["body"])})' for it in c['items']])
        return f'eval_case {c_var(c["var"])} {coq_bool(enabled_of(c))} {coq_bool(optimize_of(c))} {items}'
    if k == 'deco':
        return f'eval_deco {c_var(c["var"])} {FKIND[seen_kind(c)]} {coq_bool(enabled_of(c))} {coq_bool(optimize_of(c))}'
    if k == 'shape':
        return f'eval_shape {c_var(c["var"])}'
    if k == 'gen':
        return f'eval_gen {c_var(c["var"])} {c_tree(c["beh"])} {coq_list([c_op(o) for o in c["ops"]])}'
    if k == 'plain':
        return f'eval_plain {c_var(c["var"])} {c_tree(c["beh"])} {c_body(c["body"])}'
    raise ValueError(k)


# ---- the property, restated in Python (fallback oracle when Coq cannot evaluate Spec/CtxSpec.v, and a
#      cross-check of the parsing of its output; Spec/CtxSpec.v is the reference) ---------------------------

def converts(var, p):
    return p[:2] == SI or (var == 'async' and p[:2] == SAI)


def py_spec_nest(var, us, tag, body, x0):
    if not us:
        return [2, tag, x0, 0], ([0, 0, 0] if body[0] == 'normal' else [1, 0, 0] if body[0] == 'early' else [2, tag, 0])
    u = us[0]
    ev_setup = [1, u['id'], 0, u['args'] + 1]
    if u['setup'][0] == 'raise':
        return ev_setup, [4 if converts(var, u['setup'][1]) else 3, u['id'], 0]
    if u['setup'][0] == 'return':
        return ev_setup, [5, 0, 0]
    j, l = py_spec_nest(var, us[1:], tag, body, u['val'])
    if u['cleanup'][0] == 'raise':
        l = [4 if converts(var, u['cleanup'][1]) else 3, u['id'], 1]
    return ev_setup + j + [1, u['id'], 1, u['args'] + 1], l


def py_spec(c):
    ev, ls = [], []
    for it in c['items']:
        tag = it['uses'][0]['id'] if it['uses'] else 0
        j, l = py_spec_nest(c['var'], it['uses'], tag, it['body'], 0)
        ev += j
        ls.append(l)
    return ev, ls


def in_domain(c):
    return all(u['setup'][0] != 'return' and u['cleanup'][0] != 'yield' for it in c['items'] for u in it['uses'])


# ---- parsing -------------------------------------------------------------------------------------------

def parse_impl_seq(flat):
    n = flat[0]
    ev = flat[1:1 + 4 * n]
    k = flat[1 + 4 * n]
    pos = 2 + 4 * n
    leaves, classes = [], []
    for _ in range(k):
        leaves.append(flat[pos:pos + 3])
        pos += 3
        if flat[pos] == -3:
            classes.append(None)
            pos += 1
        else:
            ln = flat[pos]
            classes.append(flat[pos + 1:pos + 1 + ln])
            pos += 1 + ln
    return ev, leaves, classes


def parse_spec_block(s):
    n = s[0]
    ev = s[1:1 + 4 * n]
    k = s[1 + 4 * n]
    rest = s[2 + 4 * n:]
    return ev, [rest[3 * i:3 * i + 3] for i in range(k)]


LEAVES = {0: 'ends normally', 1: 'the return/break/continue goes on', 2: 'the object the body raised', 3: "the generator's own exception object",
          4: "RuntimeError chained to the generator's StopIteration (PEP 479)", 5: 'an object made by the machinery'}


def describe(c, i_ev, i_leaves, i_classes, s_ev, s_leaves):
    """what the implementation did wrong, in the words of the property"""
    what = []
    ev = [i_ev[k:k + 4] for k in range(0, len(i_ev), 4)]
    sv = [s_ev[k:k + 4] for k in range(0, len(s_ev), 4)]
    for it in c['items']:
        for u in it['uses']:
            dem = len([e for e in sv if e[:3] == [1, u['id'], 1]])
            got = len([e for e in ev if e[:3] == [1, u['id'], 1]])
            if dem != got:
                what.append(f'cleanup of generator {u["id"]} ran {got} time(s), the statement demands {dem}')
            dem0 = len([e for e in sv if e[:3] == [1, u['id'], 0]])
            got0 = len([e for e in ev if e[:3] == [1, u['id'], 0]])
            if dem0 != got0:
                what.append(f'setup of generator {u["id"]} ran {got0} time(s), demanded {dem0}')
    if not what and [e[:3] for e in ev] != [e[:3] for e in sv]:
        what.append('order of setup / body / cleanup differs from the demanded order, or the body saw another object than the yielded one')
    if not what and ev != sv:
        what.append('a generator did not receive the caller\'s own arguments')
    for k, (a, b) in enumerate(zip(i_leaves, s_leaves)):
        if a != b:
            cls = cname(i_classes[k]) if i_classes[k] is not None else '-'
            what.append(f'statement {k}: {LEAVES.get(a[0], a)} ({cls}) instead of {LEAVES.get(b[0], b)}')
    if len(i_leaves) != len(s_leaves):
        what.append('number of results differs')
    return '; '.join(what)


# ---- generators of cases ---------------------------------------------------------------------------------

class Ids:
    def __init__(self):
        self.n = 0

    def next(self):
        self.n += 1
        return self.n


def mk_use(rng, ids, setup, cleanup):
    return {'id': ids.next(), 'args': rng.randrange(14), 'setup': setup, 'val': rng.randrange(13), 'cleanup': cleanup}


def mk_seq(rng, var, items, stream, switch='unset', switch_use=None, interp=None):
    c = {'kind': 'seq', 'stream': stream, 'var': var, 'items': items, 'style': rng.choice(STYLES),
         'shared': rng.random() < 0.5, 'suspend': rng.random() < 0.5, 'early': rng.choice(EARLY),
         'switch': switch, 'switch_use': switch if switch_use is None else switch_use,
         'bind': 'function' if rng.random() < 0.65 else rng.choice(BINDS[1:])}
    if interp:
        c['interp'] = interp
    return c


def rand_switch(rng):
    """(at decoration, at use): mostly the default, mostly the same"""
    sw = 'unset' if rng.random() < 0.6 else rng.choice(SWITCHES[1:])
    return sw, (sw if rng.random() < 0.7 else rng.choice(SWITCHES))


def gen_product(rng, tier, scale):
    """one with statement: every setup x body x cleanup outcome class, both variants"""
    cases = []
    bodies = [['normal']] + [['early', k] for k in EARLY] + [['raise', p] for p in FULL]
    cleanups = [['ok'], ['yield', 5]] + [['raise', p] for p in FULL]
    for var in ('sync', 'async'):
        for b in bodies:
            for cl in cleanups:
                ids = Ids()
                c = mk_seq(rng, var, [{'uses': [mk_use(rng, ids, ['ok'], cl)], 'body': b[:1] if b[0] == 'early' else b}], 'with')
                if b[0] == 'early':
                    c['early'] = b[1]
                cases.append(c)
        setups = [['return']] + [['raise', p] for p in FULL]
        some_bodies = [['normal'], ['early'], ['raise', [0, 20]], ['raise', [1]]]
        some_cleanups = [['ok'], ['raise', [0, 1]], ['yield', 3]]
        for s in setups:
            for b in (some_bodies if tier == 'thorough' or scale > 1 else some_bodies[:3]):
                for cl in (some_cleanups if tier == 'thorough' or scale > 1 else some_cleanups[:2]):
                    cases.append(mk_seq(rng, var, [{'uses': [mk_use(rng, Ids(), s, cl)], 'body': b}], 'with'))
    return cases


def rand_use(rng, ids, p_fail=0.12):
    r = rng.random()
    setup = ['ok'] if r > p_fail + 0.06 else ['raise', rng.choice(FULL)] if r > 0.06 else ['return']
    r = rng.random()
    cleanup = ['ok'] if r < 0.55 else ['raise', rng.choice(FULL)] if r < 0.9 else ['yield', rng.randrange(13)]
    return mk_use(rng, ids, setup, cleanup)


def rand_body(rng):
    r = rng.random()
    return ['normal'] if r < 0.2 else ['early'] if r < 0.4 else ['raise', rng.choice(FULL)]


def gen_nested(rng, tier, scale):
    cases = []
    # depth 2, both setups succeed: cleanup x cleanup x body over the representative classes
    outs = [['ok']] + [['raise', p] for p in REPS]
    bodies = [['normal'], ['early']] + [['raise', p] for p in (REPS if tier == 'quick' else FULL)]
    keep = 0.4 if tier == 'quick' and scale == 1 else 1.0
    for var in ('sync', 'async'):
        for c1 in outs:
            for c2 in outs:
                for b in bodies:
                    if rng.random() > keep:
                        continue
                    ids = Ids()
                    cases.append(mk_seq(rng, var, [{'uses': [mk_use(rng, ids, ['ok'], c1), mk_use(rng, ids, ['ok'], c2)], 'body': b}], 'nested'))
    n = (500 if tier == 'quick' else 6000) * scale
    for _ in range(n):
        ids = Ids()
        depth = rng.choice([2, 2, 2, 3, 3, 4, 5])
        uses = [rand_use(rng, ids) for _ in range(depth)]
        cases.append(mk_seq(rng, rng.choice(['sync', 'async']), [{'uses': uses, 'body': rand_body(rng)}], 'nested', *rand_switch(rng)))
    return cases


def gen_repeated(rng, tier, scale):
    cases = []
    n = (250 if tier == 'quick' else 3000) * scale
    for _ in range(n):
        ids = Ids()
        items = []
        for _ in range(rng.choice([2, 2, 3, 3, 4, 5, 8])):
            depth = rng.choice([0, 1, 1, 1, 2, 2, 3])
            items.append({'uses': [rand_use(rng, ids, 0.2) for _ in range(depth)], 'body': rand_body(rng)})
        c = mk_seq(rng, rng.choice(['sync', 'async']), items, 'repeated', *rand_switch(rng))
        c['shared'] = rng.random() < 0.8
        cases.append(c)
    return cases


def gen_deco(stream='decoration', switches=SWITCHES, interp=None):
    cases = []
    for sw in switches:
        for var in ('sync', 'async'):
            for fk in FKIND:
                for form in ('def', 'method', 'partial', 'wrapped', 'callable_object'):
                    cases.append({'kind': 'deco', 'stream': stream, 'var': var, 'fkind': fk, 'form': form, 'switch': sw})
            for fk in ('plain', 'generator'):
                cases.append({'kind': 'deco', 'stream': stream, 'var': var, 'fkind': fk, 'form': 'lambda', 'switch': sw})
            cases.append({'kind': 'shape', 'stream': 'shape' if stream == 'decoration' else stream, 'var': var, 'switch': sw})
    if interp:
        for c in cases:
            c['interp'] = interp
    return cases


def gen_switch(rng, tier, scale):
    """one with statement around a generator function decorated under every state of the global switch other than the
    default one (the `with` stream): every body outcome class x three cleanup outcomes; the state during the with
    statement is the same or another one.  Then: decorated in the default state, used under every other one."""
    cases = []
    bodies = [['normal'], ['early']] + [['raise', p] for p in FULL]
    cleanups = [['ok'], ['raise', [0, 1]], ['raise', SI]]
    for var in ('sync', 'async'):
        for sw in SWITCHES[1:]:
            for b in bodies:
                for cl in cleanups:
                    use = sw if rng.random() < 0.5 else rng.choice(SWITCHES)
                    cases.append(mk_seq(rng, var, [{'uses': [mk_use(rng, Ids(), ['ok'], cl)], 'body': b}], 'switch', sw, use))
            for st in (['raise', [0, 20]], ['raise', [1]], ['raise', SI], ['return']):
                cases.append(mk_seq(rng, var, [{'uses': [mk_use(rng, Ids(), st, ['ok'])], 'body': ['normal']}], 'switch', sw))
            for b in (['normal'], ['early'], ['raise', [0, 1]], ['raise', [1]], ['raise', GE], ['raise', SI]):
                cases.append(mk_seq(rng, var, [{'uses': [mk_use(rng, Ids(), ['ok'], ['ok'])], 'body': b}], 'switch', 'unset', sw))
    return cases


def gen_bound(rng, tier, scale):
    """the decorated generator function as an attribute of a class: every way of reaching it x every shape of the caller's
    arguments x {sync, async} x one decorated function shared by all uses or not, one with statement with a few body / cleanup
    outcomes; then two nested uses and two statements after one another (the same method entered twice)"""
    cases = []
    for var in ('sync', 'async'):
        for bind in BINDS[1:]:
            for a in range(7):
                for b, cl in ((['normal'], ['ok']), (['raise', [0, 1]], ['ok']), (['early'], ['raise', [0, 20]])):
                    ids = Ids()
                    u = mk_use(rng, ids, ['ok'], cl)
                    u['args'] = a
                    c = mk_seq(rng, var, [{'uses': [u], 'body': b}], 'method')
                    c['bind'] = bind
                    cases.append(c)
            for st in (['raise', [0, 20]], ['raise', [1]], ['return']):
                c = mk_seq(rng, var, [{'uses': [mk_use(rng, Ids(), st, ['ok'])], 'body': ['normal']}], 'method')
                c['bind'] = bind
                cases.append(c)
            for _ in range((3 if tier == 'quick' else 30) * scale):
                ids = Ids()
                items = [{'uses': [rand_use(rng, ids) for _ in range(rng.choice([1, 2, 2, 3]))], 'body': rand_body(rng)}
                         for _ in range(rng.choice([1, 2, 3]))]
                c = mk_seq(rng, var, items, 'method', *rand_switch(rng))
                c['bind'] = bind
                cases.append(c)
    return cases


def gen_interp(rng, tier, scale):
    """the decoration scenarios, and a sample of the with statements, in child interpreters: assert statements stripped
    (-O, -OO, PYTHONOPTIMIZE) and/or the switch already in the environment the interpreter starts with"""
    cases = []
    bodies = [['normal'], ['early']] + [['raise', p] for p in REPS]
    for it in INTERPS:
        cases += gen_deco('interpreter', ['inherit'] if it[2] is not None else ['inherit', '0'], it)
        for var in ('sync', 'async'):
            for b in bodies:
                for cl in (['ok'], ['raise', [0, 1]]):
                    cases.append(mk_seq(rng, var, [{'uses': [mk_use(rng, Ids(), ['ok'], cl)], 'body': b}], 'interpreter',
                                        'inherit', None, it))
        for _ in range((8 if tier == 'quick' else 60) * scale):
            ids = Ids()
            items = [{'uses': [rand_use(rng, ids) for _ in range(rng.choice([1, 2, 2, 3]))], 'body': rand_body(rng)}
                     for _ in range(rng.choice([1, 1, 2, 3]))]
            sw = 'inherit' if rng.random() < 0.6 else rng.choice(SWITCHES)
            cases.append(mk_seq(rng, rng.choice(['sync', 'async']), items, 'interpreter', sw,
                                sw if rng.random() < 0.7 else rng.choice(SWITCHES), it))
    return cases


def rand_tree(rng, depth, ctr):
    r = rng.random()
    if depth <= 0 or r < 0.2:
        r = rng.random()
        if r < 0.4:
            return ['ret']
        if r < 0.8:
            ctr[0] += 1
            return ['raise', rng.choice(FULL), ctr[0]]
        return ['reraise']
    ctr[1] += 1
    tag = ctr[1]
    if r < 0.3:
        return ['emit', tag, rand_tree(rng, depth - 1, ctr)]
    ctr[1] += 1
    return ['yield', rng.randrange(1, 13), ['emit', tag, rand_tree(rng, depth - 1, ctr)],
            ['emit', ctr[1], rand_tree(rng, depth - 1, ctr)] if rng.random() < 0.6 else ['reraise']]


def shaped_tree(setup, x, cleanup, guarded):
    """Model/Generator.v plain_gen / guarded_gen"""
    def cl(after):
        if cleanup[0] == 'ok':
            k = after
        elif cleanup[0] == 'raise':
            k = ['raise', cleanup[1], 1]
        else:
            k = ['yield', cleanup[1], ['emit', 2, after], ['reraise']]
        return ['emit', 1, k]
    if setup[0] == 'raise':
        return ['emit', 0, ['raise', setup[1], 0]]
    if setup[0] == 'return':
        return ['emit', 0, ['ret']]
    return ['emit', 0, ['yield', x, cl(['ret']), cl(['reraise']) if guarded else ['reraise']]]


def gen_protocol(rng, tier, scale):
    cases = []
    n = (500 if tier == 'quick' else 6000) * scale
    for _ in range(n):
        tree = rand_tree(rng, rng.choice([1, 2, 3, 3, 4]), [0, 0])
        ops = []
        for _ in range(rng.choice([1, 2, 3, 3, 4, 5, 6])):
            r = rng.random()
            ops.append(['next'] if r < 0.4 else ['send'] if r < 0.5 else ['close'] if r < 0.6 else ['throw', rng.choice(FULL)])
        var = rng.choice(['sync', 'async'])
        if var == 'async' and ['close'] in ops:
            # an async generator remembers that aclose() was called (ag_closed): later calls raise StopAsyncIteration without
            # running the frame.  Not modelled (contextlib never touches a generator after closing it): aclose() comes last
            ops = ops[:ops.index(['close']) + 1]
        cases.append({'kind': 'gen', 'stream': 'generator', 'var': var, 'beh': tree, 'ops': ops})
    return cases


def gen_plain(rng, tier, scale):
    cases = []
    bodies = [['normal'], ['early']] + [['raise', p] for p in REPS]
    outs = [['ok'], ['yield', 4]] + [['raise', p] for p in REPS]
    keep = 0.5 if tier == 'quick' and scale == 1 else 1.0
    for var in ('sync', 'async'):
        for guarded in (False, True):
            for s in [['ok'], ['return'], ['raise', [0, 20]], ['raise', SI]]:
                for cl in (outs if s[0] == 'ok' else outs[:1]):
                    for b in (bodies if s[0] == 'ok' else bodies[:1]):
                        if rng.random() > keep:
                            continue
                        cases.append({'kind': 'plain', 'stream': 'contextlib', 'var': var, 'body': b,
                                      'beh': shaped_tree(s, rng.randrange(1, 13), cl, guarded)})
    n = (400 if tier == 'quick' else 5000) * scale
    for _ in range(n):
        ctr = [0, 0]
        tree = rand_tree(rng, rng.choice([1, 2, 3, 3, 4]), ctr)
        if tree[0] != 'yield' and rng.random() < 0.8:
            tree = ['yield', rng.randrange(1, 13), ['emit', 90, rand_tree(rng, 2, ctr)], ['emit', 91, rand_tree(rng, 2, ctr)]]
        cases.append({'kind': 'plain', 'stream': 'contextlib', 'var': rng.choice(['sync', 'async']), 'beh': tree, 'body': rand_body(rng)})
    return cases


def gen_cases(rng, tier, scale):
    return (gen_product(rng, tier, scale) + gen_nested(rng, tier, scale) + gen_repeated(rng, tier, scale) + gen_deco()
            + gen_switch(rng, tier, scale) + gen_bound(rng, tier, scale) + gen_interp(rng, tier, scale)
            + gen_protocol(rng, tier, scale) + gen_plain(rng, tier, scale))


def size_of(c):
    if c['kind'] == 'seq':
        uses = [u for it in c['items'] for u in it['uses']]
        paths = [len(x[1]) for it in c['items'] for x in [it['body']] + [u['setup'] for u in it['uses']] + [u['cleanup'] for u in it['uses']]
                 if x[0] == 'raise']
        return (0, len(c['items']), len(uses), len(paths), sum(paths), c['var'] == 'async', bool(c.get('suspend')), odd_of(c))
    if c['kind'] in ('deco', 'shape'):
        return (0, 0, 0, 0, 0, c['var'] == 'async', False, odd_of(c))
    return (1, len(json.dumps(c['beh'])), len(c.get('ops', [])), 0, 0, c['var'] == 'async', False, 0)


def odd_of(c):
    """how far the circumstances are from the defaults (a child interpreter counts more than a switch state)"""
    sw = c.get('switch', 'inherit')
    return (8 * bool(c.get('interp')) + 4 * (sw not in ('inherit', 'unset')) + 2 * (c.get('switch_use', sw) != sw)
            + (c.get('bind', 'function') != 'function'))


# ---- judging ------------------------------------------------------------------------------------------------

def judge(c, impl, model):
    """-> (correspondence ok, property ok, what, info)"""
    if impl is None or 'error' in impl:
        return False, True, f'implementation worker failed: {impl}', {}
    k = c['kind']
    if k == 'seq':
        if impl['flat'][:1] == [-4]:
            # the decoration itself raised: the statement demands that a generator function of the right kind is accepted
            corr = model is not None and -1 in model and model[:model.index(-1)] == impl['flat']
            return corr, False, f'decorating a {"generator" if c["var"] == "sync" else "async generator"} function with the ' \
                                f'{c["var"]} decorator raised {impl.get("exc")}', {}
        i_ev, i_leaves, i_classes = parse_impl_seq(impl['flat'])
        s_ev, s_leaves = py_spec(c)
        corr, note = True, ''
        if model is None:
            corr, note = False, 'model evaluation failed'
        elif model == [-2]:
            corr, note = False, 'the regenerated decorator returns neither contextmanager(def wrapper) / asynccontextmanager(async def wrapper) nor the plain helper around f: no model of its with statement'
        else:
            sep = model.index(-1)
            if model[:sep] != impl['flat']:
                corr, note = False, 'journal or result of the implementation differs from the model'
            c_ev, c_leaves = parse_spec_block(model[sep + 1:])
            if (c_ev, c_leaves) != (s_ev, s_leaves):
                return False, True, 'Spec/CtxSpec.v evaluated in Coq and its restatement in harness/c16.py disagree', {'spec_mirror': False}
        info = {'leaves': [l[0] for l in i_leaves]}
        if in_domain(c) and (i_ev, i_leaves) != (s_ev, s_leaves):
            return corr, False, describe(c, i_ev, i_leaves, i_classes, s_ev, s_leaves), info
        return corr, True, note, info
    if k == 'deco':
        demanded_accept = (c['var'], seen_kind(c)) in (('sync', 'generator'), ('async', 'asyncgen'))
        accepted = impl['deco'][:1] in ([0], [2])        # [2, what]: accepted, but what came back has no wrapper
        info = {'exc': impl.get('exc'), 'class': f'a function the {c["var"]} decorator must {"accept" if demanded_accept else "reject"} was '
                                                  f'{"accepted" if accepted else "rejected"}'}
        if accepted != demanded_accept:
            return True, False, (f'{c["fkind"]} function ({c["form"]}) was accepted by the {c["var"]} decorator' if accepted else
                                 f'{c["fkind"]} function ({c["form"]}) was rejected by the {c["var"]} decorator ({impl.get("exc")})'), info
        if model is None:
            return False, True, 'model evaluation failed', info
        sep = model.index(-1)
        if (model[sep + 1] == 1) != demanded_accept:
            return False, True, 'spec_accepts evaluated in Coq and its restatement disagree', info
        if c['form'] in ('partial', 'callable_object') and not accepted:
            return True, True, '', info     # no __name__: the message cannot be built; rejected by another exception class
        return model[:sep] == impl['deco'], True, 'decoration outcome differs from the model', info
    if k == 'shape':
        if model is None:
            return False, True, 'model evaluation failed', {}
        return model == impl['shape'], True, f'metadata/composition flags [wraps, async def, return shape]: implementation {impl["shape"]}, model {model}', {}
    if model is None:
        return False, True, 'model evaluation failed', {}
    return model == impl['flat'], True, 'differs from the model', {}


def matcher(finding, case):
    return False        # no open finding is registered for C16


def run(tier, seed, replay=None):
    ck = Check('C16', tier, seed, UNITS, MODEL, PROPS)
    ck.prepare()

    def evaluate(cases):
        # cases for child interpreters go to two workers of their own (each starts one child per kind of interpreter)
        here = [k for k, c in enumerate(cases) if not c.get('interp')]
        there = [k for k, c in enumerate(cases) if c.get('interp')]
        impl = [None] * len(cases)
        for k, r in zip(here, ck.run_impl('w_ctx', [cases[k] for k in here], timeout=900)):
            impl[k] = r
        for k, r in zip(there, ck.run_impl('w_ctx', [cases[k] for k in there], timeout=900, shards=min(2, max(1, len(there))))):
            impl[k] = r
        model = ck.coq_eval(PRE, [coq_term(c) for c in cases], chunk=250) if ck.model_ok else [None] * len(cases)
        return impl, model

    def still_fails(f):
        i, m = evaluate([f['witness']])
        return not judge(f['witness'], i[0], m[0])[1]
    ck.replay_known_findings(still_fails)

    cases = gen_cases(ck.rng, tier, ck.scale()) if replay is None else [replay['case']]
    impl, model = evaluate(cases)
    hist = {'setup': {}, 'body': {}, 'cleanup': {}, 'variant': {}, 'depth': {}, 'statements': {}, 'style': {}, 'early': {},
            'leaves': {}, 'decoration': {}, 'stream': {}, 'classes_body': {}, 'classes_cleanup': {}, 'classes_setup': {},
            'suspending_async': 0, 'shared_decorated_function': 0, 'out_of_domain_generators': 0,
            'switch_at_decoration': {}, 'switch_at_use_differs': 0, 'interpreter': {}, 'reached_as': {}}

    def bump(d, k):
        d[k] = d.get(k, 0) + 1
    disagreements = {}
    for c, i, m in zip(cases, impl, model):
        stream = c.get('stream', c['kind'])
        bump(hist['stream'], stream)
        bump(hist['variant'], c['var'])
        nontrivial = True
        if c['kind'] in ('seq', 'deco', 'shape'):
            bump(hist['switch_at_decoration'], c.get('switch', 'inherit'))
            it = c.get('interp')
            bump(hist['interpreter'], 'the worker itself' if not it else
                 ('-' + 'O' * it[0] if it[0] and it[1] == 'flag' else f'PYTHONOPTIMIZE={it[0]}' if it[0] else 'no -O')
                 + (f', ENABLE_PEDANTIC={it[2]} in its environment' if it[2] is not None else ''))
        if c['kind'] == 'seq':
            bump(hist['reached_as'], c.get('bind', 'function'))
            hist['switch_at_use_differs'] += int(c.get('switch_use', c.get('switch')) != c.get('switch'))
            bump(hist['statements'], len(c['items']))
            bump(hist['style'], c.get('style', 'nested'))
            hist['suspending_async'] += int(bool(c.get('suspend')) and c['var'] == 'async')
            hist['shared_decorated_function'] += int(bool(c.get('shared')))
            hist['out_of_domain_generators'] += int(not in_domain(c))
            for it in c['items']:
                bump(hist['depth'], len(it['uses']))
                bump(hist['body'], it['body'][0])
                if it['body'][0] == 'early':
                    bump(hist['early'], c.get('early', 'return'))
                if it['body'][0] == 'raise':
                    bump(hist['classes_body'], cname(it['body'][1]))
                for u in it['uses']:
                    bump(hist['setup'], u['setup'][0])
                    bump(hist['cleanup'], u['cleanup'][0])
                    if u['setup'][0] == 'raise':
                        bump(hist['classes_setup'], cname(u['setup'][1]))
                    if u['cleanup'][0] == 'raise':
                        bump(hist['classes_cleanup'], cname(u['cleanup'][1]))
            nontrivial = any(u['setup'][0] == 'ok' for it in c['items'] for u in it['uses'])
        key = json.dumps({k: v for k, v in c.items() if k != 'stream'}, sort_keys=True)
        ck.note_case(key, nontrivial=nontrivial)
        try:
            corr, prop, what, info = judge(c, i, m)
        except Exception as ex:       # a judge never raises: an output it cannot read is a broken correspondence
            corr, prop, what, info = False, True, f'outputs could not be judged: {ex!r}', {}
        for l in info.get('leaves', []):
            bump(hist['leaves'], LEAVES.get(l, str(l)))
        if c['kind'] == 'deco':
            bump(hist['decoration'], f'{c["var"]}/{c["fkind"]}/{c["form"]}: ' + ('accepted' if i and (i.get('deco') or [1])[0] in (0, 2) else f'rejected ({info.get("exc")})'))
        if corr and prop:
            ck.traces_validated += 1
        if not prop:
            circ = circumstances(c)
            ck.violation((circ + ': ' if circ else '') + what, {k: v for k, v in c.items()}, stream=stream,
                         extra={'impl': i, 'model': m, 'class': info.get('class') or what.split(';')[0][:70], 'circumstances': circ or 'defaults'},
                         matcher=matcher)
        elif not corr:
            disagreements.setdefault(stream, []).append({'case': c, 'impl': i, 'model': m, 'what': what})
    # smallest failing input first: fewest statements, fewest generators, shortest class paths, sync before async
    ck.violations.sort(key=lambda v: size_of(v['case']))
    for stream in ('with', 'nested', 'repeated', 'decoration', 'shape', 'switch', 'method', 'interpreter', 'generator', 'contextlib'):
        ds = sorted(disagreements.get(stream, []), key=lambda d: size_of(d['case']))
        n_stream = hist['stream'].get(stream, 0)
        if n_stream or ds:
            ck.oblige(f'correspondence:{stream}', 'correspondence', not ds,
                      f'{len(ds)} of {n_stream} differ; smallest: ' + json.dumps(ds[0])[:1500] if ds else f'{n_stream} cases agree')
    hist['disagreements'] = {k: len(v) for k, v in disagreements.items()}
    ck.coverage.update({'input_distribution': hist})
    pick = [x for x in zip(cases, impl, model)]
    ck.samples = [{'case': c, 'impl': i, 'model': m} for c, i, m in pick[:2] + pick[len(pick) // 3:len(pick) // 3 + 2] + pick[-2:]]
    ck.assumptions = [
        'setup, body and cleanup are observed through journals written by generated generator functions and with-bodies; '
        'object identity (`is`) decides which exception object leaves, which object `as` bound and whether the generator received the caller\'s own arguments',
        'exception classes form a single-inheritance tree (paths of Base/Exn.v); unknown paths are created as fresh classes',
        'async with statements are driven without an event loop (coroutine.send); half of the async cases suspend in setup, body and cleanup',
        'PEP 479: a StopIteration (async: also StopAsyncIteration) raised inside the user\'s generator reaches any caller as a RuntimeError chained to it; '
        'the property\'s "propagates" is read modulo this conversion, which Python applies before the decorator sees the exception',
        'CPython 3.12 generator protocol and contextlib are modelled (Model/Generator.v, Model/Contextlib.v) and validated by the generator and contextlib streams only',
        'the property is read without an exception for the global switch or the interpreter mode: the demanded journal and result are the same under every '
        'state of ENABLE_PEDANTIC (at decoration, during use) and under -O / -OO.  In the model the switch enters as the value of is_enabled() '
        '(true for unset / "1"), -O as "assert statements do nothing"; the state of the switch during use and the way the interpreter got its mode '
        '(flag, PYTHONOPTIMIZE, environment of the process) exist on the implementation side only and are judged by the specification directly',
        'the way the decorated generator function is reached (plain function, instance method, classmethod, staticmethod ...) exists on the implementation side only: '
        'the generated generator checks that its first argument IS the receiver and the rest are the caller\'s own arguments; the demanded journal is that of the plain function',
    ]
    return ck.finish(
        rule='with: full product {setup ok} x body {normal, return, break, continue, raise each of 19 classes} x cleanup {ok, second yield, raise each of 19 classes} '
             'x {sync, async} plus setup {no yield, raise each of 19 classes} x bodies x cleanups; nested: depth-2 product over 7 representative classes plus random depth 2..5; '
             'repeated: 2..8 statements on one decorated function; decoration: 4 kinds of def x 6 forms x 2 decorators x 5 switch states; '
             'switch: {4 non-default switch states at decoration} x body {normal, early, raise each of 19 classes} x cleanup {ok, ValueError, StopIteration} x {sync, async}, '
             'failing setups, and default-at-decoration x 4 states during use; method: the decorated generator function as attribute of a class - '
             '{instance method via instance / bound once / Class.m(obj) / subclass instance, classmethod via class / instance, staticmethod} x 7 argument shapes x '
             '3 body/cleanup outcomes x {sync, async}, failing setups, random nested/repeated (35% of all other with-statement cases draw one of these forms too); interpreter: 7 kinds of child interpreter (-O, -OO, PYTHONOPTIMIZE=1/2, ENABLE_PEDANTIC=0/1 in '
             'the environment, -OO with ENABLE_PEDANTIC=0) x (all decoration cases + 36 with statements + random nested/repeated); generator/contextlib: random behaviour trees; '
             'distinct = the whole case; non-trivial = at least one generator whose setup succeeds (body runs inside a with statement)',
        checker_cmd='make -C coq Props/C16.vo && coqc -Q coq PV coq/Props/C16.v (Print Assumptions under every theorem)',
        trusted_base=['Coq 8.16.1 kernel (coqc; vm_compute used for model/spec evaluation)',
                      'translator/t_ctx.py (Python ast -> Gen/CtxShape.v: wrapper bodies as programs, decoration guards, composition flags)',
                      'Model/Generator.v, Model/Contextlib.v, Model/SafeCtx.v: semantics of generator objects, contextlib and the with statement (validated by correspondence)',
                      'harness/w_ctx.py, harness/c16.py (journals, identity bookkeeping, comparison)',
                      'CPython 3.12: generators, async generators, PEP 343/492 with statements, contextlib, inspect.is(async)generatorfunction'])
