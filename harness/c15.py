"""C15 - retry.  Proof: coq/Props/C15.v over the regenerated loop (Gen/Retry.v).
Correspondence: scripted outcome sequences on retry_func and @retry vs the model evaluated in Coq."""
import itertools, json
from lib import *

UNITS = ['Retry']
MODEL = ['Model/RetryEval.vo']
PROPS = 'Props/C15.v'
PRE = 'From Coq Require Import List ZArith.\nFrom PV Require Import Base.Exn Model.RetrySem Model.RetryEval.\nImport ListNotations.'

# exception universe (paths of coq/Base/Exn.v)
U = {'Base': [], 'Exc': [0], 'KbdInt': [1], 'Value': [0, 1], 'Lookup': [0, 3], 'Index': [0, 3, 0], 'Key': [0, 3, 1],
     'User': [0, 20], 'UserSub': [0, 20, 0], 'UserSubSub': [0, 20, 0, 0], 'User2': [0, 21]}
SPECS = [(['Exc'], True), (['Value'], True), (['Lookup'], True), (['Value', 'Key'], False), (['User'], True),
         (['UserSub', 'Index'], False), (['Exc'], False), (['User2', 'Lookup', 'Value'], False)]


def coq_case(c):
    def oc(o):
        return 'ORet' if o[0] == 'ret' else 'ORaise ' + coq_list([coq_nat(x) for x in o[1]])
    spec = coq_list([coq_list([coq_nat(x) for x in p]) for p in c['spec']])
    return f'eval_case {coq_Z(c["attempts"])} {spec} {coq_list([oc(o) for o in c["outs"]])} ({oc(c["tail"])})'


def classify(c):
    """outcome kinds relative to the spec: return / listed / subclass-of-listed / foreign / BaseException"""
    kinds = []
    for o in c['outs'] + [c['tail']]:
        if o[0] == 'ret':
            kinds.append('return'); continue
        p = o[1]
        if p[:1] != [0]:
            kinds.append('base')
        elif any(p == s for s in c['spec']):
            kinds.append('listed')
        elif any(p[:len(s)] == s for s in c['spec']):
            kinds.append('sub')
        else:
            kinds.append('foreign')
    return kinds


def gen_cases(rng, tier):
    cases = []
    outcomes_pool = [['ret']] + [['raise', U[k]] for k in ('Value', 'Key', 'Index', 'Lookup', 'User', 'UserSub', 'UserSubSub',
                                                            'User2', 'Exc', 'KbdInt', 'Base')]
    # exhaustive small scope: every sequence of length <= L over 5 outcome kinds chosen per spec
    L = 4 if tier == 'quick' else 6
    att_range = range(-1, 7) if tier == 'quick' else range(-2, 10)
    for (names, single) in SPECS[:4 if tier == 'quick' else len(SPECS)]:
        spec = [U[n] for n in names]
        # representatives: return, listed, subclass of listed, foreign Exception, BaseException
        listed = spec[0]
        reps = [['ret'], ['raise', listed], ['raise', listed + [7]], ['raise', [0, 30]], ['raise', [1]]]
        for n in range(0, L + 1):
            for seq in itertools.product(range(5), repeat=n):
                # sample the product in the quick tier
                if n >= 3 and rng.random() > (0.25 if tier == 'quick' else 0.5):
                    continue
                att = rng.choice(list(att_range))
                tail = reps[rng.choice([0, 0, 1, 3])]
                cases.append({'attempts': att, 'spec': spec, 'single': single, 'outs': [reps[i] for i in seq], 'tail': tail,
                              'mode': rng.choice(['func', 'deco'])})
    # random longer sequences, all attempts
    n_rand = 1500 if tier == 'quick' else 20000
    for _ in range(n_rand):
        names, single = rng.choice(SPECS)
        spec = [U[n] for n in names]
        ln = rng.choice([0, 1, 2, 3, 5, 8, 12, 20])
        pool = [['ret']] * 2 + [['raise', s] for s in spec] * 3 + outcomes_pool
        outs = [rng.choice(pool) for _ in range(ln)]
        if rng.random() < 0.5:   # make it mostly listed failures so the loop really iterates
            outs = [rng.choice([['raise', s] for s in spec] + [['raise', spec[0] + [rng.randrange(3)]]]) for _ in range(ln)]
            if outs and rng.random() < 0.6:
                outs[-1] = rng.choice([['ret'], ['raise', [0, 30]], ['raise', [1]]])
        att = rng.choice([-5, 0, 1, 1, 2, 2, 3, 3, 4, 5, 6, 8, 13, 21, 40])
        tail = rng.choice([['ret'], ['ret'], ['raise', spec[0]], ['raise', [0, 30]]])
        cases.append({'attempts': att, 'spec': spec, 'single': single, 'outs': outs, 'tail': tail,
                      'mode': rng.choice(['func', 'deco'])})
    return cases


def judge(c, impl, model):
    """returns (correspondence_ok, property_ok, what)"""
    if impl is None or 'error' in impl:
        return False, True, f'implementation worker failed: {impl}'
    if model is None:
        return False, True, 'model evaluation failed'
    kind, idx, spec_n = model[0], model[1], model[2]
    sep = model.index(-1, 3)
    m_trace, s_trace = model[3:sep], model[sep + 1:]
    i_res, i_trace = impl['result'], impl['events']
    corr = (i_res == [kind, idx] and (i_trace == m_trace or kind == 2))
    what = []
    if impl['n_calls'] != spec_n:
        what.append(f'{impl["n_calls"]} invocations, the statement demands {spec_n}')
    if i_res != [0, impl['n_calls'] - 1]:
        what.append(f'caller did not receive the object of the last invocation (got {i_res}, last={impl["n_calls"] - 1})')
    if i_trace != s_trace and not what:
        what.append(f'observable trace {i_trace} differs from the demanded {s_trace} (1=call with the caller\'s own arguments, '
                    f'2=call with other arguments, 3=sleep)')
    return corr, not what, '; '.join(what)


def corner_stream(ck, replay):
    """callees outside the scripted stream (parameters named like the machinery's keywords, callables without __name__):
    impl-only table judged by the statement (invocation count, arguments unchanged, last outcome is the result)"""
    if replay is None:
        n = ck.run_impl('w_retry', [{'obs': 'corner', 'size': 1}], shards=1)[0]['size']
        idx = list(range(n))
    else:
        idx = [replay['case']['i']]
    res = ck.run_impl('w_retry', [{'obs': 'corner', 'i': i} for i in idx], shards=1)
    for i, r in zip(idx, res):
        if r is None or 'error' in r:
            ck.oblige('impl-worker:corner', 'correspondence', False, str(r))
            continue
        ck.note_case('corner-%d' % i, nontrivial=True)
        what = []
        if r['n_calls'] != r['expect_calls']:
            what.append(f'{r["n_calls"]} invocations, the statement demands {r["expect_calls"]}')
        if not r['args_unchanged']:
            what.append('an attempt did not receive the caller\'s arguments unchanged')
        if not r['result_is_last']:
            what.append(f'the caller did not see the outcome of the last invocation ({r["kind"]}: {r["exc"]})')
        if what:
            ck.violation(r['name'] + ': ' + '; '.join(what), {'obs': 'corner', 'i': i, 'name': r['name'], 'outs': [], 'attempts': 4},
                         stream='corner', extra={'impl': r})
    ck.coverage['corner_callees'] = len(idx)


def seq_stream(ck, tier, replay):
    """one decorated function called several times in a row: each call is judged on its own against the model of THAT call
    (state carried from one call of the wrapper to the next - a shared generator, a counter - shows here)"""
    if replay is not None:
        seqs = [replay['case']['seq']]
    else:
        seqs = []
        for _ in range(150 if tier == 'quick' else 1500):
            names, single = ck.rng.choice(SPECS)
            spec = [U[n] for n in names]
            calls = []
            for _ in range(ck.rng.choice([2, 3, 4, 6])):
                ln = ck.rng.choice([0, 0, 1, 2, 3, 5])
                outs = [ck.rng.choice([['raise', s] for s in spec] + [['raise', spec[0] + [1]]]) for _ in range(ln)]
                tail = ck.rng.choice([['ret'], ['ret'], ['ret'], ['raise', spec[0]], ['raise', [0, 30]]])
                calls.append({'outs': outs, 'tail': tail})
            seqs.append({'mode': 'deco_seq', 'attempts': ck.rng.choice([1, 2, 3, 3, 4, 5, 8]), 'spec': spec, 'single': single, 'calls': calls})
    impl = ck.run_impl('w_retry', seqs, timeout=600)
    flat = [(si, ci) for si, sq in enumerate(seqs) for ci in range(len(sq['calls']))]
    sub = lambda si, ci: dict(seqs[si], outs=seqs[si]['calls'][ci]['outs'], tail=seqs[si]['calls'][ci]['tail'])
    model = ck.coq_eval(PRE, [coq_case(sub(si, ci)) for si, ci in flat]) if ck.model_ok else [None] * len(flat)
    bad_corr = []
    for (si, ci), m in zip(flat, model):
        r = impl[si]
        i = None if r is None or 'error' in r else r['calls'][ci] if ci < len(r['calls']) else None
        ck.note_case('seq-%s' % json.dumps([seqs[si]['attempts'], seqs[si]['spec'], seqs[si]['calls'][:ci + 1]]), nontrivial=ci >= 1)
        corr, prop, what = judge(sub(si, ci), i if i is not None else r, m)
        if corr and prop:
            ck.traces_validated += 1
        if not prop:
            ck.violation(f'call {ci + 1} of {len(seqs[si]["calls"])} on one decorated function: ' + what,
                         {'obs': 'seq', 'seq': dict(seqs[si], calls=seqs[si]['calls'][:ci + 1]), 'outs': seqs[si]['calls'][ci]['outs'],
                          'attempts': seqs[si]['attempts']}, stream='deco-seq', extra={'impl': i, 'model': m})
            break
        elif not corr:
            bad_corr.append({'seq': seqs[si], 'call': ci, 'impl': i, 'model': m, 'what': what})
    ck.oblige('correspondence:retry-sequences', 'correspondence', not bad_corr,
              json.dumps(bad_corr[0])[:900] if bad_corr else f'{len(flat)} calls in {len(seqs)} call sequences agree')
    ck.coverage['call_sequences'] = {'sequences': len(seqs), 'calls': len(flat)}


def run(tier, seed, replay=None):
    ck = Check('C15', tier, seed, UNITS, MODEL, PROPS)
    ck.prepare()
    if replay is not None and replay['case'].get('obs') in ('corner', 'seq'):
        cases = []
    else:
        cases = gen_cases(ck.rng, tier) if replay is None else [replay['case']]
    impl = ck.run_impl('w_retry', cases, timeout=600)
    model = ck.coq_eval(PRE, [coq_case(c) for c in cases]) if ck.model_ok else [None] * len(cases)
    hist = {}
    disagreements = []
    for c, i, m in zip(cases, impl, model):
        kinds = classify(c)
        for k in set(kinds):
            hist[k] = hist.get(k, 0) + 1
        key = json.dumps([c['attempts'], c['spec'], c['outs'], c['tail'], c['mode']])
        ck.note_case(key, nontrivial=(len(c['outs']) >= 1 and c['attempts'] >= 2))
        corr, prop, what = judge(c, i, m)
        if corr and prop:
            ck.traces_validated += 1
        if not prop:
            ck.violation(what, c, stream='retry', extra={'impl': i, 'model': m})
        elif not corr:
            disagreements.append({'case': c, 'impl': i, 'model': m, 'what': what})
    # shrink: prefer the violation with the shortest outcome list
    ck.violations.sort(key=lambda v: (len(v['case']['outs']), abs(v['case']['attempts'])))
    if replay is None or replay['case'].get('obs') == 'corner':
        corner_stream(ck, replay)
    if replay is None or replay['case'].get('obs') == 'seq':
        seq_stream(ck, tier, replay)
    ck.violations.sort(key=lambda v: (len(json.dumps(v['case'])),))
    ck.oblige('correspondence:retry', 'correspondence', not disagreements,
              json.dumps(disagreements[0])[:900] if disagreements else f'{ck.traces_validated} traces agree')
    if cases:
        ck.coverage.update({'outcome_kind_histogram': hist, 'attempts_range': [min(c['attempts'] for c in cases), max(c['attempts'] for c in cases)],
                            'max_sequence_length': max(len(c['outs']) for c in cases), 'disagreements': len(disagreements)})
    ck.samples = [{'case': c, 'impl': i, 'model': m} for c, i, m in list(zip(cases, impl, model))[:3] + list(zip(cases, impl, model))[-3:]]
    ck.assumptions = ['time.sleep is patched in the harness process', 'logger output is not compared',
                      'exception classes form a single-inheritance tree (paths); isinstance(e, exceptions) is prefix matching']
    return ck.finish(
        rule='exhaustive (sampled above length 2) outcome sequences over {return, listed, subclass of listed, foreign, BaseException} '
             'x attempts x exception specs x {retry_func, @retry}, plus random longer sequences; distinct = (attempts, spec, outcomes, tail, mode); '
             'non-trivial = at least one scripted outcome and attempts >= 2',
        checker_cmd='make -C coq Props/C15.vo && coqc -Q coq PV coq/Props/C15.v (Print Assumptions under every theorem)',
        trusted_base=['Coq 8.16.1 kernel (coqc; vm_compute used for model evaluation and cfg_good)', 'translator/t_retry.py (Python ast -> Gen/Retry.v)',
                      'Model/RetrySem.v semantics of the loop family', 'harness/w_retry.py, harness/c15.py (correspondence glue)',
                      'CPython 3.12 semantics of while/try/except/return'])
