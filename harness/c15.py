"""C15 - retry.  Proof: coq/Props/C15.v over the regenerated loop (Gen/Retry.v).
Correspondence: scripted outcome sequences on retry_func and @retry vs the model evaluated in Coq.
Outcomes: ['ret'] | ['raise', class path] | ['group', tree] with tree = [path] (plain leaf) | [path, [tree, ...]] (an exception
group of class `path` carrying the members) - Model/RetryGroups.v."""
import itertools, json
from lib import *

UNITS = ['Retry']
MODEL = ['Model/RetryEval.vo']
PROPS = 'Props/C15.v'
PRE = 'From Coq Require Import List ZArith.\nFrom PV Require Import Base.Exn Model.RetrySem Model.RetryGroups Model.RetryEval.\nImport ListNotations.'

# exception universe (paths of coq/Base/Exn.v)
U = {'Base': [], 'Exc': [0], 'KbdInt': [1], 'Value': [0, 1], 'Lookup': [0, 3], 'Index': [0, 3, 0], 'Key': [0, 3, 1],
     'User': [0, 20], 'UserSub': [0, 20, 0], 'UserSubSub': [0, 20, 0, 0], 'User2': [0, 21],
     # exception groups (Model/RetryGroups.v; registered in the class map by harness/w_retry.py)
     'BEG': [4], 'BEGsub': [4, 0], 'EG': [0, 15], 'EGsub': [0, 15, 0]}
N_PLAIN_SPECS = 8      # the exhaustive sweeps run over these
SPECS = [(['Exc'], True), (['Value'], True), (['Lookup'], True), (['Value', 'Key'], False), (['User'], True),
         (['UserSub', 'Index'], False), (['Exc'], False), (['User2', 'Lookup', 'Value'], False),
         # specifications that list a group class themselves
         (['Value', 'EG'], False), (['EG'], True), (['EGsub', 'Key'], False), (['BEG'], True)]


def derives(e, c):
    return e[:len(c)] == c


def derives_g(e, c):
    """issubclass on the paths, with the one multiple-inheritance edge ExceptionGroup -> BaseExceptionGroup (RetryGroups.derives_g)"""
    return derives(e, c) or (derives(e, U['EG']) and derives(U['BEG'], c))


def is_group_class(p):
    return derives_g(p, U['BEG'])


def listed_by(spec, p):
    return any(derives_g(p, s) for s in spec)


def own_class(o):
    """class path of the object an outcome raises"""
    return o[1] if o[0] == 'raise' else o[1][0]


def leaves(t):
    return [t[0]] if len(t) == 1 else [l for m in t[1] for l in leaves(m)]


def depth(t):
    return 0 if len(t) == 1 else 1 + max(depth(m) for m in t[1])


def coq_path(p):
    return coq_list([coq_nat(x) for x in p])


def coq_case(c):
    def obj(t):
        return f'XPlain {coq_path(t[0])}' if len(t) == 1 else f'XGroup {coq_path(t[0])} {coq_list([obj(m) for m in t[1]])}'

    def oc(o):
        return 'XRet' if o[0] == 'ret' else 'XRaise (' + obj([o[1]] if o[0] == 'raise' else o[1]) + ')'
    spec = coq_list([coq_path(p) for p in c['spec']])
    return f'eval_case_x {coq_Z(c["attempts"])} {spec} {coq_list([oc(o) for o in c["outs"]])} ({oc(c["tail"])})'


def classify(c):
    """outcome kinds relative to the spec: return / listed / subclass-of-listed / foreign / BaseException, and for groups
    own class listed or not x what the leaves are"""
    kinds = []
    for o in c['outs'] + [c['tail']]:
        if o[0] == 'ret':
            kinds.append('return'); continue
        p = own_class(o)
        if o[0] == 'group':
            lv = [listed_by(c['spec'], l) for l in leaves(o[1])]
            kinds.append('group:%s/%s-leaves%s' % ('own-class-listed' if listed_by(c['spec'], p) else 'own-class-foreign',
                                                   'listed' if all(lv) else 'mixed' if any(lv) else 'foreign',
                                                   '/nested' if depth(o[1]) > 1 else ''))
            if not derives(p, U['Exc']):
                kinds.append('group:BaseExceptionGroup')
        elif p[:1] != [0]:
            kinds.append('base')
        elif any(p == s for s in c['spec']):
            kinds.append('listed')
        elif listed_by(c['spec'], p):
            kinds.append('sub')
        else:
            kinds.append('foreign')
    return kinds


# ---- generation of exception groups ------------------------------------------------------------------------------------
def group_class_for(rng, members, prefer=None):
    """a group class that CPython accepts for these members: classes below ExceptionGroup carry Exception members only,
    BaseExceptionGroup itself turns into an ExceptionGroup when all members are Exceptions (so it is used only with a
    member that is not), user subclasses of BaseExceptionGroup carry anything"""
    only_exc = all(derives(m[0], U['Exc']) for m in members)
    ok = [U['EG'], U['EG'], U['EGsub'], U['BEGsub']] if only_exc else [U['BEG'], U['BEG'], U['BEGsub']]
    if prefer is not None:
        good = [p for p in prefer if (derives(p, U['EG']) and only_exc) or (p == U['BEG'] and not only_exc)
                or (derives(p, U['BEG']) and p != U['BEG'])]
        if good and rng.random() < 0.7:
            return rng.choice(good)
    return rng.choice(ok)


def gen_group(rng, spec, flavour, level=0):
    """flavour: what the leaves are relative to the spec - 'listed' (every leaf listed), 'mixed', 'foreign', 'base' (a leaf that
    is not an Exception).  With some probability a member is a nested group of the same flavour."""
    plain_listed = [s for s in spec if derives(s, U['Exc']) and not is_group_class(s)]
    foreign = [p for p in ([0, 30], [0, 31], U['User2'], [0, 11]) if not listed_by(spec, p)] or [[0, 30]]

    def leaf(kind):
        if kind == 'listed' and plain_listed:
            s = rng.choice(plain_listed)
            return [s + [rng.randrange(3)]] if rng.random() < 0.25 else [s]
        if kind == 'base':
            return [rng.choice([U['KbdInt'], [2]])]
        return [rng.choice(foreign)]
    n = rng.choice([1, 1, 2, 2, 3])
    if flavour == 'mixed':
        kinds = ['listed', 'foreign'] + [rng.choice(['listed', 'foreign']) for _ in range(n - 1)]
        rng.shuffle(kinds)
    elif flavour == 'base':
        kinds = ['base'] + [rng.choice(['listed', 'foreign', 'base']) for _ in range(n - 1)]
        rng.shuffle(kinds)
    else:
        kinds = [flavour] * n
    members = []
    for k in kinds:
        if level < 2 and rng.random() < 0.3:
            members.append(gen_group(rng, spec, k if k != 'mixed' else 'listed', level + 1)[1])
        else:
            members.append(leaf(k))
    prefer = [s for s in spec if is_group_class(s)] + [s + [0] for s in spec if is_group_class(s)]
    return ['group', [group_class_for(rng, members, prefer or None), members]]


def instance_of(rng, spec, cls):
    """an outcome raising an instance of class `cls` - a group when cls is a group class"""
    if not is_group_class(cls):
        return ['raise', cls]
    for _ in range(8):
        g = gen_group(rng, spec, rng.choice(['listed', 'mixed', 'foreign'] if derives(cls, U['EG']) else ['base', 'listed', 'base']))
        m = g[1][1]
        only_exc = all(derives(x[0], U['Exc']) for x in m)
        if (derives(cls, U['EG']) and only_exc) or (cls == U['BEG'] and not only_exc) or (derives(cls, U['BEG']) and cls != U['BEG']):
            return ['group', [cls, m]]
    return ['group', [cls, [[U['Value']]] if cls != U['BEG'] else [[U['KbdInt']]]]]


# NOTE nested tuples - ((),), ((ValueError,), KeyError) - are no exception specification: `except` (unlike isinstance) refuses a
# tuple inside a tuple with TypeError on CPython 3, so the only spec that lists nothing is the empty tuple itself.


def gen_empty_spec_cases(rng, tier):
    """`exceptions` that lists NOTHING - the empty tuple (a computed tuple of retryable classes that came out empty): every
    exception is foreign, so exactly one invocation.  Exhaustive over sequences of length <= 4 of {return, Exception, ValueError,
    a group, KeyboardInterrupt}, twice; attempts drawn."""
    cases = []
    att_range = list(range(-1, 7)) if tier == 'quick' else list(range(-2, 10))
    for _ in range(2):
        def rep(i):
            return [['ret'], ['raise', U['Exc']], ['raise', U['Value']], None, ['raise', U['KbdInt']]][i] or gen_group(rng, [], 'foreign')
        for n in range(0, 5):
            for seq in itertools.product(range(5), repeat=n):
                if n >= 3 and rng.random() > (0.25 if tier == 'quick' else 1.0):
                    continue
                cases.append({'attempts': rng.choice(att_range + [2, 3, 5]), 'spec': [], 'single': False,
                              'outs': [rep(i) for i in seq], 'tail': rep(rng.choice([0, 0, 1, 2, 3])), 'mode': rng.choice(['func', 'deco'])})
    return cases


def gen_cases(rng, tier):
    cases = gen_empty_spec_cases(rng, tier)
    outcomes_pool = [['ret']] + [['raise', U[k]] for k in ('Value', 'Key', 'Index', 'Lookup', 'User', 'UserSub', 'UserSubSub',
                                                            'User2', 'Exc', 'KbdInt', 'Base')]
    # exhaustive small scope: every sequence of length <= L over 5 outcome kinds chosen per spec
    L = 4 if tier == 'quick' else 6
    att_range = range(-1, 7) if tier == 'quick' else range(-2, 10)
    for (names, single) in SPECS[:4 if tier == 'quick' else N_PLAIN_SPECS]:
        spec = [U[n] for n in names]
        # representatives: return, listed, subclass of listed, foreign Exception, BaseException
        listed = spec[0]
        reps = [['ret'], ['raise', listed], ['raise', listed + [7]], ['raise', [0, 30]], ['raise', [1]]]
        for n in range(0, L + 1):
            for seq in itertools.product(range(5), repeat=n):
                # sample the product in the quick tier
                if n >= 3 and rng.random() > (0.25 if tier == 'quick' else 0.5):
                    continue
                att = rng.choice(list(att_range))
                tail = reps[rng.choice([0, 0, 1, 3])]
                cases.append({'attempts': att, 'spec': spec, 'single': single, 'outs': [reps[i] for i in seq], 'tail': tail,
                              'mode': rng.choice(['func', 'deco'])})
    # exception groups, exhaustive small scope: every sequence of length <= Lg over {return, listed, foreign, a group whose own
    # class is foreign and whose leaves are all listed / mixed / nested-all-listed / foreign, a group whose own class is listed}
    # (the group objects are drawn afresh for every sequence)
    Lg = 3 if tier == 'quick' else 4
    for (names, single) in [SPECS[1], SPECS[3], SPECS[0], SPECS[8]] + ([] if tier == 'quick' else [SPECS[5], SPECS[9], SPECS[10], SPECS[11]]):
        spec = [U[n] for n in names]
        plain = next((s for s in spec if not is_group_class(s)), None)

        def rep(i):
            if i == 0:
                return ['ret']
            if i == 1:
                return ['raise', plain] if plain is not None else instance_of(rng, spec, spec[0])
            if i == 2:
                return ['raise', [0, 30]]
            if i == 3:
                return gen_group(rng, spec, 'listed')
            if i == 4:
                return gen_group(rng, spec, 'mixed')
            if i == 5:
                inner = [gen_group(rng, spec, 'listed')[1], gen_group(rng, spec, 'listed', 2)[1]]
                return ['group', [group_class_for(rng, inner), inner]]
            if i == 6:
                return gen_group(rng, spec, rng.choice(['foreign', 'base']))
            listed_groups = [s for s in spec if is_group_class(s)]
            return instance_of(rng, spec, rng.choice(listed_groups)) if listed_groups else gen_group(rng, spec, 'listed', 2)
        for n in range(1, Lg + 1):
            for seq in itertools.product(range(8), repeat=n):
                if not any(i >= 3 for i in seq) or (n >= 3 and rng.random() > (0.5 if tier == 'quick' else 0.4)):
                    continue
                cases.append({'attempts': rng.choice(list(att_range)), 'spec': spec, 'single': single, 'outs': [rep(i) for i in seq],
                              'tail': rep(rng.choice([0, 0, 1, 2, 3])), 'mode': rng.choice(['func', 'deco'])})
    # random longer sequences, all attempts
    n_rand = 1500 if tier == 'quick' else 20000
    for _ in range(n_rand):
        names, single = rng.choice(SPECS)
        spec = [U[n] for n in names]
        ln = rng.choice([0, 1, 2, 3, 5, 8, 12, 20])
        inst = lambda cls: instance_of(rng, spec, cls)
        pool = [['ret']] * 2 + [inst(s) for s in spec] * 3 + outcomes_pool
        outs = [rng.choice(pool) for _ in range(ln)]
        if rng.random() < 0.5:   # make it mostly listed failures so the loop really iterates
            outs = [rng.choice([inst(s) for s in spec] + [inst(spec[0] + [rng.randrange(3)])]) for _ in range(ln)]
            if outs and rng.random() < 0.6:
                outs[-1] = rng.choice([['ret'], ['raise', [0, 30]], ['raise', [1]]])
        if rng.random() < 0.35:  # exception groups among the outcomes, at random positions
            for j in range(len(outs)):
                if rng.random() < 0.3:
                    outs[j] = gen_group(rng, spec, rng.choice(['listed', 'listed', 'mixed', 'foreign', 'base']))
        att = rng.choice([-5, 0, 1, 1, 2, 2, 3, 3, 4, 5, 6, 8, 13, 21, 40])
        tail = rng.choice([['ret'], ['ret'], inst(spec[0]), ['raise', [0, 30]], gen_group(rng, spec, rng.choice(['listed', 'mixed']))])
        cases.append({'attempts': att, 'spec': spec, 'single': single, 'outs': outs, 'tail': tail,
                      'mode': rng.choice(['func', 'deco'])})
    return cases


def class_map_ok(c, impl):
    """the harness' own glue: isinstance(obj, exceptions) observed by the worker on every raised object must be what the
    class paths say (the model and the specification are evaluated on the paths)"""
    if not impl or 'isinst' not in impl:
        return True
    seq = c['outs']
    for i, flag in enumerate(impl['isinst']):
        o = seq[i] if i < len(seq) else c['tail']
        if (flag is None) != (o[0] == 'ret') or (flag is not None and flag != listed_by(c['spec'], own_class(o))):
            return False
    return True


def judge(c, impl, model):
    """returns (correspondence_ok, property_ok, what)"""
    if impl is None or 'error' in impl:
        return False, True, f'implementation worker failed: {impl}'
    if model is None:
        return False, True, 'model evaluation failed'
    kind, idx, spec_n = model[0], model[1], model[2]
    sep = model.index(-1, 3)
    m_trace, s_trace = model[3:sep], model[sep + 1:]
    i_res, i_trace = impl['result'], impl['events']
    corr = (i_res == [kind, idx] and (i_trace == m_trace or kind == 2))
    what = []
    if impl['n_calls'] != spec_n:
        what.append(f'{impl["n_calls"]} invocations, the statement demands {spec_n}')
    if i_res != [0, impl['n_calls'] - 1]:
        what.append(f'caller did not receive the object of the last invocation (got {i_res}, last={impl["n_calls"] - 1}'
                    + (f': {impl.get("exc")}, an object no invocation raised' if i_res[0] == 3 and impl.get('exc') else '') + ')')
    if i_trace != s_trace and not what:
        what.append(f'observable trace {i_trace} differs from the demanded {s_trace} (1=call with the caller\'s own arguments, '
                    f'2=call with other arguments, 3=sleep)')
    return corr, not what, '; '.join(what)


def corner_stream(ck, replay):
    """callees outside the scripted stream (parameters named like the machinery's keywords, callables without __name__):
    impl-only table judged by the statement (invocation count, arguments unchanged, last outcome is the result)"""
    if replay is None:
        n = ck.run_impl('w_retry', [{'obs': 'corner', 'size': 1}], shards=1)[0]['size']
        idx = list(range(n))
    else:
        idx = [replay['case']['i']]
    res = ck.run_impl('w_retry', [{'obs': 'corner', 'i': i} for i in idx], shards=1)
    for i, r in zip(idx, res):
        if r is None or 'error' in r:
            ck.oblige('impl-worker:corner', 'correspondence', False, str(r))
            continue
        ck.note_case('corner-%d' % i, nontrivial=True)
        what = []
        if r['n_calls'] != r['expect_calls']:
            what.append(f'{r["n_calls"]} invocations, the statement demands {r["expect_calls"]}')
        if not r['args_unchanged']:
            what.append('an attempt did not receive the caller\'s arguments unchanged')
        if not r['result_is_last']:
            what.append(f'the caller did not see the outcome of the last invocation ({r["kind"]}: {r["exc"]})')
        if what:
            ck.violation(r['name'] + ': ' + '; '.join(what), {'obs': 'corner', 'i': i, 'name': r['name'], 'outs': [], 'attempts': 4},
                         stream='corner', extra={'impl': r})
    ck.coverage['corner_callees'] = len(idx)


def seq_stream(ck, tier, replay):
    """one decorated function called several times in a row: each call is judged on its own against the model of THAT call
    (state carried from one call of the wrapper to the next - a shared generator, a counter - shows here)"""
    if replay is not None:
        seqs = [replay['case']['seq']]
    else:
        seqs = []
        for _ in range(150 if tier == 'quick' else 1500):
            names, single = ck.rng.choice(SPECS + [([], False)])
            spec = [U[n] for n in names]
            calls = []
            for _ in range(ck.rng.choice([2, 3, 4, 6])):
                ln = ck.rng.choice([0, 0, 1, 2, 3, 5])
                inst = lambda cls: instance_of(ck.rng, spec, cls)
                outs = [ck.rng.choice([inst(s) for s in spec] + [inst(spec[0] + [1])] if spec else [['raise', U['Value']], ['raise', U['Exc']]])
                        for _ in range(ln)]
                if ck.rng.random() < 0.25:
                    outs = [gen_group(ck.rng, spec, ck.rng.choice(['listed', 'mixed', 'foreign'])) if ck.rng.random() < 0.4 else o for o in outs]
                tail = ck.rng.choice([['ret'], ['ret'], ['ret'], inst(spec[0]) if spec else ['raise', U['Key']], ['raise', [0, 30]]])
                calls.append({'outs': outs, 'tail': tail})
            seqs.append({'mode': 'deco_seq', 'attempts': ck.rng.choice([1, 2, 3, 3, 4, 5, 8]), 'spec': spec, 'single': single, 'calls': calls})
        seqs.sort(key=lambda q: len(json.dumps(q)))      # the first failing sequence reported is a small one
    impl = ck.run_impl('w_retry', seqs, timeout=600)
    flat = [(si, ci) for si, sq in enumerate(seqs) for ci in range(len(sq['calls']))]
    sub = lambda si, ci: dict(seqs[si], outs=seqs[si]['calls'][ci]['outs'], tail=seqs[si]['calls'][ci]['tail'])
    model = ck.coq_eval(PRE, [coq_case(sub(si, ci)) for si, ci in flat]) if ck.model_ok else [None] * len(flat)
    bad_corr = []
    for (si, ci), m in zip(flat, model):
        r = impl[si]
        i = None if r is None or 'error' in r else r['calls'][ci] if ci < len(r['calls']) else None
        ck.note_case('seq-%s' % json.dumps([seqs[si]['attempts'], seqs[si]['spec'], seqs[si].get('pack'), seqs[si]['calls'][:ci + 1]]), nontrivial=ci >= 1)
        corr, prop, what = judge(sub(si, ci), i if i is not None else r, m)
        if not class_map_ok(sub(si, ci), i):
            ck.glue_bad.append({'seq': seqs[si], 'call': ci, 'impl': i})
        if corr and prop:
            ck.traces_validated += 1
        if not prop:
            ck.violation(f'call {ci + 1} of {len(seqs[si]["calls"])} on one decorated function: ' + what,
                         {'obs': 'seq', 'seq': dict(seqs[si], calls=seqs[si]['calls'][:ci + 1]), 'outs': seqs[si]['calls'][ci]['outs'],
                          'attempts': seqs[si]['attempts']}, stream='deco-seq', extra={'impl': i, 'model': m})
            break
        elif not corr:
            bad_corr.append({'seq': seqs[si], 'call': ci, 'impl': i, 'model': m, 'what': what})
    ck.oblige('correspondence:retry-sequences', 'correspondence', not bad_corr,
              json.dumps(bad_corr[0])[:900] if bad_corr else f'{len(flat)} calls in {len(seqs)} call sequences agree')
    ck.coverage['call_sequences'] = {'sequences': len(seqs), 'calls': len(flat)}


def run(tier, seed, replay=None):
    ck = Check('C15', tier, seed, UNITS, MODEL, PROPS)
    ck.prepare()
    ck.glue_bad = []
    if replay is not None and replay['case'].get('obs') in ('corner', 'seq'):
        cases = []
    else:
        cases = gen_cases(ck.rng, tier) if replay is None else [replay['case']]
    impl = ck.run_impl('w_retry', cases, timeout=600)
    model = ck.coq_eval(PRE, [coq_case(c) for c in cases]) if ck.model_ok else [None] * len(cases)
    hist = {}
    disagreements = []
    for c, i, m in zip(cases, impl, model):
        kinds = classify(c)
        for k in set(kinds):
            hist[k] = hist.get(k, 0) + 1
        key = json.dumps([c['attempts'], c['spec'], c['outs'], c['tail'], c['mode'], c.get('pack')])
        ck.note_case(key, nontrivial=(len(c['outs']) >= 1 and c['attempts'] >= 2))
        corr, prop, what = judge(c, i, m)
        if not class_map_ok(c, i):
            ck.glue_bad.append({'case': c, 'impl': i})
        if corr and prop:
            ck.traces_validated += 1
        if not prop:
            ck.violation(what, c, stream='retry', extra={'impl': i, 'model': m})
        elif not corr:
            disagreements.append({'case': c, 'impl': i, 'model': m, 'what': what})
    # shrink: prefer the violation with the shortest outcome list
    ck.violations.sort(key=lambda v: (len(v['case']['outs']), abs(v['case']['attempts'])))
    if replay is None or replay['case'].get('obs') == 'corner':
        corner_stream(ck, replay)
    if replay is None or replay['case'].get('obs') == 'seq':
        seq_stream(ck, tier, replay)
    ck.violations.sort(key=lambda v: (len(json.dumps(v['case'])),))
    ck.oblige('harness:class-map', 'correspondence', not ck.glue_bad,
              json.dumps(ck.glue_bad[0])[:900] if ck.glue_bad else 'isinstance(raised object, exceptions) observed by the worker agrees with the class paths on every invocation')
    ck.oblige('correspondence:retry', 'correspondence', not disagreements,
              json.dumps(disagreements[0])[:900] if disagreements else f'{ck.traces_validated} traces agree')
    if cases:
        ck.coverage['exception_specs'] = {'empty tuple': sum(1 for c in cases if not c['spec']), 'non-empty': sum(1 for c in cases if c['spec'])}
        ck.coverage.update({'outcome_kind_histogram': hist, 'attempts_range': [min(c['attempts'] for c in cases), max(c['attempts'] for c in cases)],
                            'max_sequence_length': max(len(c['outs']) for c in cases), 'disagreements': len(disagreements)})
    ck.samples = [{'case': c, 'impl': i, 'model': m} for c, i, m in list(zip(cases, impl, model))[:3] + list(zip(cases, impl, model))[-3:]]
    ck.assumptions = ['time.sleep is patched in the harness process', 'logger output is not compared',
                      'exception classes form a single-inheritance tree (paths) plus the edge ExceptionGroup -> BaseExceptionGroup; isinstance(e, exceptions) is prefix matching on it '
                      '(checked per invocation against the worker: obligation harness:class-map)']
    return ck.finish(
        rule='exhaustive (sampled above length 2) outcome sequences over {return, listed, subclass of listed, foreign, BaseException} '
             'x attempts x exception specs x {retry_func, @retry}; the same over exception GROUPS (own class listed / foreign x leaves listed / mixed / '
             'foreign / not Exceptions, nested, ExceptionGroup / BaseExceptionGroup / user subclasses, specs that list a group class), exhaustive to length 3; '
             'plus the spec that lists NOTHING (exceptions=(): every exception foreign, exhaustive to length 2, sampled to 4); '
             'plus random longer sequences; distinct = (attempts, spec, outcomes, tail, mode); '
             'non-trivial = at least one scripted outcome and attempts >= 2',
        checker_cmd='make -C coq Props/C15.vo && coqc -Q coq PV coq/Props/C15.v (Print Assumptions under every theorem)',
        trusted_base=['Coq 8.16.1 kernel (coqc; vm_compute used for model evaluation and cfg_good)', 'translator/t_retry.py (Python ast -> Gen/Retry.v)',
                      'Model/RetrySem.v semantics of the loop family', 'harness/w_retry.py, harness/c15.py (correspondence glue)',
                      'CPython 3.12 semantics of while/try/except/return'])
