"""C03 - see harness/p_common.py (shared engine of C03 / C04 / C05) and coq/Props/C03.v."""
import p_common


def run(tier, seed, replay=None):
    return p_common.run('C03', 'Props/C03.v', tier, seed, replay)
