"""Implementation worker for C20: build real classes from generated layouts (class statements compiled
from generated source, so that __orig_bases__, the MRO and name mangling are CPython's own), run
GenericMixin.type_vars / type_var and WithDecoratedMethods.get_decorated_functions on them, and read the
class layout back (own __orig_bases__ and MRO of every class) for the model."""
import sys, json, functools, asyncio
from typing import Generic, TypeVar, List, Dict, Optional, Tuple, Callable
from abc import ABC
import excs

excs._cache[(0, 10, 0)] = UnboundLocalError

TV = [TypeVar(f'T{i}') for i in range(10)]


class UserArg:
    pass


ARGS = [int, str, float, bytes, bool, List[int], Dict[str, int], Optional[int], type(None), UserArg, Tuple[int, ...],
        Callable[[int], str]]
FIXED_IDS = {}      # class object -> id (filled in setup)


def exn_code(e):
    a = 0
    for x in excs.path_of(type(e)):
        a = a * 50 + x + 1
    return a


def tok_expr(t):
    return f'_TV[{t}]' if t < 20 else f'_ARGS[{t - 20}]'


def tok_of(obj):
    for i, tv in enumerate(TV):
        if obj is tv:
            return i
    for i, a in enumerate(ARGS):
        try:
            if obj is a or obj == a:
                return 20 + i
        except Exception:
            pass
    return 99


def setup():
    from pedantic import GenericMixin, WithDecoratedMethods
    FIXED_IDS.clear()
    FIXED_IDS.update({object: 0, GenericMixin: 1, Generic: 2, ABC: 3, WithDecoratedMethods: 4, list: 50, dict: 51})
    return GenericMixin, WithDecoratedMethods


def base_expr(b):
    k = b[0]
    if k == 'mixin':
        return 'GenericMixin'
    if k == 'plain':
        return f'C{b[1]}'
    if k == 'generic':
        return 'Generic[' + ', '.join(tok_expr(t) for t in b[1]) + ']'
    if k == 'alias':
        return f'C{b[1]}[' + ', '.join(tok_expr(t) for t in b[2]) + ']'
    if k == 'builtin':
        return {'list': 'List', 'dict': 'Dict'}[b[1]] + '[' + ', '.join(tok_expr(t) for t in b[2]) + ']'
    if k == 'wdm':
        return 'WithDecoratedMethods' if b[1] is None else 'WithDecoratedMethods[_ENUM]'
    raise ValueError(b)


def reify_world(ns_classes):
    """own __orig_bases__ and MRO of every class we know, as the model's world"""
    ids = dict(FIXED_IDS)
    for cid, cls in ns_classes.items():
        ids[cls] = cid

    def enc_base(b):
        if isinstance(b, type):
            return ['cls', ids.get(b, 999)]
        if hasattr(b, '__origin__'):
            if b.__origin__ is Generic:
                return ['generic', [tok_of(a) for a in b.__args__]]
            if isinstance(b.__origin__, type):
                args = [tok_of(a) for a in b.__args__]
                if FIXED_IDS.get(b.__origin__) == 4:
                    args = ['enum']
                return ['alias', ids.get(b.__origin__, 999), args]
        return ['unknown']
    world = []
    todo = dict(ns_classes)
    for cls, cid in FIXED_IDS.items():
        if cid == 4:
            todo[4] = cls
    for cid, cls in sorted(todo.items()):
        ob = cls.__dict__.get('__orig_bases__')
        world.append([cid, None if ob is None else [enc_base(b) for b in ob], [ids.get(k, 999) for k in cls.__mro__],
                      [tok_of(t) for t in getattr(cls, '__parameters__', ())]])
    return world


def define_classes(case, ns, extra_body=None):
    """exec one class statement per class; returns {id: class} or raises"""
    out = {}
    for cdef in case['classes']:
        bases = ', '.join(base_expr(b) for b in cdef['bases'])
        body = (extra_body or {}).get(cdef['id']) or '    pass\n'
        src = f'class {cdef.get("name") or "C%d" % cdef["id"]}({bases}):\n{body}'
        exec(compile(src, f'<c20-class-{cdef["id"]}>', 'exec'), ns)
        cls = ns[cdef.get('name') or 'C%d' % cdef['id']]
        ns['C%d' % cdef['id']] = cls
        out[cdef['id']] = cls
    return out


# ---------------------------------------------------------------------------------------------------
def probe_tv(inst, op):
    try:
        r = inst.type_vars if op == 0 else inst.type_var
    except BaseException as e:
        return [1, exn_code(e)], type(e).__name__
    if op == 0:
        if not isinstance(r, dict):
            return [2, -9], None
        out = [0, len(r)]
        for k, v in r.items():
            out += [tok_of(k), tok_of(v)]
        return out, None
    return [2, tok_of(r)], None


def run_tv(case):
    GenericMixin, WDM = setup()
    ns = {'Generic': Generic, 'GenericMixin': GenericMixin, '_TV': TV, '_ARGS': ARGS, 'List': List, 'Dict': Dict}
    seen = {}
    ns['_hook'] = lambda self: seen.__setitem__('r', probe_tv(self, case['op']))
    body = {}
    if case.get('in_init'):
        body[case['inst']] = '    def __init__(self):\n        _hook(self)\n'
    try:
        classes = define_classes(case, ns, body)
    except BaseException as e:
        return {'invalid': f'class statement: {type(e).__name__}: {e}'[:200]}
    cls = classes[case['inst']]
    try:
        if case['args'] is None:
            inst = cls()
        else:
            inst = cls[tuple(ARGS[t - 20] if t >= 20 else TV[t] for t in case['args'])]()
    except BaseException as e:
        return {'invalid': f'instantiation: {type(e).__name__}: {e}'[:200]}
    if case.get('in_init'):
        res, name = seen.get('r', ([2, -9], None))
    else:
        res, name = probe_tv(inst, case['op'])
    oc = getattr(inst, '__orig_class__', None)
    return {'out': res, 'exc_name': name, 'world': reify_world(classes),
            'orig_class': None if oc is None else [tok_of(a) for a in oc.__args__],
            'orig_class_origin_is_class': oc is None or oc.__origin__ is cls}


# ---------------------------------------------------------------------------------------------------
def vcode(v):
    if v is None:
        return -5
    if type(v) is int:
        return v
    return -9


class Carrier:
    """a non-callable object that carries decorator attributes (class attribute of a near-miss case)"""

    def __init__(self, pv_id, attrs):
        self._pv_id = pv_id
        for k, v in attrs:
            setattr(self, k, v)


def run_dm(case):
    GenericMixin, WDM = setup()
    from pedantic import DecoratorType, create_decorator
    members = case['members']
    enum_ns = {}
    exec('class _ENUM(DecoratorType):\n' + ''.join(f'    M{i} = {m!r}\n' for i, m in enumerate(members)) + ('    pass\n' if not members else ''),
         {'DecoratorType': DecoratorType}, enum_ns)
    ENUM = enum_ns['_ENUM']
    mem = list(ENUM)
    journal = []

    def midx(t):
        for i, m in enumerate(mem):
            if t is m:
                return i
        return -1

    def note(code, f, t, v):
        sentinel = object()
        cur = getattr(f, t, sentinel) if isinstance(t, str) else sentinel
        journal.append([code, getattr(f, '_pv_id', -1), midx(t), vcode(v), 1 if (cur is v) else 0])

    def tr_keep(f, t, v):
        note(1, f, t, v)
        return f

    def tr_wraps(f, t, v):
        note(1, f, t, v)
        if asyncio.iscoroutinefunction(f):
            @functools.wraps(f)
            async def w(*a, **k):
                return await f(*a, **k)
        else:
            @functools.wraps(f)
            def w(*a, **k):
                return f(*a, **k)
        return w

    def tr_drop(f, t, v):
        note(2, f, t, v)

        def w(*a, **k):
            return f(*a, **k)
        w._pv_id = getattr(f, '_pv_id', -1)
        return w

    def tr_raise(f, t, v):
        note(3, f, t, v)
        raise ValueError('transformation refuses')

    trs = {'none': None, 'keep': tr_keep, 'wraps': tr_wraps, 'drop': tr_drop, 'raise': tr_raise}
    decos = {(i, k): create_decorator(decorator_type=mem[i], transformation=trs[k]) for i in range(len(mem)) for k in trs}

    def tag(pv_id):
        def deco(f):
            f._pv_id = pv_id
            return f
        return deco

    ns = {'Generic': Generic, 'GenericMixin': GenericMixin, 'WithDecoratedMethods': WDM, '_ENUM': ENUM, '_D': decos, '_tag': tag,
          '_Carrier': Carrier, '_cached_property': functools.cached_property, '_mem': mem, '_TV': TV, '_ARGS': ARGS}

    def deco_line(d):
        return f'    @_D[({d[0]}, {d[2]!r})]({d[1]!r})\n'

    def body_of(defs):
        src = ''
        for d in defs:
            k = d['kind']
            if k == 'alias':
                src += f'    {d["name"]} = {d["target"]}\n'
                continue
            if k == 'attr':
                src += f'    {d["name"]} = {d["val"]!r}\n'
                continue
            if k == 'attr_obj':
                src += f'    {d["name"]} = _Carrier({d["id"]}, {[(members[i], v) for i, v, _ in d["inner"]]!r})\n'
                continue
            for dd in reversed(d.get('outer', [])):
                src += deco_line(dd)
            if k in ('class', 'static'):
                src += '    @classmethod\n' if k == 'class' else '    @staticmethod\n'
            if k == 'cprop_raise':
                src += '    @_cached_property\n'
            if k in ('prop', 'prop_raise'):
                src += '    @property\n'
            for dd in reversed(d.get('inner', [])):
                src += deco_line(dd)
            src += f'    @_tag({d["id"]})\n'
            params = 'cls' if k == 'class' else ('' if k == 'static' else 'self')
            if k in ('prop_raise', 'cprop_raise'):
                src += f'    def {d["name"]}({params}):\n        raise ValueError("getter fails")\n'
            elif k == 'prop':
                src += f'    def {d["name"]}({params}):\n        return {d["val"]!r}\n'
            elif k == 'async':
                src += f'    async def {d["name"]}({params}):\n        return None\n'
            else:
                src += f'    def {d["name"]}({params}):\n        return None\n'
        return src or '    pass\n'

    bodies = {c['id']: body_of(c.get('defs', [])) for c in case['classes']}
    try:
        classes = define_classes(case, ns, bodies)
    except BaseException as e:
        return {'stage': 'class', 'out': [3, exn_code(e)], 'exc_name': type(e).__name__, 'journal': journal, 'msg': str(e)[:120]}
    cls = classes[case['inst']]
    try:
        inst = cls()
    except BaseException as e:
        return {'invalid': f'instantiation: {type(e).__name__}: {e}'[:200]}
    names = dir(inst)
    world = reify_world(classes)
    try:
        r = inst.get_decorated_functions()
    except BaseException as e:
        return {'stage': 'call', 'out': [1, exn_code(e)], 'exc_name': type(e).__name__, 'journal': journal, 'dir': names, 'world': world}
    if not isinstance(r, dict):
        return {'stage': 'ok', 'out': [2, -9], 'journal': journal, 'dir': names, 'world': world}
    out = [0, len(r)]
    kinds = []
    for k, inner in r.items():
        if not isinstance(inner, dict):
            out += [-2, 0]
            continue
        out += [midx(k), len(inner)]
        for f, v in inner.items():
            out += [getattr(f, '_pv_id', -1), vcode(v)]
            slf = getattr(f, '__self__', None)
            if slf is inst:
                kind = 1
            elif slf is cls:
                kind = 2
            elif callable(f) and slf is None:
                kind = 3
            else:
                kind = 4
            kinds.append([midx(k), getattr(f, '_pv_id', -1), kind])
    return {'stage': 'ok', 'out': out, 'kinds': kinds, 'journal': journal, 'dir': names, 'world': world}


def main():
    cases = json.load(sys.stdin)
    for c in cases:
        try:
            r = run_tv(c) if c['stream'] == 'tv' else run_dm(c)
        except BaseException as ex:   # harness-level failure
            import traceback
            r = {'error': repr(ex), 'tb': traceback.format_exc(limit=4)[-600:]}
        print(json.dumps(r), flush=True)


if __name__ == '__main__':
    main()
