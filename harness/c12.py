"""C12 - @validate is a gate.  Proof: coq/Props/C12.v over the configuration regenerated from fn_deco_validate.py and
abstract_parameter.py (Gen/Validate.v).  Correspondence: generated signatures, Parameter configurations and calls on the
real decorator vs the model evaluated in Coq; property: implementation vs the specification (Spec/ValidateSpec.v)."""
from v_common import *

PROPS = 'Props/C12.v'


def gen_cases(rng, tier, scale):
    import v_common
    v_common.VARPOS_P = 0.08
    n = (2600 if tier == 'quick' else 45000) * scale
    maxchain = 4 if tier == 'quick' else 7
    cases = []
    for k in range(n):
        c = gen_random_case(rng, maxchain)
        r = rng.random()
        if r < 0.12:
            c = malform(rng, c)
        cases.append(c)
    # a slice of the call-style matrix (C13 sweeps it in full)
    for _ in range((25 if tier == 'quick' else 300) * scale):
        cases += gen_matrix(rng, maxchain, rng.randint(1, 3), 12)
    for _ in range((25 if tier == 'quick' else 500) * scale):            # several Parameters for ONE name: a passed value goes through the chain of one of them
        cases += gen_duplicates(rng, maxchain, 4)
    for _ in range((220 if tier == 'quick' else 5000) * scale):          # functions with *args, principal use (Spec: spec_star_outcome)
        cases.append(gen_varargs_case(rng, maxchain))
    for _ in range((40 if tier == 'quick' else 600) * scale):            # positional-only parameters: implementation only
        cases.append(gen_posonly_case(rng))
    for _ in range((40 if tier == 'quick' else 1200) * scale):           # shared Parameter objects, calls in sequence
        cases.append(gen_shared(rng, maxchain))
    for _ in range((45 if tier == 'quick' else 900) * scale):            # a parameter literally NAMED cls / args / kwargs / ..., first or later, mostly undeclared
        cases += gen_convention_names(rng, maxchain, 4 if tier == 'quick' else 8)
    for _ in range((160 if tier == 'quick' else 4000) * scale):          # a rejection that already carries the name of another field
        cases.append(gen_named_rejection(rng, maxchain))
    for _ in range((12 if tier == 'quick' else 300) * scale):            # ignore_input=True x every Parameter kind (FlaskPathParameter) x call styles
        cases += gen_matrix(rng, maxchain, rng.randint(1, 3), 6, ignore_input=True)
    if tier == 'thorough':
        for _ in range(250 * scale):
            cases += gen_matrix(rng, maxchain, rng.randint(1, 3), 8, flask=True)
    return cases


def run(tier, seed, replay=None):
    return run_checks('C12', tier, seed, replay, gen_cases, PROPS,
                      rule='random signatures (1-4 named parameters, +-self, defaults, keyword-only, rarely **kwargs) x Parameter '
                           'configurations (value_type, harness validator chains incl. chains with the first rejection at a chosen '
                           'position, required, default, harness external source / environment variable) x strict x ignore_input x '
                           '3 return_as modes x sync/async x calls (valid 88%, malformed 12%: surplus keyword, too many positionals, duplicate, '
                           'Parameter the function lacks, name declared twice, no Parameter, strict with one undeclared argument) + a slice of the call-style matrix + declarations with several Parameters (plain / external) for one name, judged against every resolution of the duplicate + functions with *args (8% of the random signatures, correspondence; a dedicated stream in their principal use judged against spec_star_outcome) + sequences of calls of functions sharing their Parameter objects + functions / methods with a parameter literally named cls / args / kwargs / result / ... (first or later position, mostly without Parameter) x all call styles x 3 modes + chains with a validator whose ValidatorException already carries the parameter_name of another field (via Validator.validate_param / raised directly; also 3% of the random validators) at a chosen chain position, value at the boundary + ignore_input=True x Parameter kinds incl. FlaskPathParameter x call styles; distinct = whole case; non-trivial = at least one '
                           'Parameter and at least one supplied or external value')
