"""C17 helper: classes that cross the pipe between the subprocess and the parent.  They live in an importable
module (not in the worker's __main__, not created dynamically) so that dill pickles them by reference and the parent
gets back instances of the very same classes."""


class UserError(Exception):
    pass


class UserErrorSub(UserError):
    pass


class Inner(Exception):
    """the exception stored inside a SubprocessError that the callee RETURNS (known finding C17-K1)"""
    pass


class Unpicklable:
    """cannot be pickled, not even by dill"""

    def __reduce__(self):
        raise TypeError('this object refuses to be pickled')

    def __reduce_ex__(self, protocol):
        raise TypeError('this object refuses to be pickled')


def _explode():
    raise ValueError('this object refuses to be unpickled')


class ExplodesOnLoad:
    """pickles fine (in the child); loading it (in the parent) raises"""

    def __reduce__(self):
        return (_explode, ())


USER = {(0, 20): UserError, (0, 20, 0): UserErrorSub}


# ---- what a callee may RETURN besides plain data (dimension `ret` of C17): picklable objects that merely LOOK like work
# still to be done.  "yields exactly what the function returns": the awaiting task must get an instance of the very
# same class carrying the same payload - not what awaiting / iterating it would produce.
class Lazy:
    """a picklable awaitable (a lazy request / query object): awaiting it yields its payload"""

    def __init__(self, info):
        self.info = info

    def __await__(self):
        return self.info
        yield


class LazyFails(Lazy):
    """a picklable awaitable whose evaluation fails: awaiting it raises (returning it from a function does not)"""

    def __await__(self):
        raise UserError(self.info)
        yield


class Countdown:
    """a picklable generator-like object (iterator protocol + send / throw / close)"""

    def __init__(self, info, n=3):
        self.info = info
        self.n = n

    def __iter__(self):
        return self

    def __next__(self):
        if self.n <= 0:
            raise StopIteration(self.info)
        self.n -= 1
        return self.n

    def send(self, value):
        return self.__next__()

    def throw(self, *exc):
        raise exc[0]

    def close(self):
        self.n = 0


class AwaitableIter(Countdown):
    """both at once: __await__ hands out itself as the iterator (the shape of asyncio.Future)"""

    def __await__(self):
        return self


async def coro_result(info):
    """a coroutine function: a SYNC callee that returns coro_result(info) returns a coroutine object"""
    return info


RET_CLASSES = {'awaitable': Lazy, 'awaitable_fails': LazyFails, 'iterator': Countdown, 'awaitable_iter': AwaitableIter}
