"""C17 helper: classes that cross the pipe between the subprocess and the parent.  They live in an importable
module (not in the worker's __main__, not created dynamically) so that dill pickles them by reference and the parent
gets back instances of the very same classes."""


class UserError(Exception):
    pass


class UserErrorSub(UserError):
    pass


class Inner(Exception):
    """the exception stored inside a SubprocessError that the callee RETURNS (known finding C17-K1)"""
    pass


class Unpicklable:
    """cannot be pickled, not even by dill"""

    def __reduce__(self):
        raise TypeError('this object refuses to be pickled')

    def __reduce_ex__(self, protocol):
        raise TypeError('this object refuses to be pickled')


def _explode():
    raise ValueError('this object refuses to be unpickled')


class ExplodesOnLoad:
    """pickles fine (in the child); loading it (in the parent) raises"""

    def __reduce__(self):
        return (_explode, ())


USER = {(0, 20): UserError, (0, 20, 0): UserErrorSub}
