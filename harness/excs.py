"""Map exception-class paths of coq/Base/Exn.v to real Python classes (and back).
Unknown paths are created as fresh dynamic subclasses of their parent path."""
import builtins

_KNOWN = {
    (): BaseException, (0,): Exception, (1,): KeyboardInterrupt, (2,): SystemExit, (3,): GeneratorExit,
    (0, 1): ValueError, (0, 2): TypeError, (0, 3): LookupError, (0, 3, 0): IndexError, (0, 3, 1): KeyError,
    (0, 4): AttributeError, (0, 5): AssertionError, (0, 6): RuntimeError, (0, 6, 0): RecursionError,
    (0, 6, 1): NotImplementedError, (0, 7): StopIteration, (0, 8): StopAsyncIteration, (0, 9): ArithmeticError,
    (0, 9, 0): OverflowError, (0, 10): NameError, (0, 11): OSError, (0, 12): EOFError,
}
_cache = dict(_KNOWN)
_back = {}


def _load_pedantic():
    try:
        import pedantic.exceptions as pe
        import pedantic.decorators.fn_deco_validate.exceptions as ve
    except Exception:
        return
    m = {(0, 0): pe.PedanticException, (0, 0, 0): pe.PedanticTypeCheckException, (0, 0, 1): pe.PedanticDocstringException,
         (0, 0, 2): pe.PedanticOverrideException, (0, 0, 3): pe.PedanticCallWithArgsException,
         (0, 0, 4): pe.PedanticTypeVarMismatchException, (0, 14): pe.NotImplementedException,
         (0, 13): ve.ValidateException, (0, 13, 0): ve.ValidatorException, (0, 13, 1): ve.ParameterException,
         (0, 13, 2): ve.ConversionError, (0, 13, 3): ve.TooManyArguments}
    _cache.update(m)


_load_pedantic()


def cls_of(path):
    path = tuple(path)
    if path in _cache:
        return _cache[path]
    parent = cls_of(path[:-1])
    c = type('E_' + '_'.join(map(str, path)), (parent,), {})
    _cache[path] = c
    return c


def path_of(cls):
    """most specific known path of an exception class (by MRO)"""
    if not _back:
        pass
    for c in cls.__mro__:
        for p, k in _cache.items():
            if k is c:
                return list(p)
    return []
