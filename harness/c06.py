"""C06 - incomplete annotations are rejected for every value.  Proof: coq/Props/C06.v (bare generics,
all values).  Property on the implementation: bare stream at assert_value_matches_type and at a
@pedantic function (body must not run), plus signatures with a MISSING annotation at any position."""
import os
import checker_common as CC

PROPS = 'Props/C06.v'


def judge(ck, c, r, I, M, S, sup):
    if c['stream'] == 'bare' and not c.get('nested'):
        if I != 1:
            return f'a generic without type arguments gave {CC.OUT_NAMES.get(I, I)} instead of PedanticTypeCheckException'
        if c['obs'] == 'pedantic' and r.get('body_ran'):
            return 'the body ran although the parameter annotation is a bare generic'
    return None


def varargs_matcher(f, case):
    m = f.get('matcher', {})
    return (m.get('id') == 'bare_variadic_without_values' and case.get('obs') == 'varargs' and case.get('bare') is not None
            and case.get('nvals') == 0)


# parameter names that receivers / variadic parameters usually carry.  NOT in the pool: `self` - the unchanged library
# takes ANY parameter named self for the receiver (FunctionCall._params_without_self drops it from the parameters it checks:
# `def f(a: int, self)` called f(a=1, self=2) runs the body; `def f(self, b: int)` called by keyword raises IndexError from
# FunctionCall.__init__): reported defect, registered for C03 as C03-parameter-named-self / C03-K10-self-by-keyword
PARAM_NAMES = ['cls', 'cls', 'args', 'kwargs', 'mcs', 'klass', 'other', 'this', 'instance', 'owner']
BINARY_DUNDERS = ['__add__', '__sub__', '__mul__', '__matmul__', '__or__', '__and__', '__eq__', '__ne__', '__lt__', '__ge__', '__getitem__']
SINGLETONS = [['notimplemented'], ['ellipsis'], ['none']]


def missing_stream(ck, cases):
    """signatures with a parameter without annotation / without return annotation, at any position"""
    import gen_checker as G
    rng = ck.rng
    n = (150 if ck.tier == 'quick' else 1500) * ck.scale()
    out = []
    for _ in range(n):
        k = rng.choice([1, 2, 3, 4])
        kind = rng.choice(['def', 'def', 'def', 'async', 'method', 'dunder'])
        # index of the un-annotated parameter; k = the return annotation is missing (what a special method hands back - NotImplemented
        # for an operand it does not support - is judged at the return annotation: half of the special methods lack that one)
        miss = k if (kind == 'dunder' and rng.random() < 0.5) else rng.randrange(k + 1)
        bare_instead = rng.random() < 0.4     # a bare generic instead of nothing
        params = []
        for i in range(k):
            a = G.gen_ann(rng, rng.choice([0, 1, 2]))
            v = G.gen_conf(rng, a)
            if v is None:
                a, v = ['cls', 'int'], ['int', 1]
            params.append({'ann': a, 'val': v, 'default': (rng.random() < 0.3) or bool(params and params[-1]['default']),
                           'omit': rng.random() < 0.5})
        if miss < k and rng.random() < 0.5:
            # the idioms a value-dependent shortcut would key on: `x: list = None` (implicit Optional), empty / falsy defaults
            params[miss]['val'] = rng.choice([['none'], ['none'], ['list', []], ['tuple', []], ['dict', []], ['str', []], ['int', 0], ['bool', False]])
            if rng.random() < 0.7:
                for q in params[miss:]:
                    q['default'] = True           # a parameter with a default cannot be followed by one without
                params[miss]['omit'] = rng.random() < 0.7
        out.append({'thread': True} if rng.random() < 0.08 else {})
        out[-1].update({'stream': 'missing', 'obs': 'missing', 'params': params, 'miss': miss, 'bare': rng.choice(CC.BARE_T + CC.BARE_B) if bare_instead else None,
                    'ret_val': rng.choice(SINGLETONS if rng.random() < 0.25 else G.SCALARS[:8] + [['list', []]]), 'ctx': G.CTX, 'kind': kind})
        c = out[-1]
        # the NAMES of the parameters: the names receivers / variadic parameters usually carry, on ordinary parameters of any
        # position (the wrapper recognises receivers and variadics by name / by source text)
        names = [f'p{i}' for i in range(k)]
        pool = [x for x in PARAM_NAMES]
        rng.shuffle(pool)
        for i in range(k):
            if rng.random() < (0.5 if i == miss else 0.12):
                names[i] = next(x for x in pool if x not in names)
        if names != [f'p{i}' for i in range(k)]:
            c['names'] = names
        if c['kind'] == 'dunder':
            # special methods: binary operators (one parameter, called explicitly or by the operator), __call__ with any arity
            if k == 1 and rng.random() < 0.85:
                c['dunder'] = rng.choice(BINARY_DUNDERS)
                c['via_op'] = rng.random() < 0.5
                params[0]['default'] = False
            else:
                c['dunder'] = '__call__'
        # a function that collects positional values may be called positionally
        if rng.random() < 0.15 and 'args' not in names and not c.get('via_op'):
            c['posargs'] = rng.choice([1, 1, 2, 3])
        # value-dependent results: the body hands back a singleton for the class of its first argument and RV otherwise
        if miss == k and rng.random() < 0.5:
            v0 = params[0]['val']
            tname = {'none': 'NoneType', 'inst': None, 'class': 'type'}.get(v0[0], v0[0])
            hit = tname is not None and rng.random() < 0.75
            c['ret_by_type'] = [[tname if hit else 'Fraction', rng.choice(SINGLETONS)]]
    ck.missing = out


def run(tier, seed, replay=None):
    from lib import json
    state = {}

    def extra(ck, cases):
        state['ck'] = ck
        if replay is not None and replay.get('case', {}).get('obs') in ('bare_zoo', 'varargs'):
            cases.clear()
        if replay is not None and replay.get('case', {}).get('stream') == 'missing':
            ck.missing = [replay['case']]
            cases.clear()
        elif replay is None:
            missing_stream(ck, cases)
        else:
            ck.missing = []
        res = ck.run_impl('w_checker', ck.missing, timeout=900) if ck.missing else []
        hist, dims = {}, {}
        for c, r in zip(ck.missing, res):
            if r is None or 'error' in r:
                ck.oblige('impl-worker:missing', 'correspondence', False, f'{c} -> {r}')
                continue
            ck.note_case(json.dumps([c['params'], c['miss'], c['bare'], c['kind'], c.get('names'), c.get('dunder'), c.get('via_op'),
                                     c.get('posargs'), c.get('ret_by_type'), c['ret_val'] if c['miss'] == len(c['params']) else None]), nontrivial=True)
            for dim in ('names', 'dunder', 'via_op', 'posargs', 'ret_by_type'):
                if c.get(dim):
                    dims[dim] = dims.get(dim, 0) + 1
            hist[CC.OUT_NAMES.get(r['out'], str(r['out']))] = hist.get(CC.OUT_NAMES.get(r['out'], str(r['out'])), 0) + 1
            what = None
            if r['out'] != 1:
                what = (f'a call of a function whose {"return" if c["miss"] == len(c["params"]) else "parameter %d" % c["miss"]} annotation is '
                        f'{"bare " + c["bare"] if c["bare"] else "missing"} gave {CC.OUT_NAMES.get(r["out"], r["out"])} instead of PedanticTypeCheckException')
            elif c['miss'] < len(c['params']) and r.get('body_ran'):
                what = 'the body ran although a parameter annotation is missing / bare'
            if what:
                dim = []
                if c.get('names'):
                    dim.append('parameter names: ' + ', '.join(c['names']))
                if c['kind'] == 'dunder':
                    dim.append(f'the function is the special method {c.get("dunder")} of a plain class' + (', called by its operator' if c.get('via_op') else ''))
                if c.get('posargs'):
                    dim.append(f'the signature ends in *args: int and the call is positional ({c["posargs"] - 1} extra values)')
                if c['miss'] == len(c['params']) and (c.get('ret_by_type') or c['ret_val'] in SINGLETONS):
                    dim.append(f'the body returns {json.dumps(c["ret_val"])}' + (f', but {json.dumps(c["ret_by_type"][0][1])} when its first argument is a {c["ret_by_type"][0][0]}' if c.get('ret_by_type') else ''))
                if c.get('thread'):
                    dim.append('the call was made from another thread')
                ck.violation(what + (' [' + ' | '.join(dim) + ']' if dim else ''), c, stream='missing', extra={'impl': r})
        ck.coverage['missing_annotation_stream'] = {'cases': len(ck.missing), 'outcomes': hist, 'dimensions': dims}
        # *args / **kwargs with a missing or bare annotation, 0..3 extra values (full product: finite)
        if replay is None or replay.get('case', {}).get('obs') == 'varargs':
            va = [replay['case']] if replay is not None else \
                [{'obs': 'varargs', 'stream': 'varargs', 'star': st, 'bare': b, 'nvals': n, 'lead': ld}
                 for st in ('*', '**') for b in [None] + CC.BARE_T + CC.BARE_B for n in (0, 1, 2, 3) for ld in (False, True)]
            vres = ck.run_impl('w_checker', va, timeout=900)
            vh = {}
            for c, r in zip(va, vres):
                if r is None or 'error' in r:
                    ck.oblige('impl-worker:varargs', 'correspondence', False, f'{c} -> {r}')
                    continue
                ck.note_case(json.dumps(c), nontrivial=True)
                vh[CC.OUT_NAMES.get(r['out'], str(r['out']))] = vh.get(CC.OUT_NAMES.get(r['out'], str(r['out'])), 0) + 1
                what = None
                if r['out'] != 1:
                    what = (f'a call of a function whose {c["star"]}-parameter annotation is {"bare " + c["bare"] if c["bare"] else "missing"} '
                            f'({c["nvals"]} extra values) gave {CC.OUT_NAMES.get(r["out"], r["out"])} instead of PedanticTypeCheckException')
                elif r.get('body_ran'):
                    what = 'the body ran although the annotation of the variadic parameter is missing / bare'
                if what:
                    ck.violation(what, c, stream='varargs', extra={'impl': r}, matcher=varargs_matcher)
            ck.coverage['varargs_stream'] = {'cases': len(va), 'outcomes': vh}
        # the 15 bare forms x the VALUE ZOO (values outside the model's universe: named-tuple instances - for which the checker
        # takes a path of its own before the bare-builtin test -, objects with an _asdict of their own, generators, modules,
        # classes ...), at assert_value_matches_type and as parameter / return annotation.  Implementation only; the oracle is
        # the property text itself: PedanticTypeCheckException for every value, the body does not run for a parameter
        if replay is None or replay.get('case', {}).get('obs') == 'bare_zoo':
            if replay is not None:
                bz = [replay['case']]
            else:
                nv = ck.run_impl('w_checker', [{'obs': 'zoo_sizes'}], shards=1)[0]['sizes'][1]
                bz = [{'obs': 'bare_zoo', 'stream': 'bare-zoo', 'bare': b, 'vi': j, 'pos': 'avmt'} for b in CC.BARE_T + CC.BARE_B for j in range(nv)]
                at_fn = [{'obs': 'bare_zoo', 'stream': 'bare-zoo', 'bare': b, 'vi': j, 'pos': pos}
                         for b in CC.BARE_T + CC.BARE_B for j in range(nv) for pos in ('arg', 'ret')]
                bz += at_fn if ck.tier == 'thorough' else ck.rng.sample(at_fn, min(len(at_fn), 500 * ck.scale()))
                for c in bz:
                    if ck.rng.random() < 0.08:
                        c['thread'] = True
            bres = ck.run_impl('w_checker', bz, timeout=900)
            bh = {}
            for c, r in zip(bz, bres):
                if r is None or 'error' in r:
                    ck.oblige('impl-worker:bare-zoo', 'correspondence', False, f'{c} -> {r}')
                    continue
                ck.note_case(json.dumps([c['bare'], c['vi'], c['pos']]), nontrivial=True)
                bh[CC.OUT_NAMES.get(r['out'], str(r['out']))] = bh.get(CC.OUT_NAMES.get(r['out'], str(r['out'])), 0) + 1
                what = None
                where = {'avmt': 'assert_value_matches_type with the annotation', 'arg': 'a call of a function whose parameter annotation is',
                         'ret': 'a call of a function whose return annotation is'}[c['pos']]
                if r['out'] != 1:
                    what = (f'{where} bare {c["bare"]} gave {CC.OUT_NAMES.get(r["out"], r["out"])} instead of PedanticTypeCheckException '
                            f'for a value of type {r.get("val")} (value zoo #{c["vi"]})')
                elif c['pos'] == 'arg' and r.get('body_ran'):
                    what = f'the body ran although the parameter annotation is bare {c["bare"]} (value of type {r.get("val")}, value zoo #{c["vi"]})'
                if what:
                    ck.violation(what + CC.dimension_note(c), dict(c, value_type=r.get('val')), stream='bare-zoo', extra={'impl': r})
            ck.coverage['bare_x_value_zoo_stream'] = {'cases': len(bz), 'outcomes': bh}
    return CC.run('C06', tier, seed, replay, PROPS, judge, extra_streams=extra, extra_units=['Pedantic'],
                  rule_extra='; bare stream: the 15 bare forms x values; missing stream: generated signatures (1-4 parameters, def/async/method) '
                             'with one missing or bare annotation at a random position, conforming arguments by keyword; parameter names cls / args / kwargs / mcs ... '
                             'at any position, signatures ending in *args called positionally, special methods (__add__ ... __getitem__, __call__; '
                             'explicitly and by operator), results NotImplemented / Ellipsis / None, value-dependent bodies; bare-zoo stream: the 15 bare '
                             'forms x 78 zoo values (named-tuple instances, objects with _asdict, generators, modules ...) at '
                             'assert_value_matches_type / parameter / return position; a share of all calls from another thread')
