"""C06 - incomplete annotations are rejected for every value.  Proof: coq/Props/C06.v (bare generics,
all values).  Property on the implementation: bare stream at assert_value_matches_type and at a
@pedantic function (body must not run), plus signatures with a MISSING annotation at any position."""
import os
import checker_common as CC

PROPS = 'Props/C06.v'


def judge(ck, c, r, I, M, S, sup):
    if c['stream'] == 'bare' and not c.get('nested'):
        if I != 1:
            return f'a generic without type arguments gave {CC.OUT_NAMES.get(I, I)} instead of PedanticTypeCheckException'
        if c['obs'] == 'pedantic' and r.get('body_ran'):
            return 'the body ran although the parameter annotation is a bare generic'
    return None


def varargs_matcher(f, case):
    m = f.get('matcher', {})
    return (m.get('id') == 'bare_variadic_without_values' and case.get('obs') == 'varargs' and case.get('bare') is not None
            and case.get('nvals') == 0)


def missing_stream(ck, cases):
    """signatures with a parameter without annotation / without return annotation, at any position"""
    import gen_checker as G
    rng = ck.rng
    n = (150 if ck.tier == 'quick' else 1500) * ck.scale()
    out = []
    for _ in range(n):
        k = rng.choice([1, 2, 3, 4])
        miss = rng.randrange(k + 1)          # index of the un-annotated parameter; k = the return annotation is missing
        bare_instead = rng.random() < 0.4     # a bare generic instead of nothing
        params = []
        for i in range(k):
            a = G.gen_ann(rng, rng.choice([0, 1, 2]))
            v = G.gen_conf(rng, a)
            if v is None:
                a, v = ['cls', 'int'], ['int', 1]
            params.append({'ann': a, 'val': v, 'default': (rng.random() < 0.3) or bool(params and params[-1]['default']),
                           'omit': rng.random() < 0.5})
        if miss < k and rng.random() < 0.5:
            # the idioms a value-dependent shortcut would key on: `x: list = None` (implicit Optional), empty / falsy defaults
            params[miss]['val'] = rng.choice([['none'], ['none'], ['list', []], ['tuple', []], ['dict', []], ['str', []], ['int', 0], ['bool', False]])
            if rng.random() < 0.7:
                for q in params[miss:]:
                    q['default'] = True           # a parameter with a default cannot be followed by one without
                params[miss]['omit'] = rng.random() < 0.7
        out.append({'thread': True} if rng.random() < 0.08 else {})
        out[-1].update({'stream': 'missing', 'obs': 'missing', 'params': params, 'miss': miss, 'bare': rng.choice(CC.BARE_T + CC.BARE_B) if bare_instead else None,
                    'ret_val': rng.choice(G.SCALARS[:8] + [['list', []]]), 'ctx': G.CTX, 'kind': rng.choice(['def', 'def', 'async', 'method'])})
    ck.missing = out


def run(tier, seed, replay=None):
    from lib import json
    state = {}

    def extra(ck, cases):
        state['ck'] = ck
        if replay is not None and replay.get('case', {}).get('obs') in ('bare_zoo', 'varargs'):
            cases.clear()
        if replay is not None and replay.get('case', {}).get('stream') == 'missing':
            ck.missing = [replay['case']]
            cases.clear()
        elif replay is None:
            missing_stream(ck, cases)
        else:
            ck.missing = []
        res = ck.run_impl('w_checker', ck.missing, timeout=900) if ck.missing else []
        hist = {}
        for c, r in zip(ck.missing, res):
            if r is None or 'error' in r:
                ck.oblige('impl-worker:missing', 'correspondence', False, f'{c} -> {r}')
                continue
            ck.note_case(json.dumps([c['params'], c['miss'], c['bare'], c['kind']]), nontrivial=True)
            hist[CC.OUT_NAMES.get(r['out'], str(r['out']))] = hist.get(CC.OUT_NAMES.get(r['out'], str(r['out'])), 0) + 1
            what = None
            if r['out'] != 1:
                what = (f'a call of a function whose {"return" if c["miss"] == len(c["params"]) else "parameter %d" % c["miss"]} annotation is '
                        f'{"bare " + c["bare"] if c["bare"] else "missing"} gave {CC.OUT_NAMES.get(r["out"], r["out"])} instead of PedanticTypeCheckException')
            elif c['miss'] < len(c['params']) and r.get('body_ran'):
                what = 'the body ran although a parameter annotation is missing / bare'
            if what:
                ck.violation(what, c, stream='missing', extra={'impl': r})
        ck.coverage['missing_annotation_stream'] = {'cases': len(ck.missing), 'outcomes': hist}
        # *args / **kwargs with a missing or bare annotation, 0..3 extra values (full product: finite)
        if replay is None or replay.get('case', {}).get('obs') == 'varargs':
            va = [replay['case']] if replay is not None else \
                [{'obs': 'varargs', 'stream': 'varargs', 'star': st, 'bare': b, 'nvals': n, 'lead': ld}
                 for st in ('*', '**') for b in [None] + CC.BARE_T + CC.BARE_B for n in (0, 1, 2, 3) for ld in (False, True)]
            vres = ck.run_impl('w_checker', va, timeout=900)
            vh = {}
            for c, r in zip(va, vres):
                if r is None or 'error' in r:
                    ck.oblige('impl-worker:varargs', 'correspondence', False, f'{c} -> {r}')
                    continue
                ck.note_case(json.dumps(c), nontrivial=True)
                vh[CC.OUT_NAMES.get(r['out'], str(r['out']))] = vh.get(CC.OUT_NAMES.get(r['out'], str(r['out'])), 0) + 1
                what = None
                if r['out'] != 1:
                    what = (f'a call of a function whose {c["star"]}-parameter annotation is {"bare " + c["bare"] if c["bare"] else "missing"} '
                            f'({c["nvals"]} extra values) gave {CC.OUT_NAMES.get(r["out"], r["out"])} instead of PedanticTypeCheckException')
                elif r.get('body_ran'):
                    what = 'the body ran although the annotation of the variadic parameter is missing / bare'
                if what:
                    ck.violation(what, c, stream='varargs', extra={'impl': r}, matcher=varargs_matcher)
            ck.coverage['varargs_stream'] = {'cases': len(va), 'outcomes': vh}
        # the 15 bare forms x the VALUE ZOO (values outside the model's universe: named-tuple instances - for which the checker
        # takes a path of its own before the bare-builtin test -, objects with an _asdict of their own, generators, modules,
        # classes ...), at assert_value_matches_type and as parameter / return annotation.  Implementation only; the oracle is
        # the property text itself: PedanticTypeCheckException for every value, the body does not run for a parameter
        if replay is None or replay.get('case', {}).get('obs') == 'bare_zoo':
            if replay is not None:
                bz = [replay['case']]
            else:
                nv = ck.run_impl('w_checker', [{'obs': 'zoo_sizes'}], shards=1)[0]['sizes'][1]
                bz = [{'obs': 'bare_zoo', 'stream': 'bare-zoo', 'bare': b, 'vi': j, 'pos': 'avmt'} for b in CC.BARE_T + CC.BARE_B for j in range(nv)]
                at_fn = [{'obs': 'bare_zoo', 'stream': 'bare-zoo', 'bare': b, 'vi': j, 'pos': pos}
                         for b in CC.BARE_T + CC.BARE_B for j in range(nv) for pos in ('arg', 'ret')]
                bz += at_fn if ck.tier == 'thorough' else ck.rng.sample(at_fn, min(len(at_fn), 500 * ck.scale()))
                for c in bz:
                    if ck.rng.random() < 0.08:
                        c['thread'] = True
            bres = ck.run_impl('w_checker', bz, timeout=900)
            bh = {}
            for c, r in zip(bz, bres):
                if r is None or 'error' in r:
                    ck.oblige('impl-worker:bare-zoo', 'correspondence', False, f'{c} -> {r}')
                    continue
                ck.note_case(json.dumps([c['bare'], c['vi'], c['pos']]), nontrivial=True)
                bh[CC.OUT_NAMES.get(r['out'], str(r['out']))] = bh.get(CC.OUT_NAMES.get(r['out'], str(r['out'])), 0) + 1
                what = None
                where = {'avmt': 'assert_value_matches_type with the annotation', 'arg': 'a call of a function whose parameter annotation is',
                         'ret': 'a call of a function whose return annotation is'}[c['pos']]
                if r['out'] != 1:
                    what = (f'{where} bare {c["bare"]} gave {CC.OUT_NAMES.get(r["out"], r["out"])} instead of PedanticTypeCheckException '
                            f'for a value of type {r.get("val")} (value zoo #{c["vi"]})')
                elif c['pos'] == 'arg' and r.get('body_ran'):
                    what = f'the body ran although the parameter annotation is bare {c["bare"]} (value of type {r.get("val")}, value zoo #{c["vi"]})'
                if what:
                    ck.violation(what + CC.dimension_note(c), dict(c, value_type=r.get('val')), stream='bare-zoo', extra={'impl': r})
            ck.coverage['bare_x_value_zoo_stream'] = {'cases': len(bz), 'outcomes': bh}
    return CC.run('C06', tier, seed, replay, PROPS, judge, extra_streams=extra, extra_units=['Pedantic'],
                  rule_extra='; bare stream: the 15 bare forms x values; missing stream: generated signatures (1-4 parameters, def/async/method) '
                             'with one missing or bare annotation at a random position, conforming arguments by keyword; bare-zoo stream: the 15 bare '
                             'forms x 78 zoo values (named-tuple instances, objects with _asdict, generators, modules ...) at '
                             'assert_value_matches_type / parameter / return position; a share of all calls from another thread')
