"""Case generators for the type-checker streams: annotations of the supported vocabulary (any depth,
both spellings), values generated FROM the annotation so that they conform, single-position
corruptions (near misses), and a malformed/bare stream.  All randomness comes from the rng passed in."""

LEAF_CLS = ['int', 'str', 'bool', 'float', 'bytes', 'NoneType', 'object', ['user', [0]], ['user', [0, 1]], ['user', [1]],
            ['user', [0, 1, 0]], ['user', [2]]]
CTX = [[0, ['user', [0]]], [1, ['user', [1]]], [2, ['user', [2]]]]     # names U0 U1 U2 resolve to these classes
ELEM_ORIGINS_T = ['List', 'Set', 'FrozenSet', 'Deque', 'Iterable', 'Collection', 'Container', 'Sequence', 'MutableSequence',
                  'AbstractSet', 'MutableSet', 'KeysView', 'ValuesView']
MAP_ORIGINS_T = ['Dict', 'DefaultDict', 'Mapping', 'MutableMapping']
BUILTIN_OK = ['List', 'Set', 'FrozenSet', 'Dict', 'Tuple', 'Type']
BARE15 = ['List', 'Dict', 'Set', 'FrozenSet', 'Tuple', 'Type', 'Callable', 'Iterable', 'Sequence']
BARE_BUILTIN = ['list', 'dict', 'set', 'frozenset', 'tuple', 'type']


def is_sub(c, d):
    """issubclass on abstract classes"""
    if d == 'object': return True
    if isinstance(d, list): return isinstance(c, list) and c[1][:len(d[1])] == d[1]
    if d == 'int': return c in ('int', 'bool')
    if d == 'dict': return c in ('dict', 'defaultdict', 'OrderedDict')
    return c == d


def gen_leaf_cls(rng, hashable=False):
    return rng.choice(LEAF_CLS)


def gen_ann(rng, d, hashable=False, top=False):
    """annotation of the supported vocabulary; hashable=True restricts to annotations whose
    conforming values are hashable (set elements, dict keys)"""
    r = rng.random()
    if top and r < 0.04:
        return ['none']
    if top and r < 0.08:
        return ['str', rng.choice(CTX)[0]]
    if d <= 0 or r < 0.22:
        k = rng.random()
        if k < 0.70: return ['cls', gen_leaf_cls(rng)]
        if k < 0.78: return ['any']
        if k < 0.86: return ['fwd', rng.choice(CTX)[0]]
        if k < 0.91: return ['newtype', ['cls', rng.choice(['int', 'str', ['user', [0]], 'float', 'list'])]]
        if k < 0.93: return ['newtype', ['newtype', ['cls', rng.choice(['int', ['user', [0]]])]]]
        return gen_literal(rng)
    kinds = ['union', 'union', 'optional', 'tuple', 'tuplevar', 'frozenset', 'literal', 'type', 'tupleempty', 'newtype']
    if not hashable:
        kinds += ['elems'] * 5 + ['mapping'] * 3 + ['items', 'callable', 'tuple', 'union']
    k = rng.choice(kinds)
    sp = 'builtin' if rng.random() < 0.35 else 'typing'
    if k == 'union':
        n = rng.choice([2, 2, 3, 4])
        return ['union', 'pipe' if rng.random() < 0.3 else 'typing', [gen_ann(rng, d - 1, hashable) for _ in range(n)]]
    if k == 'optional':
        x = gen_ann(rng, d - 1, hashable)
        members = [x, ['cls', 'NoneType']]
        if rng.random() < 0.3: members.reverse()
        return ['union', 'pipe' if rng.random() < 0.3 else 'typing', members]
    if k == 'tuple':
        return ['gen', sp, 'Tuple', [gen_ann(rng, d - 1, hashable) for _ in range(rng.choice([1, 2, 2, 3]))]]
    if k == 'tuplevar':
        return ['tuplevar', sp, gen_ann(rng, d - 1, hashable)]
    if k == 'tupleempty':
        return ['tupleempty', sp]
    if k == 'newtype':
        return ['newtype', gen_ann(rng, d - 1, hashable)]
    if k == 'frozenset':
        return ['gen', sp, 'FrozenSet', [gen_ann(rng, d - 1, True)]]
    if k == 'literal':
        return gen_literal(rng)
    if k == 'type':
        return ['gen', sp, 'Type', [rng.choice([['cls', ['user', [0]]], ['cls', 'int'], ['any'], ['cls', 'object'], ['cls', ['user', [0, 1]]]])]]
    if k == 'elems':
        o = rng.choice(ELEM_ORIGINS_T)
        s = sp if o in BUILTIN_OK else 'typing'
        if o in ('Iterable', 'Collection', 'Container', 'Sequence') and rng.random() < 0.25:
            return ['gen', s, o, [rng.choice([['cls', 'int'], ['cls', 'str'], ['cls', 'bytes'], ['cls', 'object']])]]
        return ['gen', s, o, [gen_ann(rng, d - 1, o in ('Set', 'FrozenSet', 'AbstractSet', 'MutableSet', 'KeysView'))]]
    if k == 'mapping':
        o = rng.choice(MAP_ORIGINS_T)
        s = sp if o in BUILTIN_OK else 'typing'
        return ['gen', s, o, [gen_ann(rng, d - 1, True), gen_ann(rng, d - 1)]]
    if k == 'items':
        return ['gen', 'typing', 'ItemsView', [gen_ann(rng, d - 1, True), gen_ann(rng, d - 1)]]
    if k == 'callable':
        simple = lambda: rng.choice([['cls', 'int'], ['cls', 'str'], ['cls', ['user', [0]]], ['any'], ['cls', 'NoneType'], ['cls', 'float']])
        ps = None if rng.random() < 0.3 else [simple() for _ in range(rng.choice([0, 1, 2, 3]))]
        return ['callable', ps, simple()]
    raise AssertionError(k)


def gen_literal(rng):
    pool = [['int', 1], ['int', 2], ['int', 0], ['str', [97]], ['str', [98, 99]], ['bool', True], ['bool', False], ['none'],
            ['bytes', [120]], ['int', -3]]
    return ['lit', rng.sample(pool, rng.choice([1, 2, 3]))]


SCALARS = [['none'], ['bool', True], ['bool', False], ['int', 0], ['int', 1], ['int', -7], ['int', 10 ** 12], ['float', 3], ['float', 2],
           ['float', -1], ['str', []], ['str', [97]], ['str', [120, 121]], ['bytes', []], ['bytes', [1, 2]], ['object'],
           ['inst', [0], 1], ['inst', [0, 1], 2], ['inst', [1], 3], ['inst', [0, 1, 0], 4], ['inst', [2], 5],
           ['class', 'int'], ['class', ['user', [0]]], ['class', ['user', [0, 1]]], ['class', 'str'], ['class', 'bool']]
CONTAINERS = [['list', []], ['list', [['int', 1]]], ['tuple', []], ['tuple', [['int', 1], ['str', [97]]]], ['set', [['int', 1]]],
              ['frozenset', [['str', [97]]]], ['dict', [[['int', 1], ['str', [97]]]]], ['dict', []], ['deque', [['int', 2]]],
              ['defaultdict', [[['str', [97]], ['int', 1]]]], ['ordereddict', [[['int', 1], ['int', 2]]]], ['keys', [['int', 1]]],
              ['values', [['str', [97]]]], ['items', [[['int', 1], ['int', 2]]]], ['iter', [['int', 1], ['int', 2]]],
              ['lambda'], ['builtinfn'],
              ['fun', {'params': [['int', False]], 'ret': 'str', 'coroutine': False}],
              ['fun', {'params': [], 'ret': None, 'coroutine': False}]]


def cls_of(v):
    k = v[0]
    return {'none': 'NoneType', 'bool': 'bool', 'int': 'int', 'float': 'float', 'str': 'str', 'bytes': 'bytes', 'list': 'list',
            'tuple': 'tuple', 'set': 'set', 'frozenset': 'frozenset', 'dict': 'dict', 'defaultdict': 'defaultdict',
            'ordereddict': 'OrderedDict', 'deque': 'deque', 'keys': 'dict_keys', 'values': 'dict_values', 'items': 'dict_items',
            'iter': 'list_iterator', 'class': 'type', 'fun': 'function', 'lambda': 'function', 'builtinfn': 'builtin_function',
            'object': 'object'}.get(k) or ['user', v[1]]


def gen_of_cls(rng, c):
    """a value that is an instance of class c"""
    if c == 'object':
        return rng.choice(SCALARS + CONTAINERS)
    if isinstance(c, list):
        subs = [s for s in SCALARS if s[0] == 'inst' and s[1][:len(c[1])] == c[1]]
        return rng.choice(subs) if subs else ['inst', c[1], 9]
    if c == 'int': return rng.choice([['int', 0], ['int', 5], ['int', -2], ['bool', True], ['int', 2 ** 70]])
    if c == 'bool': return ['bool', rng.random() < 0.5]
    if c == 'float': return rng.choice([['float', 3], ['float', 0], ['float', -5]])
    if c == 'str': return rng.choice([['str', []], ['str', [97]], ['str', [104, 105]]])
    if c == 'bytes': return rng.choice([['bytes', []], ['bytes', [7]]])
    if c == 'NoneType': return ['none']
    if c == 'list': return ['list', [['int', 1]]]
    if c == 'type': return ['class', 'int']
    raise AssertionError(c)


def gen_not_of_cls(rng, c, hashable=False):
    pool = [s for s in SCALARS + ([] if hashable else CONTAINERS) if not is_sub(cls_of(s), c)]
    return rng.choice(pool) if pool else None


def unique(vals):
    out = []
    for v in vals:
        if v not in out:
            out.append(v)
    return out


def gen_conf(rng, a, size=3, ctx=None):
    """a value constructed to conform to annotation a (None if this generator cannot build one); ctx: the namespace
    [[n, class], ...] the forward references are read in (default CTX)"""
    k = a[0]
    n = lambda: rng.choice([0, 1, 2, size])
    if k == 'none': return ['none']
    if k == 'cls': return gen_of_cls(rng, a[1])
    if k == 'any': return rng.choice(SCALARS + CONTAINERS)
    if k == 'union': return gen_conf(rng, rng.choice(a[2]), size, ctx)
    if k == 'lit': return rng.choice(a[1])
    if k == 'newtype': return gen_conf(rng, a[1], size, ctx)
    if k in ('fwd', 'str'):
        c = dict((x, y) for x, y in (ctx or CTX))[a[1]]
        return gen_of_cls(rng, c)
    if k == 'tuplevar':
        return ['tuple', [gen_conf(rng, a[2], size, ctx) for _ in range(n())]]
    if k == 'tupleempty':
        return ['tuple', []]
    if k == 'callable':
        if rng.random() < 0.15: return ['lambda']
        ra = lambda x: 'any' if x[0] == 'any' else x[1]
        ps = a[1] if a[1] is not None else [['cls', 'int']] * rng.choice([0, 1, 2])
        return ['fun', {'params': [[ra(x), False] for x in ps], 'ret': ra(a[2]), 'coroutine': False}]
    if k == 'gen':
        o, args = a[2], a[3]
        if o == 'Tuple':
            return ['tuple', [gen_conf(rng, x, size, ctx) for x in args]]
        if o == 'Type':
            c = args[0]
            if c[0] == 'any': return rng.choice([['class', 'int'], ['class', ['user', [1]]]])
            subs = [s for s in SCALARS if s[0] == 'class' and is_sub(s[1], c[1])]
            return rng.choice(subs) if subs else ['class', c[1]]
        if o in MAP_ORIGINS_T:
            kind = {'Dict': ['dict', 'defaultdict', 'ordereddict'], 'DefaultDict': ['defaultdict'],
                    'Mapping': ['dict', 'ordereddict', 'defaultdict'], 'MutableMapping': ['dict', 'defaultdict']}[o]
            ks = [x for x in unique([gen_conf(rng, args[0], size, ctx) for _ in range(n())]) if is_hashable(x)]
            return [rng.choice(kind), [[x, gen_conf(rng, args[1], size, ctx)] for x in ks]]
        if o == 'ItemsView':
            ks = [x for x in unique([gen_conf(rng, args[0], size, ctx) for _ in range(n())]) if is_hashable(x)]
            return ['items', [[x, gen_conf(rng, args[1], size, ctx)] for x in ks]]
        conts = {'List': ['list'], 'Set': ['set'], 'FrozenSet': ['frozenset'], 'Deque': ['deque'],
                 'Iterable': ['list', 'tuple', 'set', 'deque', 'iter', 'dict', 'keys', 'values', 'frozenset'],
                 'Collection': ['list', 'tuple', 'set', 'deque', 'dict', 'frozenset', 'values'],
                 'Container': ['list', 'tuple', 'set', 'deque', 'dict', 'keys'],
                 'Sequence': ['list', 'tuple', 'deque'], 'MutableSequence': ['list', 'deque'],
                 'AbstractSet': ['set', 'frozenset', 'keys'], 'MutableSet': ['set'], 'KeysView': ['keys'], 'ValuesView': ['values']}[o]
        c = rng.choice(conts)
        hashable_needed = c in ('set', 'frozenset', 'keys', 'dict')
        elems = [gen_conf(rng, args[0], size, ctx) for _ in range(n())]
        if hashable_needed:
            elems = unique([e for e in elems if is_hashable(e)])
        if c == 'dict':
            return ['dict', [[e, ['int', 0]] for e in elems]]
        # str / bytes as sequences of str / int
        if o in ('Iterable', 'Collection', 'Container', 'Sequence') and args[0] == ['cls', 'str'] and rng.random() < 0.2:
            return ['str', [97, 98]]
        if o in ('Iterable', 'Collection', 'Container', 'Sequence') and args[0] in (['cls', 'int'], ['cls', 'object'], ['any']) and rng.random() < 0.25:
            return ['bytes', [1, 2]]            # bytes iterate as ints
        if o in ('Iterable', 'Collection', 'Container', 'Sequence') and rng.random() < 0.06:
            return rng.choice([['str', []], ['bytes', []]])     # no elements: conforms whatever the element type
        return [c, elems]
    return None


def is_hashable(v):
    k = v[0]
    if k in ('list', 'set', 'dict', 'defaultdict', 'ordereddict', 'deque', 'keys', 'values', 'items', 'iter'):
        return False
    if k in ('tuple', 'frozenset'):
        return all(is_hashable(x) for x in v[1])
    return True


def corrupt(rng, a, v, hashable=False):
    """replace one position of the conforming value v by something of the wrong class;
    returns None when this generator finds no way"""
    k = a[0]
    wrong_here = None
    if k == 'cls':
        return gen_not_of_cls(rng, a[1], hashable)
    if k in ('fwd', 'str'):
        return gen_not_of_cls(rng, dict((x, y) for x, y in CTX)[a[1]], hashable)
    if k == 'newtype':
        return corrupt(rng, a[1], v, hashable)
    if k == 'none':
        return rng.choice([['int', 0], ['bool', False], ['str', []], ['list', []]])
    if k == 'lit':
        pool = [s for s in SCALARS[:15] if s not in a[1]]
        return rng.choice(pool)
    if k == 'any':
        return None
    if k == 'tupleempty':
        return rng.choice([['tuple', [['int', 1]]], ['none'], ['tuple', [['tuple', []]]]] + ([] if hashable else [['list', []]]))
    if k == 'union':
        return rng.choice([['object'], ['class', 'bytes']]) if not hashable else ['object']
    if k == 'callable':
        ra = lambda x: 'any' if x[0] == 'any' else x[1]

        def unrelated(name):
            pool = [c for c in ('str', 'bytes', 'float', 'int') if c != name and not (name == 'bool' and c == 'int')]
            return rng.choice(pool) if name not in ('any', 'object') else None
        ps = a[1] if a[1] is not None else []
        outs = [['int', 3], ['none'], ['str', [97]], ['list', []],
                ['fun', {'params': [['int', False]] * (len(ps) + 1), 'ret': 'int', 'coroutine': False}]]
        # same arity, one declared class that cannot stand for the expected one (parameter: unrelated class; result: not a subclass)
        params = [[ra(x), False] for x in ps]
        for i, x in enumerate(ps):
            u = unrelated(ra(x))
            if u:
                outs.append(['fun', {'params': params[:i] + [[u, False]] + params[i + 1:], 'ret': ra(a[2]), 'coroutine': False}])
        u = unrelated(ra(a[2]))
        if u:
            outs.append(['fun', {'params': params, 'ret': u, 'coroutine': False}])
            if ra(a[2]) != 'object':
                outs.append(['fun', {'params': params, 'ret': 'object', 'coroutine': False}])
        return rng.choice(outs)
    children = []
    if k == 'tuplevar' and v[0] == 'tuple':
        children = [(a[2], i) for i in range(len(v[1]))]
    elif k == 'gen':
        o, args = a[2], a[3]
        if o == 'Tuple' and v[0] == 'tuple':
            children = [(args[i], i) for i in range(min(len(args), len(v[1])))]
        elif o == 'Type':
            c = args[0]
            if c[0] == 'any': return rng.choice([['int', 1], ['none']])
            pool = [s for s in SCALARS if s[0] == 'class' and not is_sub(s[1], c[1])] + [['int', 1], ['inst', [0], 1]]
            return rng.choice(pool)
        elif v[0] in ('dict', 'defaultdict', 'ordereddict', 'items') and len(args) == 2:
            children = [((args[0], True), (i, 0)) for i in range(len(v[1]))] + [((args[1], False), (i, 1)) for i in range(len(v[1]))]
        elif v[0] == 'dict' and len(args) == 1:
            children = [((args[0], True), (i, 0)) for i in range(len(v[1]))]
        elif v[0] in ('list', 'tuple', 'set', 'frozenset', 'deque', 'keys', 'values', 'iter') and len(args) == 1:
            hh = v[0] in ('set', 'frozenset', 'keys')
            children = [((args[0], hh), i) for i in range(len(v[1]))]
    if k == 'gen' and a[2] in ('Iterable', 'Collection', 'Container', 'Sequence') and a[3] == [['cls', 'bytes']] and rng.random() < 0.5 and not hashable:
        return ['bytes', [97, 98]]          # bytes iterate as ints, not as bytes
    # structural corruption at this node: a value of another container class / arity
    if not children or rng.random() < 0.25:
        if k == 'gen' and a[2] == 'Tuple' and v[0] == 'tuple' and rng.random() < 0.6:
            return ['tuple', v[1] + [['int', 0]]] if rng.random() < 0.5 or not v[1] else ['tuple', v[1][:-1]]
        pool = [c for c in CONTAINERS + SCALARS[:6] if c[0] != v[0] and (not hashable or is_hashable(c))]
        return rng.choice(pool)
    child, pos = rng.choice(children)
    if isinstance(child, tuple):
        ca, hh = child
    else:
        ca, hh = child, False
    if isinstance(pos, tuple):
        i, j = pos
        nv = corrupt(rng, ca, v[1][i][j], hashable or hh)
        if nv is None: return None
        items = [list(x) for x in v[1]]
        items[i][j] = nv
        return [v[0], items]
    nv = corrupt(rng, ca, v[1][pos], hashable or hh or (v[0] in ('tuple',) and hashable))
    if nv is None: return None
    elems = list(v[1])
    elems[pos] = nv
    return [v[0], elems]


def respell(rng, a):
    """an equivalent spelling: typing<->builtin alias, Optional/Union/| , permuted Union members"""
    k = a[0]
    if k == 'union':
        args = [respell(rng, x) for x in a[2]]
        rng.shuffle(args)
        return ['union', 'pipe' if a[1] == 'typing' else 'typing', args]
    if k == 'gen':
        sp = a[1]
        if a[2] in BUILTIN_OK:
            sp = 'builtin' if a[1] == 'typing' else 'typing'
        if a[2] == 'Type':
            return ['gen', sp, a[2], a[3]]
        return ['gen', sp, a[2], [respell(rng, x) for x in a[3]]]
    if k == 'tuplevar':
        return ['tuplevar', 'builtin' if a[1] == 'typing' else 'typing', respell(rng, a[2])]
    if k == 'tupleempty':
        return ['tupleempty', 'builtin' if a[1] == 'typing' else 'typing']
    return a


ABC_NAMES = ['Iterable', 'Collection', 'Container', 'Sequence', 'MutableSequence', 'AbstractSet', 'MutableSet', 'Mapping', 'MutableMapping',
             'KeysView', 'ValuesView', 'ItemsView', 'Deque', 'DefaultDict']


def to_abc(rng, a):
    """re-spell (some of) the abstract-collection generics of `a` the PEP 585 way: collections.abc.Sequence[int] ...
    returns None when `a` contains none"""
    hit = [False]

    def go(x):
        k = x[0]
        if k == 'union':
            return ['union', x[1], [go(y) for y in x[2]]]
        if k == 'gen':
            args = [go(y) for y in x[3]] if x[2] != 'Type' else x[3]
            if x[2] in ABC_NAMES and x[1] == 'typing' and (not hit[0] or rng.random() < 0.5):
                hit[0] = True
                return ['gen', 'abc', x[2], args]
            return ['gen', x[1], x[2], args]
        if k == 'tuplevar':
            return ['tuplevar', x[1], go(x[2])]
        if k == 'newtype':
            return ['newtype', go(x[1])]
        return x
    r = go(a)
    return r if hit[0] else None


# ------------------------------------------------------------------------------------------ input dimensions beyond (annotation, value)
# The verdict asked for by C01 / C02 / C06 / C08 is a function of the annotation, the value and the context handed to the
# checker - of nothing else.  The generators below vary what must NOT matter: state that somebody else left on the typing
# objects of the annotation, the history of earlier calls of the same decorated function, the NAME and the attribute
# annotations of a user class, the thread the call is made from.  The abstract case (annotation, final value, context) is what
# the model and the specification see; the extra keys only steer the implementation worker.

def has_kind(a, kind):
    if not isinstance(a, list):
        return False
    if a and a[0] == kind:
        return True
    return any(has_kind(x, kind) for x in a if isinstance(x, list))


def has_user_cls(a):
    return has_kind(a, 'user') or has_kind(a, 'fwd')


ALT_CLASSES = [['user', [0]], ['user', [1]], ['user', [2]], ['user', [0, 1]], 'int', 'str']


def gen_alt_ctx(rng):
    """another namespace for the names of CTX: every name bound to some OTHER class"""
    return [[n, rng.choice([c for c in ALT_CLASSES if c != cls])] for n, cls in CTX]


def gen_with(rng, d, pred, tries=60):
    for _ in range(tries):
        a = gen_ann(rng, d)
        if pred(a):
            return a
    return None


def gen_fwd_state(rng, d):
    """(annotation with a forward reference below a generic / union, value conforming in CTX, namespace `alt`, value
    conforming when the references are read in `alt`): typing evaluates the ForwardRef objects of the annotation in `alt`
    (typing.get_type_hints of unrelated code) before the check is made with CTX"""
    a = gen_with(rng, d, lambda x: has_kind(x, 'fwd'))
    if a is None:
        return None
    alt = gen_alt_ctx(rng)
    return a, gen_conf(rng, a), alt, gen_conf(rng, a, ctx=alt)


MUTABLE_KINDS = ('list', 'set', 'dict', 'defaultdict', 'ordereddict', 'deque')


def gen_default_history(rng, d):
    """(annotation, conforming value v, corrupted value w) with v and w mutable containers of one kind: the default object of
    a parameter, changed IN PLACE between two calls that leave the parameter out"""
    for _ in range(60):
        a = gen_ann(rng, max(1, d))
        if a[0] != 'gen':
            continue
        v = gen_conf(rng, a)
        if v is None or v[0] not in MUTABLE_KINDS or has_kind(v, 'iter'):
            continue
        for _ in range(6):
            w = corrupt(rng, a, v)
            if w is not None and w[0] == v[0] and w != v and not has_kind(w, 'iter'):
                return a, v, w
    return None


# A user class is identified by what it IS, not by how it is called: class Collection / Mapping / Deque / Text / Counter ...
# written by a user are ordinary classes.  Names: every public name of typing, collections, collections.abc and the builtin
# type names.
# DEFECT of the library at 4311a8e (finding K-C02-class-name, confirmed; repair pending): a plain class whose __name__ is a key of
# NUM_OF_REQUIRED_TYPE_ARGS_EXACT / _MIN (Callable Dict FrozenSet Iterable List Optional Sequence Set Tuple Union) is rejected
# for every instance ("misses some type arguments": _has_required_type_arguments looks the table up by _get_name(), which is
# cls.__name__ for a plain class), and a class called `name` is taken for a NewType (_is_type_new_type compares __qualname__
# with NewType('name', int).__qualname__).  These names are generated exactly when the translator found the repaired shape of
# the respective function (flags plain_class_complete / newtype_test_by_class of Gen/CheckerTables.v).
ARITY_TABLE_NAMES = ['Callable', 'Dict', 'FrozenSet', 'Iterable', 'List', 'Optional', 'Sequence', 'Set', 'Tuple', 'Union']
NEWTYPE_PROBE_NAME = 'name'


def class_names(flags=None):
    import typing, collections, collections.abc, keyword
    flags = flags or {}
    names = set()
    for m in (typing, collections, collections.abc):
        names |= {n for n in dir(m) if not n.startswith('_') and n.isidentifier() and not keyword.iskeyword(n) and n[0].isupper()}
    names |= {'list', 'dict', 'set', 'frozenset', 'tuple', 'type', 'int', 'str', 'object', 'deque', 'defaultdict', 'T', 'NoneType', 'function'}
    names -= set(ARITY_TABLE_NAMES) | {NEWTYPE_PROBE_NAME}
    hot = (ARITY_TABLE_NAMES if flags.get('plain_class_complete') else []) + ([NEWTYPE_PROBE_NAME] if flags.get('newtype_test_by_class') else [])
    # the names a table of the checker is keyed by are drawn as often as all the others together
    return sorted(names) + hot * max(1, len(names) // max(1, len(hot))) if hot else sorted(names)


# attribute annotations a plain class may carry (the check of a value against the CLASS is isinstance, whatever they say):
# resolvable, given as strings (from __future__ import annotations), naming something imported under TYPE_CHECKING only,
# naming the class itself, ForwardRef objects, things that are no types at all
ATTR_ANNS = [['t', 'int'], ['t', 'list_int'], ['t', 'optional_str'], ['s', 'int'], ['s', 'NoSuchName'], ['s', 'Optional[Decimal]'],
             ['s', 'List[NoSuchName]'], ['s', 'self'], ['f', 'NoSuchName'], ['f', 'self'], ['o', 5], ['s', 'not an expression (']]
USER_PATHS = [[0], [0, 1], [1], [0, 1, 0], [2]]


def user_paths(*terms):
    """the user classes an annotation / value mentions (forward references through CTX), with their ancestors"""
    out = []

    def add(p):
        for k in range(1, len(p) + 1):
            if p[:k] not in out:
                out.append(p[:k])

    def go(x):
        if not isinstance(x, list) or not x:
            return
        if x[0] == 'user' and len(x) == 2:
            add(list(x[1]))
        elif x[0] == 'inst' and len(x) == 3:
            add(list(x[1]))
        elif x[0] == 'fwd' and len(x) == 2:
            c = dict((n, cl) for n, cl in CTX).get(x[1])
            if isinstance(c, list):
                add(list(c[1]))
        else:
            for y in x:
                go(y)
    for t in terms:
        go(t)
    return out


def gen_class_deco(rng, names=None, paths=None):
    """for the user classes of the case: the name each is given and the attribute annotations it carries"""
    names = names or class_names()
    paths = USER_PATHS if paths is None else paths
    picked = []
    while len(picked) < len(paths):        # distinct names (the pool may list a name several times: weights)
        nm = rng.choice(names)
        if nm not in picked:
            picked.append(nm)
    deco = []
    for p, nm in zip(paths, picked):
        d = {}
        if rng.random() < 0.7:
            d['name'] = nm
        if rng.random() < 0.6:
            d['attrs'] = [['a%d' % i, rng.choice(ATTR_ANNS)] for i in range(rng.choice([1, 1, 2, 3]))]
        if d:
            deco.append([p, d])
    return deco
