"""C08 - only PedanticException surfaces from the checker.  Proof: coq/Props/C08.v (arbitrary inner
checker).  Property on the implementation: annotation zoo x value zoo at assert_value_matches_type and
at a @pedantic function (argument / return position), plus all ordinary streams."""
import checker_common as CC

PROPS = 'Props/C08.v'


def judge(ck, c, r, I, M, S, sup):
    if I in (4, 5):
        return f'{r.get("exc")} escaped (not derived from PedanticException)'
    return None


def run(tier, seed, replay=None):
    def extra(ck, cases):
        if replay is None or replay.get('case', {}).get('obs') == 'named':
            CC.named_stream(ck, 'contain')
        if replay is None or replay.get('case', {}).get('obs') == 'gclass':
            CC.gclass_stream(ck)
        if replay is None or replay.get('case', {}).get('obs') == 'corner':
            CC.corner_stream(ck)
        if replay is not None and replay.get('case', {}).get('obs') in ('named', 'gclass', 'corner'):
            cases.clear()
    return CC.run('C08', tier, seed, replay, PROPS, judge, extra_streams=extra, extra_units=['Pedantic'],
                  rule_extra='; zoo: every public name of typing / collections.abc, bare and subscripted, non-types, strings, TypeVars, '
                             'NamedTuple/TypedDict/Protocol ... x 78 values (namedtuples, objects with raising _asdict, generators, classes, modules); wrapper-corner '
                             'table incl. the generator protocol of @pedantic generator functions (next / send / close / throw in its one-, two- and '
                             'three-argument forms, directly and through yield from, bodies that handle the thrown exception; reference = the '
                             'same source without the decorators)')
