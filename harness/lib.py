"""Common machinery of bin/check: regeneration, build, obligations, Coq evaluation of
models/specs on generated cases, implementation workers, known findings, replays, evidence.

See DESIGN.md section 2.  Nothing here is property specific."""
import fcntl, hashlib, json, os, random, re, shutil, subprocess, sys, tempfile, time

ROOT = os.path.dirname(os.path.dirname(os.path.abspath(__file__)))
COQ = os.path.join(ROOT, 'coq')
REPO = os.environ.get('PV_REPO', '/repo')
PY = os.environ.get('PV_PYTHON', '/venv/bin/python')
NPROC = int(os.environ.get('PV_JOBS', str(os.cpu_count() or 4)))
GUARD = 'PEDANTIC_VERIF'

FORBIDDEN = [
    (r'\bAdmitted\b', 'Admitted'), (r'\badmit\b', 'admit'), (r'\bAxioms?\b', 'Axiom'),
    (r'\bParameters?\b', 'Parameter'), (r'\bConjecture\b', 'Conjecture'), (r'\bAdmit\s+Obligations\b', 'Admit Obligations'),
    (r'\bUnset\s+Guard\s+Checking\b', 'Unset Guard Checking'), (r'\bbypass_check\b', 'bypass_check'),
    (r'\bUnset\s+Positivity\s+Checking\b', 'Unset Positivity Checking'),
    (r'\bUnset\s+Universe\s+Checking\b', 'Unset Universe Checking'), (r'\bgive_up\b', 'give_up'),
]


def log(*a):
    print(*a, file=sys.stderr, flush=True)


def strip_coq_comments(text):
    out, depth, i, n = [], 0, 0, len(text)
    in_str = False
    while i < n:
        c = text[i]
        if depth == 0 and c == '"':
            in_str = not in_str
            out.append(c); i += 1; continue
        if not in_str and text.startswith('(*', i):
            depth += 1; i += 2; continue
        if not in_str and depth and text.startswith('*)', i):
            depth -= 1; i += 2; continue
        if depth == 0:
            out.append(c)
        i += 1
    return ''.join(out)


def strip_coq_strings(text):
    return re.sub(r'"(?:[^"]|"")*"', '""', text)


def hygiene_scan():
    """scan every .v under coq/ (comments and string literals stripped) for forbidden vernacular"""
    hits = []
    for d, _, fs in os.walk(COQ):
        if os.path.basename(d) == 'Gen.baseline':
            continue
        for f in fs:
            if not f.endswith('.v'):
                continue
            p = os.path.join(d, f)
            body = strip_coq_strings(strip_coq_comments(open(p, encoding='utf-8').read()))
            # sentences: split on '.' followed by whitespace
            for sent in re.split(r'\.(?:\s|$)', body):
                s = sent.strip()
                head = s.split(None, 1)[0] if s else ''
                for rx, name in FORBIDDEN:
                    if name in ('Axiom', 'Parameter', 'Conjecture'):
                        if re.match(r'(?:Local\s+|Global\s+|Polymorphic\s+|#\[[^\]]*\]\s*)*' + rx, s):
                            hits.append((os.path.relpath(p, ROOT), name))
                    elif re.search(rx, s):
                        hits.append((os.path.relpath(p, ROOT), name))
            # Variable / Hypothesis / Context outside a Section
            depth = 0
            for sent in re.split(r'\.(?:\s|$)', body):
                s = sent.strip()
                if re.match(r'Section\s+\w+', s):
                    depth += 1
                elif re.match(r'End\s+\w+', s) and depth > 0:
                    depth -= 1
                elif depth == 0 and re.match(r'(?:Local\s+|Global\s+)?(Variables?|Hypothes[ie]s|Context)\b', s):
                    hits.append((os.path.relpath(p, ROOT), 'Variable/Hypothesis outside Section'))
    proj = open(os.path.join(COQ, '_CoqProject')).read()
    for flag in ('-type-in-type', '-impredicative-set', '-vos', '-vok', '-noinit', '-native-compiler'):
        if flag in proj:
            hits.append(('coq/_CoqProject', flag))
    return hits


class BuildLock:
    def __enter__(self):
        self.fh = open(os.path.join(COQ, '.build.lock'), 'w')
        fcntl.flock(self.fh, fcntl.LOCK_EX)
        return self

    def __exit__(self, *a):
        fcntl.flock(self.fh, fcntl.LOCK_UN)
        self.fh.close()


def sh(cmd, cwd=None, timeout=1200, env=None, input=None):
    t0 = time.time()
    try:
        p = subprocess.run(cmd, cwd=cwd, timeout=timeout, env=env, input=input, capture_output=True, text=True)
        return p.returncode, p.stdout, p.stderr, time.time() - t0
    except subprocess.TimeoutExpired as ex:
        return 124, (ex.stdout or b'').decode(errors='replace') if isinstance(ex.stdout, bytes) else (ex.stdout or ''), 'TIMEOUT', time.time() - t0


PROJ_HEAD = '-Q . PV\n-arg -w -arg -notation-overridden,-ambiguous-paths,-deprecated-hint-without-locality\n'


def write_coqproject():
    """_CoqProject is derived from the files on disk (every .v under Base Gen Model Spec Proofs Props)"""
    files = []
    for sub in ('Base', 'Gen', 'Model', 'Spec', 'Proofs', 'Props'):
        d = os.path.join(COQ, sub)
        if os.path.isdir(d):
            files += sorted(os.path.join(sub, f) for f in os.listdir(d) if f.endswith('.v'))
    text = PROJ_HEAD + '\n'.join(files) + '\n'
    proj = os.path.join(COQ, '_CoqProject')
    old = open(proj).read() if os.path.exists(proj) else None
    if old != text:
        with open(proj, 'w') as fh:
            fh.write(text)


def ensure_makefile():
    write_coqproject()
    mk = os.path.join(COQ, 'Makefile')
    proj = os.path.join(COQ, '_CoqProject')
    if not os.path.exists(mk) or os.path.getmtime(mk) < os.path.getmtime(proj):
        rc, out, err, _ = sh(['coq_makefile', '-f', '_CoqProject', '-o', 'Makefile'], cwd=COQ)
        if rc != 0:
            raise RuntimeError('coq_makefile failed: ' + err)


def impl_env(extra=None):
    env = dict(os.environ)
    env['PYTHONPATH'] = REPO + os.pathsep + os.path.join(ROOT, 'harness')
    env['PYTHONHASHSEED'] = '0'
    env['PYTHONDONTWRITEBYTECODE'] = '1'
    env[GUARD] = '1'
    env.pop('ENABLE_PEDANTIC', None)
    if extra:
        env.update(extra)
    return env


class Check:
    def __init__(self, pid, tier='quick', seed=0, units=(), model_targets=(), props=None):
        self.pid, self.tier, self.seed = pid, tier, seed
        self.units, self.model_targets, self.props_file = list(units), list(model_targets), props
        self.t0 = time.time()
        self.rng = random.Random(seed)
        self.obligations = []       # dicts: name, kind, ok, detail
        self.violations = []        # dicts: what, case, known(bool), replay
        self.known_lines = []
        self.coverage = {}
        self.samples = []
        self.assumptions = []
        self.axioms = {}
        self.evaluations = 0
        self.nontrivial = set()
        self.traces_validated = 0
        self.scratch = tempfile.mkdtemp(prefix='pv-%s-' % pid, dir=os.environ.get('TMPDIR') or None)
        self.findings = [f for f in json.load(open(os.path.join(ROOT, 'known_findings.json')))['findings']
                         if f['property'] == pid]
        self.notes = []

    # ----- obligations ---------------------------------------------------------------------
    def oblige(self, name, kind, ok, detail=''):
        self.obligations.append({'name': name, 'kind': kind, 'ok': bool(ok), 'detail': detail[:2000]})
        if not ok:
            log(f'[{self.pid}] OBLIGATION BROKEN {kind}:{name}: {detail[:600]}')

    def broken(self):
        return [o for o in self.obligations if not o['ok']]

    # ----- step 1-3: regenerate, build, hygiene ----------------------------------------------
    def prepare(self):
        with BuildLock():
            rc, out, err, dt = sh([sys.executable, os.path.join(ROOT, 'translator', 'run.py')] + self.units, timeout=120)
            rep = None
            try:
                rep = json.loads(out.strip().splitlines()[-1])
            except Exception:
                pass
            if rc != 0 or rep is None:
                for u in self.units:
                    self.oblige(f'translate:{u}', 'translation', False, 'translator driver failed: ' + (err or out)[-800:])
            else:
                brk = {b['unit']: b for b in rep['broken']}
                for u in self.units:
                    if u in brk:
                        self.oblige(f'translate:{u}', 'translation', False, brk[u]['reason'])
                    else:
                        self.oblige(f'translate:{u}', 'translation', True, rep['units'].get(u, ''))
            self._source_locks()
            ensure_makefile()
            # models/specs first: they must evaluate even when a proof is broken
            self.model_ok = True
            if self.model_targets:
                rc, out, err, dt = sh(['make', '-j%d' % NPROC] + self.model_targets, cwd=COQ, timeout=1500)
                self.model_ok = rc == 0
                self.oblige('build:model', 'build', rc == 0, (out + err)[-1500:] if rc else f'{dt:.1f}s')
            if self.props_file:
                self._props()
        hits = hygiene_scan()
        self.oblige('hygiene', 'hygiene', not hits, '; '.join(f'{p}: {n}' for p, n in hits))

    def _source_locks(self):
        """the hand-written models describe the source text they were validated against: compare the normalised-AST
        fingerprints of every function in the property's cone (manifest/lock_cones.json) with source_locks.json"""
        try:
            sys.path.insert(0, os.path.join(ROOT, 'translator'))
            import srclocks
            for rel, ok, detail in srclocks.compare(REPO, srclocks.cone(self.pid)):
                self.oblige(f'source-lock:{rel}', 'translation', ok, detail)
        except Exception as ex:
            self.oblige('source-lock', 'translation', False, 'source locks could not be computed: ' + repr(ex)[:500])

    def _props(self):
        """build the cone of the property file, then recompile the property file itself to capture
        the Print Assumptions transcript of this very run"""
        vo = self.props_file[:-2] + '.vo'
        src = open(os.path.join(COQ, self.props_file), encoding='utf-8').read()
        clean = strip_coq_comments(src)
        thms = re.findall(r'^\s*Theorem\s+(\w+)', clean, flags=re.M)
        printed = re.findall(r'Print\s+Assumptions\s+(\w+)', clean)
        rc, out, err, dt = sh(['make', '-j%d' % NPROC, vo], cwd=COQ, timeout=1500)
        if rc == 0:
            rc, out, err, dt = sh(['coqc', '-Q', '.', 'PV', '-w', '-notation-overridden,-ambiguous-paths', self.props_file],
                                  cwd=COQ, timeout=900)
        self.props_ok = rc == 0
        blocks = re.split(r'(?=Closed under the global context|Axioms:)', out)
        reports = [b for b in blocks if b.startswith('Closed under') or b.startswith('Axioms:')]
        if rc == 0:
            if len(reports) != len(printed) or set(printed) != set(thms):
                self.oblige('props:assumptions-complete', 'proof', False,
                            f'{len(thms)} theorems, {len(printed)} Print Assumptions, {len(reports)} reports')
            for name, rep in zip(printed, reports):
                closed = rep.startswith('Closed under')
                axs = [] if closed else re.findall(r'^\s*([\w.]+)\s*:', rep, flags=re.M)
                self.axioms[name] = 'Closed under the global context' if closed else 'Axioms: ' + ', '.join(axs)
                self.oblige(f'theorem:{name}', 'proof', True, self.axioms[name])
        else:
            # attribute the failure to the theorem being proved at the error line
            msg = (err or out)
            m = re.search(r'File "[^"]*?([\w/]+\.v)", line (\d+)', msg)
            where = ''
            failing = None
            if m:
                where = f'{m.group(1)}:{m.group(2)}'
                try:
                    fpath = os.path.join(COQ, m.group(1).lstrip('./'))
                    lines = open(fpath, encoding='utf-8').read().splitlines()[:int(m.group(2))]
                    for ln in reversed(lines):
                        mm = re.match(r'\s*(?:Theorem|Lemma|Example|Corollary|Definition|Fixpoint)\s+(\w+)', ln)
                        if mm:
                            failing = mm.group(1); break
                except Exception:
                    pass
            done = len(reports)
            for name in printed[:done]:
                self.oblige(f'theorem:{name}', 'proof', True, 'checked before the failure')
            for n_, name in enumerate(printed[done:]):
                self.oblige(f'theorem:{name}', 'proof', False,
                            f'not checked: proof obligation {failing or "?"} fails at {where}' + (f': {msg[-700:]}' if n_ == 0 else ''))
            if not printed[done:]:
                self.oblige(f'theorem:{failing or "?"}', 'proof', False, f'{where}: {msg[-700:]}')

    # ----- Coq evaluation of model/spec on cases ---------------------------------------------------
    def coq_eval(self, preamble, terms, chunk=300, timeout=900, scope='Z_scope'):
        """see _coq_eval_once; when a shard fails because compiled libraries changed under it (somebody else's
        build running concurrently), wait for the build lock and evaluate once more"""
        r = self._coq_eval_once(preamble, terms, chunk, timeout, scope)
        if any(x is None for x in r) and any(o['name'] == 'coq-eval' and not o['ok'] and
                                             any(k in o['detail'] for k in ('inconsistent assumptions', 'premature end', 'bad version', 'Cannot find a physical path',
                                                                            'not a valid', 'Compiled library'))
                                             for o in self.obligations):
            self.obligations = [o for o in self.obligations if o['name'] != 'coq-eval']
            with BuildLock():
                sh(['make', '-j%d' % NPROC] + self.model_targets, cwd=COQ, timeout=1500)
            r = self._coq_eval_once(preamble, terms, chunk, timeout, scope)
        return r

    def _coq_eval_once(self, preamble, terms, chunk=300, timeout=900, scope='Z_scope'):
        """terms: Coq terms of type `list Z`; returns a list of python int lists (None when the
        shard failed).  One coqc per shard, shards in parallel."""
        if not terms:
            return []
        shards = [terms[i:i + chunk] for i in range(0, len(terms), chunk)]
        d = tempfile.mkdtemp(prefix='cases-', dir=self.scratch)
        procs = []
        results = [None] * len(shards)
        pending = list(enumerate(shards))
        running = []
        attempts = {}

        def launch(k, sh_terms):
            path = os.path.join(d, f'cases_{k}.v')
            with open(path, 'w', encoding='utf-8') as fh:
                fh.write(preamble + '\n')
                fh.write('Set Printing Width 10000000.\nSet Printing Depth 10000000.\n')
                fh.write(f'Open Scope {scope}.\n')
                fh.write('Definition pv_cases : list (list Z) := [\n  ' + ';\n  '.join(sh_terms) + '\n].\n')
                fh.write('Eval vm_compute in pv_cases.\n')
            out = open(path + '.out', 'w')
            p = subprocess.Popen(['coqc', '-Q', COQ, 'PV', '-w', '-notation-overridden,-ambiguous-paths', path],
                                 stdout=out, stderr=subprocess.STDOUT, cwd=d)
            return (k, p, out, path, time.time())

        while pending or running:
            while pending and len(running) < NPROC:
                k, st = pending.pop(0)
                running.append(launch(k, st))
            time.sleep(0.02)
            still = []
            for (k, p, out, path, t0) in running:
                rc = p.poll()
                if rc is None:
                    if time.time() - t0 > timeout:
                        p.kill()
                        out.close()
                        results[k] = ('error', 'timeout')
                    else:
                        still.append((k, p, out, path, t0))
                    continue
                out.close()
                txt = open(path + '.out', encoding='utf-8', errors='replace').read()
                if rc != 0 and (rc < 0 or not txt.strip()) and attempts.get(k, 0) < 2:
                    # killed from outside (kernel OOM killer when several checks run at once): not a verdict - run the shard again
                    attempts[k] = attempts.get(k, 0) + 1
                    time.sleep(1.0 + 2.0 * attempts[k])
                    pending.append((k, shards[k]))
                    continue
                if rc != 0:
                    results[k] = ('error', txt[-1500:])
                else:
                    results[k] = ('ok', txt)
            running = still
        flat = []
        errors = []
        for k, st in enumerate(shards):
            kind, txt = results[k]
            if kind != 'ok':
                errors.append(txt)
                flat.extend([None] * len(st))
                continue
            m = re.search(r'=\s*(\[.*\])\s*:\s*list \(list Z\)', txt, flags=re.S)
            if not m:
                errors.append('unparsable output: ' + txt[-500:])
                flat.extend([None] * len(st))
                continue
            body = m.group(1).replace(';', ',').replace('%Z', '').replace('\n', ' ')
            try:
                vals = json.loads(re.sub(r'\(\s*(-\d+)\s*\)', r'\1', body))
            except Exception as ex:
                errors.append(f'unparsable list: {ex}: {body[:300]}')
                flat.extend([None] * len(st))
                continue
            if len(vals) != len(st):
                errors.append(f'shard {k}: {len(vals)} results for {len(st)} cases')
                flat.extend([None] * len(st))
                continue
            flat.extend(vals)
        shutil.rmtree(d, ignore_errors=True)
        if errors:
            self.oblige('coq-eval', 'correspondence', False, errors[0])
        return flat

    # ----- implementation workers ----------------------------------------------------------------
    def run_impl(self, worker, cases, timeout=600, env=None, shards=None):
        """run harness/<worker>.py (under the repo's interpreter, PYTHONPATH=/repo) on JSON cases;
        the worker prints one JSON result per line, in order.  Returns list (None for lost cases)."""
        if not cases:
            return []
        shards = shards or min(NPROC, max(1, len(cases) // 50))
        parts = [cases[i::shards] for i in range(shards)]
        procs = []
        for part in parts:
            p = subprocess.Popen([PY, os.path.join(ROOT, 'harness', worker + '.py')], stdin=subprocess.PIPE,
                                 stdout=subprocess.PIPE, stderr=subprocess.PIPE, text=True, env=impl_env(env),
                                 cwd=self.scratch)
            procs.append(p)
        outs = []
        import threading
        res = [None] * shards

        def feed(i, p, part):
            try:
                o, e = p.communicate(json.dumps(part), timeout=timeout)
                res[i] = (p.returncode, o, e)
            except subprocess.TimeoutExpired:
                p.kill()
                o, e = p.communicate()
                res[i] = (124, o, 'TIMEOUT ' + (e or '')[-500:])
        ths = [threading.Thread(target=feed, args=(i, p, part)) for i, (p, part) in enumerate(zip(procs, parts))]
        [t.start() for t in ths]
        [t.join() for t in ths]
        results = [None] * len(cases)
        for i, part in enumerate(parts):
            rc, o, e = res[i]
            lines = [l for l in (o or '').splitlines() if l.startswith('{') or l.startswith('[')]
            for j, ln in enumerate(lines[:len(part)]):
                try:
                    results[i + j * shards] = json.loads(ln)
                except Exception:
                    pass
            if rc != 0 or len(lines) < len(part):
                lost = len(part) - len(lines)
                self.oblige(f'impl-worker:{worker}', 'correspondence', False,
                            f'worker exit {rc}, {lost} cases without result; first lost case: '
                            f'{json.dumps(part[len(lines)])[:400] if lost > 0 else "-"}; stderr: {(e or "")[-600:]}')
        return results

    # ----- findings, violations, replays ------------------------------------------------------------
    def save_replay(self, payload, tag=None):
        os.makedirs(os.path.join(ROOT, 'replays'), exist_ok=True)
        blob = json.dumps(payload, sort_keys=True, default=str)
        h = hashlib.sha256(blob.encode()).hexdigest()[:12]
        name = f'{self.pid}-{tag + "-" if tag else ""}{h}.json'
        path = os.path.join(ROOT, 'replays', name)
        with open(path, 'w') as fh:
            json.dump(payload, fh, indent=1, sort_keys=True, default=str)
        return os.path.join('replays', name)

    def known(self, fid, what):
        line = f'KNOWN-FINDING: property={self.pid} {fid}: {what}'
        if line not in self.known_lines:
            self.known_lines.append(line)

    def replay_known_findings(self, still_fails):
        """still_fails(finding) -> truthy when the finding's witness still violates the property on the
        current implementation.  Open findings that reproduce are printed as KNOWN-FINDING; fixed entries
        are replayed too (a defect that returned is reported by the ordinary streams, nothing is suppressed)."""
        for f in self.findings:
            try:
                r = still_fails(f)
            except Exception as ex:   # a witness that cannot be replayed is a harness defect: make it visible
                self.oblige(f'finding-replay:{f["id"]}', 'correspondence', False, repr(ex))
                continue
            if f['status'] == 'open':
                if r:
                    self.known(f['id'], f['what'])
                else:
                    self.notes.append(f'open finding {f["id"]} no longer reproduces on this tree')
            elif r:
                self.violation(f'fixed finding {f["id"]} has returned: {f["what"]}', f.get('witness'), stream='known-findings')

    def scale(self):
        """search intensification factor: 1 normally, larger when a proof/translation obligation is broken"""
        return 6 if any(o['kind'] in ('proof', 'translation') for o in self.broken()) else 1

    def violation(self, what, case, stream='', extra=None, matcher=None):
        """record a failing input.  matcher(finding, case) -> bool decides whether an *open* known finding
        covers this (shrunk) case; covered cases are counted, not reported."""
        if matcher is not None:
            for f in self.findings:
                if f['status'] == 'open' and matcher(f, case):
                    self.known(f['id'], f['what'])
                    self.coverage['suppressed_by_known_findings'] = self.coverage.get('suppressed_by_known_findings', 0) + 1
                    return
        payload = {'property': self.pid, 'kind': 'failing-input', 'stream': stream, 'what': what, 'case': case,
                   'seed': self.seed, 'tier': self.tier}
        if extra:
            payload.update(extra)
        self.violations.append(payload)

    # ----- evidence + verdict ---------------------------------------------------------------------
    def note_case(self, key, nontrivial=True):
        self.evaluations += 1
        if nontrivial:
            self.nontrivial.add(key)

    def finish(self, rule, checker_cmd, trusted_base, extra_cov=None, level='proof'):
        lines = []
        exit_code = 0
        # 1. concrete violations (first few, one replay each)
        seen = set()
        brk0 = self.broken()
        if brk0:
            for v in self.violations:
                v.setdefault('broken_obligations', [b['name'] for b in brk0])
        classes = {}
        for v in self.violations:
            k = v.get('class') or re.sub(r'\d+', 'N', v['what'])[:80]
            classes[k] = classes.get(k, 0) + 1
        self.coverage['violation_classes'] = classes
        for v in self.violations:
            key = v.get('class') or re.sub(r'\d+', 'N', v['what'])[:80]
            if key in seen or len(seen) >= 3:
                continue
            seen.add(key)
            rp = self.save_replay(v)
            lines.append(f'VIOLATION property={self.pid} replay={rp}')
            exit_code = 1
        # 2. broken obligations without any concrete failing input
        brk = self.broken()
        if brk and not self.violations:
            rp = self.save_replay({'property': self.pid, 'kind': 'obligation', 'broken': brk, 'seed': self.seed,
                                   'tier': self.tier,
                                   'note': 'a theorem, translation or correspondence obligation no longer checks and the '
                                           'search found no input on which the property fails'}, tag='obligation')
            lines.append(f'VIOLATION property={self.pid} replay={rp} no-failing-input-found')
            exit_code = 1
        elif brk:
            for v in self.violations:
                v.setdefault('broken_obligations', [b['name'] for b in brk])
        wall = time.time() - self.t0
        n_ob = len(self.obligations)
        n_ok = len([o for o in self.obligations if o['ok']])
        cov = {
            'obligations': n_ob, 'discharged': n_ok,
            'checker_cmd': checker_cmd, 'trusted_base': trusted_base,
            'evaluations': self.evaluations, 'distinct_nontrivial': len(self.nontrivial), 'rule': rule,
            'samples': self.samples[:12], 'traces_validated_against_impl': self.traces_validated,
            'obligation_list': [{k: o[k] for k in ('name', 'kind', 'ok', 'detail')} for o in self.obligations],
            'axioms_per_theorem': self.axioms, 'known_findings_reproduced': self.known_lines,
            'notes': self.notes,
        }
        cov.update(self.coverage)
        if extra_cov:
            cov.update(extra_cov)
        ev = {'property_id': self.pid, 'tier': self.tier, 'seed': self.seed, 'level': level, 'coverage': cov,
              'assumptions': self.assumptions, 'wall_s': round(wall, 2),
              'violations': len(lines)}
        os.makedirs(os.path.join(ROOT, 'evidence'), exist_ok=True)
        tmp = os.path.join(ROOT, 'evidence', self.pid + '.json.tmp')
        with open(tmp, 'w') as fh:
            json.dump(ev, fh, indent=1, default=str)
        os.replace(tmp, os.path.join(ROOT, 'evidence', self.pid + '.json'))
        shutil.rmtree(self.scratch, ignore_errors=True)
        for l in self.known_lines:
            print(l)
        for l in lines:
            print(l)
        print(f'[{self.pid}] tier={self.tier} seed={self.seed} obligations={n_ok}/{n_ob} evaluations={self.evaluations} '
              f'distinct_nontrivial={len(self.nontrivial)} violations={len(lines)} wall={wall:.1f}s')
        sys.stdout.flush()
        return exit_code


def coq_Z(n):
    return f'({n})' if n < 0 else str(n)


def coq_nat(n):
    return f'{n}%nat'


def coq_list(items):
    return '[' + '; '.join(items) + ']'


def coq_bool(b):
    return 'true' if b else 'false'


def coq_str(s):
    return '"' + s.replace('"', '""') + '"%string'
