"""Shared by harness/c12.py and harness/c13.py: case generators for @validate, rendering of a case as a
Coq term for Model/ValidateEval.eval_case, parsing of the model / specification output, the judge
(correspondence: implementation vs model; property: implementation vs specification) and the driver."""
import itertools, json
from lib import *

UNITS = ['Validate']
MODEL = ['Model/ValidateEval.vo']
PRE = ('From Coq Require Import List ZArith Bool.\n'
       'From PV Require Import Base.Exn Model.ValidateSem Model.ValidateSources Spec.ValidateSourcesSpec Model.ValidateEval.\nImport ListNotations.')
PARAM_EXC = [0, 13, 1]
NONE = [0, 0, 0]
MODES = ['ARGS', 'KWARGS_WITH_NONE', 'KWARGS_WITHOUT_NONE']
FLASK_KINDS = ('fjson', 'fform', 'fget', 'fheader')


# --------------------------------------------------------------------------- Coq rendering
def cval(v):
    t, a, b = v[:3]
    if t == 0:
        return 'VNone'
    if t == 1:
        return f'(VInt {coq_Z(a)})'
    if t == 2:
        return f'(VBool {coq_bool(a)})'
    if t == 3:
        return f'(VStr (SNum {coq_Z(a)} {coq_bool(b)}))'
    if t == 4:
        return f'(VStr (SWord {coq_Z(a)}))'
    if t == 5:
        return 'VSelf'
    if t == 6:
        return f'(VList {coq_list([csval(x) for x in list_items(a, b)])})'
    raise ValueError(v)


def list_items(code, n):
    """a list of strings [6, code, n] -> the item codes: numerals (z + 50) * 2 + padded, words 200 + k, base 256"""
    out = []
    for _ in range(n):
        out.append(code % 256)
        code //= 256
    return out


def csval(it):
    return f'(SWord {coq_Z(it - 200)})' if it >= 200 else f'(SNum {coq_Z(it // 2 - 50)} {coq_bool(it % 2)})'


def copt(v):
    return 'None' if v is None else f'(Some {cval(v)})'


def cpath(p):
    return coq_list([coq_nat(x) for x in p])


def cdesc(d):
    k = d[0]
    if k == 'maxnamed':          # accepts / rejects like `max`; the name its ValidatorException carries is no part of the model's
        return f'(DMax {coq_Z(d[1])})'   # validator outcome: model and specification name the Parameter whose chain rejected
    return {'ident': 'DIdent', 'tonone': 'DToNone', 'tostr': 'DToStr', 'rejectall': 'DRejectAll', 'nonetozero': 'DNoneToZero',
            'rejectoddsub': 'DRejectOddSub'}.get(k) or \
        (f'(DMax {coq_Z(d[1])})' if k == 'max' else f'(DAdd {coq_Z(d[1])})' if k == 'add' else
         f'(DConst {coq_Z(d[1])})' if k == 'const' else f'(DRaiseIfNeg {cpath(d[1])})')


def flask_source(p, rq):
    """(has_value, value) of a Flask parameter inside the request the harness builds"""
    if rq is None:
        return None
    key = str(p['n'])
    if p['kind'] == 'fjson':
        d = rq.get('json_body', {}) if rq['json'] and not rq.get('json_null') else {}
    elif p['kind'] == 'fform':
        d = {} if rq['json'] else rq.get('form', {})
    elif p['kind'] == 'fget':
        d = rq.get('args', {})
    else:
        d = rq.get('headers', {})
    return d.get(key)


SRC_KIND = {'fjson': 'KJson', 'fform': 'KForm', 'fget': 'KQuery', 'fheader': 'KHeader', 'env': 'KEnv'}


def env_code(p):
    """code of the environment variable an EnvironmentVariableParameter reads (w_validate.env_name): the parameter name itself,
    PV_VALIDATE_<n> (200 + n) or PV_VALIDATE_<n>_<i> (300 + 20 * i + n)"""
    v = p.get('env_var')
    if not v:
        return p['n']
    parts = [int(x) for x in v.split('_')[2:]]
    return 200 + parts[0] if len(parts) == 1 else 300 + 20 * parts[1] + parts[0]


def cext(p, rq=None):
    k = p['kind']
    if k in ('plain', 'fpath'):
        return 'XNone'
    if k in SRC_KIND:
        return f'(XSrc {SRC_KIND[k]} {coq_nat(env_code(p) if k == "env" else p["n"])} {coq_bool(p["conv"] == 4)})'
    st = p['ext']
    if st['state'] == 'absent':
        return 'XAbsent'
    if st['state'] == 'broken':
        return f'(XBroken {cpath(st["exc"])})'
    return f'(XValue {cval(st["val"])})'


def environ_of(params):
    """the environment variables as w_validate.perform sets them up (in declaration order; the last description of a variable wins)"""
    env = {}
    for p in params:
        if p['kind'] == 'env':
            env.pop(env_code(p), None)
            if p['ext']['state'] == 'value':
                env[env_code(p)] = p['ext']['val']
    return env


def cworld(rq, environ):
    """Model/ValidateEval.mkworld: the request (None = no request context) and the environment"""
    def pairs(d, f):
        return coq_list([f'({coq_nat(int(k))}, {f(k, v)})' for k, v in d.items()])
    if rq is None:
        crq = 'None'
    else:
        if rq['json']:
            cj = '(Some None)' if rq.get('json_null') else f'(Some (Some {pairs(rq.get("json_body", {}), lambda k, v: cval(v))}))'
            cf = '[]'
        else:
            cj = 'None'
            cf = pairs(rq.get('form', {}), lambda k, v: coq_list([cval(v)]))
        more = rq.get('args_more', {})
        ca = pairs(rq.get('args', {}), lambda k, v: coq_list([cval(x) for x in [v] + more.get(k, [])]))
        sp = rq.get('header_spelling', {})
        ch = coq_list([f'({coq_nat(int(k) + 100 * sp.get(k, 0))}, {cval(v)})' for k, v in rq.get('headers', {}).items()])
        crq = f'(Some ({cj}, {cf}, {ca}, {ch}))'
    ce = coq_list([f'({coq_nat(k)}, {cval(v)})' for k, v in environ.items()])
    return f'(mkworld {crq} {ce})'


def coq_case(c):
    if 'probe' in c:
        return coq_probe(c)
    rq = c.get('request')
    ps = coq_list([f'mkp {coq_nat(p["n"])} {p["conv"]} {coq_list([cdesc(d) for d in p["chain"]])} {coq_bool(p["required"])} '
                   f'{copt(p["default"])} {cpath(PARAM_EXC)} {cext(p, rq)} {coq_bool(p["kind"] == "fjson")}' for p in c['params']])
    sps = coq_list([f'mksp {coq_nat(sp["n"])} {coq_bool(sp["kwonly"])} {copt(sp["default"])}' for sp in c['sig']['params']])
    args = ([[5, 0, 0]] if c['sig']['method'] else []) + c['args']
    return (f'eval_case {ps} {sps} {coq_bool(c["sig"]["varkw"])} {coq_bool(c["sig"].get("varpos", False))} {c["mode"]} {coq_bool(c["strict"])} {coq_bool(c["ignore"])} '
            f'{coq_bool(c["async"])} {cworld(rq, environ_of(c["params"]))} {coq_list([cval(v) for v in args])} '
            f'{coq_list([f"({coq_nat(n)}, {cval(v)})" for n, v in c["kwargs"]])}')


def coq_probe(c):
    pr = c['probe']
    w = cworld(c.get('request'), {int(k): v for k, v in c.get('environ', {}).items()})
    if pr['kind'] == 'fdeser':
        return f'eval_probe_deser {coq_nat(pr["n"])} {coq_bool(pr["catch"])} {w}'
    return f'eval_probe {SRC_KIND[pr["kind"]]} {coq_nat(pr["key"])} {coq_bool(pr["as_list"])} {w}'


# --------------------------------------------------------------------------- parsing the Coq output
class Rd:
    def __init__(self, xs):
        self.xs, self.i = xs, 0

    def get(self):
        v = self.xs[self.i]; self.i += 1
        return v

    def val(self):
        return [self.get(), self.get(), self.get()]

    def path(self):
        return [self.get() for _ in range(self.get())]

    def dict(self):
        return sorted([self.get(), self.val()] for _ in range(self.get()))

    def journal(self):
        return [[self.get(), self.get(), self.val()] for _ in range(self.get())]

    def star(self):
        return [self.val() for _ in range(self.get())]


def parse_model(xs):
    if xs and xs[0] == -7:
        raise ValueError('has_value() of a source raises in the model: class path %r' % (xs[2:],))
    r = Rd(xs)
    out = {'journal': r.journal()}
    k = r.get()
    if k == 0:
        out['final'] = ['body', r.dict()]
    elif k == 3:
        out['final'] = ['body', r.dict(), r.star()]
    elif k == 1:
        pn = r.get()
        out['final'] = ['raise', r.path(), pn]
    else:
        out['final'] = ['nocall']
    assert r.get() == -1
    out['domain'] = r.get()
    k = r.get()
    if k == 0:
        out['demand'] = ['body', r.dict()]
    elif k == 3:
        out['demand'] = ['body', r.dict(), r.star()]
    elif k == 1:
        rs = []
        for _ in range(r.get()):
            pn = r.get()
            rs.append([r.path(), pn])
        out['demand'] = ['raise', rs]
    else:
        out['demand'] = ['python-rejects']
    out['spec_journal'] = r.journal()
    assert r.i == len(xs)
    return out


# --------------------------------------------------------------------------- judge
def impl_final(i):
    f = i['final']
    if f[0] == 'body':
        return ['body', i.get('binding')] + ([i['star']] if 'star' in i else [])
    if f[0] == 'raise':
        return ['raise', f[1], f[2]]
    return ['nocall']


def by_name(journal):
    g = {}
    for n, idx, v in journal:
        g.setdefault(n, []).append([idx, v[:3]])
    return g


def judge(c, i, m, skip_journal=()):
    """-> (correspondence_ok, property_ok, what, kind); skip_journal: names whose validator inputs are not compared"""
    if i is None or 'error' in i:
        return False, True, f'implementation worker failed: {i}', ''
    if m is None:
        return False, True, 'model evaluation failed', ''
    fin = impl_final(i)
    corr = (fin == m['final'] and i['journal'] == m['journal'] and i['calls'] <= 1 and i.get('ret_ok', True)
            and not i.get('raised_after_body'))
    what, kind = [], ''
    if i['calls'] > 1:
        what.append(f'the body ran {i["calls"]} times')
    if not i.get('ret_ok', True):
        what.append('the wrapper did not return the object the body returned')
    d = m['demand']
    ran = i['calls'] >= 1
    if m['domain'] in (2, 3, 4):                     # 3: *args function in its principal use (spec_star_outcome); 4: *args function,
                                                     # nothing for the tuple, every name a parameter (spec_outcome, empty tuple)
        if d[0] == 'raise':
            if ran:
                what.append(f'the body ran with {i.get("binding")} although the statement demands one of the exceptions {d[1]} '
                            f'(class path, parameter_name code)')
                kind = 'body-ran-despite-rejection'
            elif fin[0] != 'raise' or not any(fin[1][:len(p)] == p and (pn == 0 or pn == fin[2]) for p, pn in d[1]):
                what.append(f'outcome {fin} ({i.get("exc")}) is none of the demanded exceptions {d[1]}')
                kind = 'wrong-exception'
        elif d[0] == 'python-rejects':
            if ran:
                what.append(f'the body ran with {i.get("binding")} although a parameter without default receives no value')
                kind = 'body-ran-missing-argument'
            elif fin[0] != 'raise' or fin[1][:2] != [0, 2]:
                what.append(f'outcome {fin}, expected Python\'s TypeError for the missing argument')
                kind = 'wrong-exception'
        else:
            if fin[0] != 'body':
                what.append(f'outcome {fin} ({i.get("exc")}) although every argument is acceptable; the body has to see {d[1]}')
                kind = 'valid-call-refused'
            elif fin[1:] != d[1:] + ([[]] if m['domain'] == 4 else []):
                what.append(f'the body saw {fin[1:]}, the statement demands {d[1:]} (named binding' + (', then the *args tuple)' if len(d) > 2 else ')'))
                kind = 'wrong-binding'
        # validator inputs: in chain order, each fed with its predecessor's output
        gi, gs = by_name(i['journal']), by_name(m['spec_journal'])
        for n in (set(gi) | set(gs) if m['domain'] == 2 else ()):
            if n in skip_journal:
                continue
            a, b = gi.get(n, []), gs.get(n, [])
            if a != b and not (fin[0] == 'raise' and a == []):
                what.append(f'validators of parameter {n} were fed with {a} (index, value), demanded {b}')
                kind = kind or 'wrong-validator-inputs'
    elif m['domain'] == 1 and d[0] in ('body', 'python-rejects'):
        # a name reaches a function that has neither such a parameter nor **kwargs: Python has to reject the call, in
        # every return_as mode; a declared Parameter of the function must in any case receive what the statement demands
        if ran and d[0] == 'body' and fin[0] == 'body':
            dem, got = dict((n, v) for n, v in d[1]), dict((n, v) for n, v in fin[1])
            signames = {sp['n'] for sp in c['sig']['params']}
            for p in c['params']:
                n = p['n']
                if n in signames and n in dem and got.get(n) != dem[n]:
                    what.append(f'parameter {n} reached the body as {got.get(n)}; its Parameter demands {dem[n]} '
                                f'(the value never went through the chain of its Parameter)')
                    kind = 'gate-misbinding'
        if ran and not what:
            what.append(f'the body ran with {i.get("binding")} although a name that is no parameter of the function reaches the call '
                        f'(Python rejects it with TypeError in the other return_as modes)')
            kind = 'unknown-name-accepted'
        elif not ran and (fin[0] != 'raise' or fin[1][:2] != [0, 2]):
            what.append(f'outcome {fin} ({i.get("exc")}), expected Python\'s TypeError for the name the function does not have')
            kind = 'wrong-exception'
    if (not what and not c['sig'].get('varpos') and c['strict'] and not c['ignore'] and not ran
            and len(c['args']) > len([sp for sp in named(c['sig']) if not sp['kwonly']])
            and fin[0] == 'raise' and fin[1] == [0, 13]):
        what.append('strict: a positional beyond the positional parameters of the function (an argument without declared Parameter) ends in '
                    'ValidateException, the base class, not in TooManyArguments')
        kind = 'too-many-positionals-base-class'
    return corr, not what, '; '.join(what), kind


# --------------------------------------------------------------------------- several Parameters declared for ONE name
# The property text speaks of "the Parameter" of a value.  When several Parameter objects are declared under the same name (two
# sources for one argument: a current and a legacy environment variable, the JSON body and the query string, a plain Parameter
# next to an external one) it does not say which of them is meant - but whichever it is, what the text states about that
# Parameter has to hold: a value the caller passes goes through the chain of a Parameter of that name and no external source
# (and no default) of that name replaces it (C13: "supplies a value only when the caller did not pass one"; C12: the gate).
# So such a call is judged against EVERY resolution (one Parameter kept per name; Spec/ValidateSpec.v on the resolved
# declaration) and is a violation only if no resolution admits what the implementation did.  The validator inputs of the
# duplicated names are not compared (the text does not decide which of the chains run for a value nobody passed).
RESOLUTION_CAP = 9


def dup_names(c):
    seen, d = set(), []
    for p in c.get('params', []):
        if p['n'] in seen and p['n'] not in d:
            d.append(p['n'])
        seen.add(p['n'])
    return d


def resolutions(c):
    """the declarations that keep exactly one of the Parameters of every name, the last-declared ones first; [] when the
    case has no duplicate name, is outside the text (*args) or has more resolutions than RESOLUTION_CAP (then it is not judged)"""
    if 'calls' in c or c.get('impl_only') or c['sig'].get('varpos'):
        return []
    groups = {}
    for idx, p in enumerate(c['params']):
        groups.setdefault(p['n'], []).append(idx)
    dn = [n for n in groups if len(groups[n]) > 1]
    if not dn:
        return []
    total = 1
    for n in dn:
        total *= len(groups[n])
    if total > RESOLUTION_CAP:
        return []
    out = []
    for choice in itertools.product(*[list(reversed(groups[n])) for n in dn]):
        r = dict(c)
        r['params'] = [p for idx, p in enumerate(c['params']) if len(groups[p['n']]) == 1 or idx in choice]
        r['resolution'] = list(choice)
        out.append(r)
    return out


def caller_assignment(c):
    """name -> value as the caller passes it (nothing under ignore_input)"""
    if c['ignore']:
        return {}
    pos = [sp['n'] for sp in c['sig']['params'] if not sp['kwonly']]
    args = ([[5, 0, 0]] if c['sig']['method'] else []) + c['args']
    d = dict(zip(pos, args))
    for n, v in c['kwargs']:
        d.setdefault(n, v)
    return d


def judge_duplicates(c, i, res):
    """res: [(resolved case, parsed model / specification of the resolved case)] -> (judged, property_ok, what, kind)"""
    if not res or any(m is None or m['domain'] not in (1, 2) for _, m in res) or i is None or 'error' in i:
        return False, True, '', ''
    dn = dup_names(c)
    verdicts = [judge(cr, i, mr, skip_journal=dn) for cr, mr in res]
    if any(v[1] for v in verdicts):
        return True, True, '', ''
    fin = impl_final(i)
    asg = caller_assignment(c)
    if fin[0] == 'body' and i['calls'] == 1:
        got = dict((n, v) for n, v in fin[1])
        for n in dn:
            allowed = []
            for cr, mr in res:
                if mr['demand'][0] == 'body':
                    v = dict((k, x) for k, x in mr['demand'][1]).get(n)
                    if v not in allowed:
                        allowed.append(v)
            if n in asg and allowed and got.get(n) not in allowed:
                k = len([p for p in c['params'] if p['n'] == n])
                return True, False, (f'{k} Parameters are declared for the name {n} and the caller passes {asg[n]} for it: the body saw {got.get(n)}, '
                                     f'which is not what any of these Parameters makes of the caller\'s value (their chains give {allowed}): '
                                     f'another source (external value / default) replaced the value the caller passed'), 'caller-value-replaced'
    passed = ''.join(f' (the caller passes {asg[n]} for {n})' for n in dn if n in asg)
    return True, False, (f'several Parameters are declared for the name(s) {dn}{passed}; whichever of them is taken as the Parameter of its name, '
                         f'the statement is violated - e.g. with the last-declared ones: ' + verdicts[0][2]), verdicts[0][3] or 'duplicate-names'


# --------------------------------------------------------------------------- known findings
# C12-K4 / C12-K5 (*args branch of the positional loop) are status "fixed" (/repo 137d0c4 / 1908fef), like
# C12-K1 / C13-K1 (arrival-order fallback of _as_args), status "fixed" (/repo d10af45) in /verif/known_findings.json: their
# witness is replayed on every run and a return is an ordinary VIOLATION; the matcher below only ever applies to an open entry.
PENDING_FINDINGS = []


def py_eq(a, b):
    """Python's == on encoded values (ints and bools numerically, everything else by identity of the encoding)"""
    if a[0] in (1, 2) and b[0] in (1, 2):
        return a[1] == b[1]
    return a[:3] == b[:3]


def finding_matcher(f, case):
    """narrow syntactic predicates on the (single) case"""
    if 'calls' in case or 'probe' in case:
        return False
    mid = f.get('matcher', {}).get('id')
    signames = [sp['n'] for sp in case['sig']['params']]
    outside = [n for n, _ in case['kwargs'] if n not in signames] + [p['n'] for p in case['params'] if p['n'] not in signames]
    if mid == 'args_mode_name_outside_signature':
        # former finding K1: ARGS mode, function without **kwargs, no bound self, a keyword or a declared Parameter whose name
        # is no parameter of the function
        self_bound = case['sig']['method'] and not case['ignore']
        return case['mode'] == 0 and not case['sig']['varkw'] and not self_bound and bool(outside)
    if mid == 'without_none_name_outside_signature':
        # K2: KWARGS_WITHOUT_NONE, function without **kwargs, a name outside the signature reaches the call
        return case['mode'] == 2 and not case['sig']['varkw'] and bool(outside)
    if mid in ('varargs_surplus_positional', 'varargs_value_equal_to_named'):
        if not case['sig'].get('varpos'):
            return False
        npos = len([sp for sp in named(case['sig']) if not sp['kwonly']])
        head, extras = case['args'][:npos], case['args'][npos:]
        if mid == 'varargs_surplus_positional':
            # K4: more positionals for *args than Parameters whose names are no parameters of the function
            return len(extras) > len([p for p in case['params'] if p['n'] not in signames])
        # K5: a positional for *args equals (Python ==) the value of a named positional
        return any(py_eq(a, u) for a in extras for u in head)
    if mid == 'varargs_arrival_order':
        # K6: *args function, return_as=ARGS (values passed positionally in arrival order), and not every parameter arrives
        # positionally: a keyword argument, a positional parameter that gets no positional value, or a keyword-only parameter
        # (its value, too, is passed positionally and lands in the tuple)
        npos = len([sp for sp in named(case['sig']) if not sp['kwonly']])
        return bool(case['sig'].get('varpos')) and case['mode'] == 0 and (
            bool(case['kwargs']) or (0 if case['ignore'] else len(case['args'])) < npos + (1 if case['sig']['method'] and case['ignore'] else 0)
            or any(sp['kwonly'] for sp in case['sig']['params']))      # ignore_input: no positional value arrives at all, not even self
    if mid == 'surplus_positional_without_varargs':
        # K7: strict, no *args, more positionals than positional parameters
        npos = len([sp for sp in named(case['sig']) if not sp['kwonly']])
        return not case['sig'].get('varpos') and case['strict'] and len(case['args']) > npos
    if mid == 'positional_only_by_keyword':
        # K8: a positional-only parameter and a KWARGS mode
        return any(sp.get('posonly') for sp in case['sig']['params']) and case['mode'] in (1, 2)
    if mid == 'self_name_not_implicit_first_positional':
        # K3 = the complement of self_guard: self by keyword, a Parameter named self, or a parameter self that is not the first
        return (any(n == 0 for n, _ in case['kwargs']) or any(p['n'] == 0 for p in case['params'])
                or (0 in signames and signames.index(0) > 0))
    return False


# --------------------------------------------------------------------------- generators
INT_POOL = [-3, -1, 0, 1, 2, 3, 5, 8, 12]
VARPOS_P = 0.0          # share of random signatures with *args; set by the C12 driver (the text of C13 excludes them)
# names of signature parameters: p1..p6 and names spelled like variables of the implementation (w_validate.SPECIAL_NAMES:
# 10 args, 11 kwargs, 12 cls, 13 result, 14 func, 15 parameters, 16 k, 17 value, 18 signature); 0 = self, 7..9 = names outside
NAME_POOL = [1, 2, 3, 4, 5, 6, 10, 10, 11, 12, 13, 14, 15, 16, 17, 18]


def pick_names(rng, n):
    names = rng.sample(sorted(set(NAME_POOL)), n)
    if rng.random() < 0.3 and 10 not in names:          # `args` without star, at a random position
        names[rng.randrange(n)] = 10
    return names


def maybe_equalise(rng, asg):
    """repeated equal positional / keyword values (value-based bookkeeping must not confuse them)"""
    if len(asg) >= 2 and rng.random() < 0.15:
        v = [1, rng.choice([0, 2, 7]), 0]
        for n in asg:
            asg[n] = list(v)
    return asg
FOREIGN = [[0, 1], [0, 20], [0, 13], [0, 13, 2], [1], [0, 2]]
REJECT_LIKE = [[0, 13, 0], [0, 13, 0, 1]]


def gen_val(rng, strings_only=False, no_none=False):
    r = rng.random()
    if strings_only:
        return [3, rng.choice(INT_POOL), rng.choice([0, 0, 1])] if r < 0.7 else [4, rng.choice([0, 1, 2, 3, 5, 6]), 0]
    if r < 0.55:
        return [1, rng.choice(INT_POOL), 0]
    if r < 0.67 and not no_none:
        return list(NONE)
    if r < 0.82:
        return [3, rng.choice(INT_POOL), rng.choice([0, 0, 1])]
    if r < 0.92:
        return [4, rng.randrange(7), 0]
    return [2, rng.randrange(2), 0]


def gen_desc(rng, benign=False):
    if benign:                                   # validators that accept and transform ints (the body is reached)
        return rng.choice([['ident'], ['add', rng.choice([-2, 1, 3])], ['max', 50], ['nonetozero'], ['const', rng.choice([0, 4, 7])],
                           ['add', 1], ['ident'], ['rejectoddsub']])
    r = rng.random()
    if r < 0.2:
        return ['max', rng.choice([0, 2, 5, 9])]
    if r < 0.4:
        return ['add', rng.choice([-2, 1, 3])]
    if r < 0.52:
        return ['ident']
    if r < 0.55:                                 # a rejection that already carries the name of some (other) field
        return ['maxnamed', rng.choice([0, 2, 5, 9]), rng.choice([1, 2, 3, 4, 5, 6, 7, 12, 17]), rng.randrange(2)]
    if r < 0.62:
        return ['tostr']
    if r < 0.70:
        return ['raiseifneg', rng.choice(FOREIGN + REJECT_LIKE)]
    if r < 0.77:
        return ['const', rng.choice(INT_POOL)]
    if r < 0.84:
        return ['nonetozero']
    if r < 0.91:
        return ['rejectoddsub']
    if r < 0.96:
        return ['tonone']
    return ['rejectall']


def gen_chain(rng, maxlen, benign=False):
    n = rng.choice([0, 1, 1, 2, 2, 3] + list(range(maxlen + 1)))
    return [gen_desc(rng, benign) for _ in range(n)]


def boundary_chain(rng, maxlen):
    """a chain whose first rejection sits at a chosen position, and the value that hits / just misses it"""
    ln = rng.randint(1, maxlen)
    pos = rng.randrange(ln)
    k = rng.choice([2, 5, 9])
    chain = [['add', 1]] * pos + [['max', k]] + [rng.choice([['ident'], ['add', 1], ['max', 50]]) for _ in range(ln - pos - 1)]
    return chain, [1, k - pos + rng.choice([0, 1]), 0]


def gen_sig(rng, n, method, kwonly_p=0.3, varkw_p=0.08, varpos_p=0.0):
    names = pick_names(rng, n)
    n_kw = min(n, rng.choice([1, 1, 2])) if rng.random() < kwonly_p else 0
    n_pos = n - n_kw
    n_def = rng.choice([0, 0, 1, 2, n_pos]) if n_pos else 0
    n_def = min(n_def, n_pos)
    ps = [{'n': 0, 'kwonly': False, 'default': None}] if method else []
    for i, nm in enumerate(names[:n_pos]):
        ps.append({'n': nm, 'kwonly': False, 'default': gen_val(rng) if i >= n_pos - n_def else None})
    for nm in names[n_pos:]:
        ps.append({'n': nm, 'kwonly': True, 'default': gen_val(rng) if rng.random() < 0.5 else None})
    sig = {'params': ps, 'varkw': rng.random() < varkw_p, 'method': method}
    if rng.random() < varpos_p and 10 not in names:        # a *args parameter (spelled args)
        sig['varpos'] = True
    return sig


def gen_param(rng, n, maxchain, kinds=('plain', 'plain', 'plain', 'hext', 'hext', 'env'), benign=False):
    kind = rng.choice(kinds)
    conv = rng.choice([0, 0, 0, 1, 1, 2, 3]) if kind != 'env' else rng.choice([1, 2, 2, 3])
    if benign:
        conv = rng.choice([0, 0, 1]) if kind != 'env' else rng.choice([1, 1, 2])
    p = {'n': n, 'kind': kind, 'conv': conv, 'chain': gen_chain(rng, maxchain, benign), 'required': rng.random() < 0.65,
         'default': gen_val(rng) if rng.random() < 0.25 else None, 'ext': None}
    if kind == 'hext':
        r = rng.random()
        p['ext'] = ({'state': 'absent'} if r < 0.4 else {'state': 'value', 'val': gen_val(rng)} if r < 0.92
                    else {'state': 'broken', 'exc': rng.choice([[0, 3, 1], [0, 20], [0, 6]])})
    elif kind == 'env':
        p['ext'] = {'state': 'absent'} if rng.random() < 0.4 else {'state': 'value', 'val': gen_val(rng, strings_only=True)}
        if p['ext']['state'] == 'value' and p['ext']['val'][0] == 3 and rng.random() < 0.4:
            p['ext']['val'][2] = 1                      # blank padded: load_value strips
        if rng.random() < 0.5:
            p['env_var'] = 'PV_VALIDATE_%d' % n
    return p


def named(sig):
    return [sp for sp in sig['params'] if sp['n'] != 0]


def gen_decl(rng, sig, strict, maxchain, kinds=None, benign=False):
    ps = []
    for sp in named(sig):
        if strict or rng.random() < 0.8:
            ps.append(gen_param(rng, sp['n'], maxchain, *([kinds] if kinds else []), benign=benign))
    rng.shuffle(ps)
    return ps


def has_source(p, rq=None):
    if p['kind'] in FLASK_KINDS:
        return flask_source(p, rq) is not None
    return bool(p['ext']) and p['ext']['state'] != 'absent'


def gen_assignment(rng, sig, params, rq=None):
    """which named parameter is given which value by the caller"""
    decl = {p['n']: p for p in params}
    out = {}
    for sp in named(sig):
        p = decl.get(sp['n'])
        need = (p is None and sp['default'] is None) or (p is not None and p['required'] and p['default'] is None and not has_source(p, rq))
        if rng.random() < (0.92 if need else 0.5):
            if p is not None and p['conv'] == 1 and rng.random() < 0.6:
                out[sp['n']] = rng.choice([[1, rng.choice(INT_POOL), 0], [3, rng.choice(INT_POOL), rng.choice([0, 1])]])
            else:
                out[sp['n']] = gen_val(rng)
    return out


def max_prefix(sig, asg):
    k = 0
    for sp in named(sig):
        if sp['kwonly'] or sp['n'] not in asg:
            break
        k += 1
    return k


def make_call(sig, asg, j, kw_order):
    pos = [sp['n'] for sp in named(sig)][:j]
    return [asg[n] for n in pos], [[n, asg[n]] for n in kw_order]


def styles(sig, asg, rng=None, cap=None):
    """all splits into positional prefix / keyword rest and all keyword permutations (sampled above cap)"""
    out = []
    for j in range(max_prefix(sig, asg) + 1):
        pos = [sp['n'] for sp in named(sig)][:j]
        rest = [n for n in asg if n not in pos]
        for perm in itertools.permutations(sorted(rest)):
            out.append((j, list(perm)))
    if cap and len(out) > cap:
        out = rng.sample(out, cap)
    return out


def base_case(sig, params, mode, strict, ignore, is_async, args, kwargs, request=None, tag=''):
    return {'sig': sig, 'params': params, 'mode': mode, 'strict': strict, 'ignore': ignore, 'async': is_async,
            'request': request, 'args': args, 'kwargs': kwargs, 'tag': tag}


def gen_random_case(rng, maxchain, maxn=4, tag='valid'):
    method = rng.random() < 0.3
    sig = gen_sig(rng, rng.randint(1, maxn), method, varpos_p=VARPOS_P)
    strict = rng.random() < 0.6
    params = gen_decl(rng, sig, strict, maxchain, benign=rng.random() < 0.35)
    if rng.random() < 0.25 and params:                        # first rejection at a chosen chain position
        p = rng.choice(params)
        p['chain'], v = boundary_chain(rng, maxchain)
        p['conv'] = 1 if p['kind'] == 'env' else 0
        asg = gen_assignment(rng, sig, params)
        asg[p['n']] = v
    else:
        asg = maybe_equalise(rng, gen_assignment(rng, sig, params))
    j = rng.randint(0, max_prefix(sig, asg))
    rest = [n for n in asg if n not in [sp['n'] for sp in named(sig)][:j]]
    rng.shuffle(rest)
    args, kwargs = make_call(sig, asg, j, rest)
    return base_case(sig, params, rng.randrange(3), strict, rng.random() < 0.08, rng.random() < 0.3, args, kwargs, tag=tag)


def malform_special(rng, c, k):
    """regions of the open findings K2 (KWARGS_WITHOUT_NONE drops an unknown None keyword) and K3 (the name self)"""
    plain = not c['sig']['method']
    if k == 11 or not plain:                       # surplus keyword None, not strict, KWARGS_WITHOUT_NONE
        c['strict'], c['mode'] = False, 2
        c['kwargs'].insert(rng.randint(0, len(c['kwargs'])), [8, list(NONE)])
    elif k == 12:                                  # plain function whose first parameter is named self, passed by keyword
        names = [sp['n'] for sp in named(c['sig'])]
        c['sig']['params'].insert(0, {'n': 0, 'kwonly': False, 'default': None})
        c['kwargs'] = [[0, [1, rng.choice(INT_POOL), 0]]] + [[n, v] for n, v in zip(names, c['args'])] + c['kwargs']
        c['args'] = []
    elif k == 13:                                  # the undeclared name self by keyword, not strict, **kwargs
        c['strict'] = False
        c['sig']['varkw'] = True
        c['kwargs'].append([0, [1, rng.choice(INT_POOL), 0]])
    else:                                          # a Parameter named self
        c['sig']['varkw'] = True
        p = gen_param(rng, 0, 2, kinds=('plain',))
        p['default'], p['required'] = [1, rng.choice(INT_POOL), 0], False
        c['params'].insert(rng.randint(0, len(c['params'])), p)
    return c


def malform(rng, c):
    """near misses and malformed configurations / calls"""
    c = json.loads(json.dumps(c))
    c['tag'] = 'malformed'
    signames = [sp['n'] for sp in c['sig']['params']]
    k = rng.randrange(15)
    if k >= 11:
        return malform_special(rng, c, k)
    if k >= 9 and c['params']:                   # strict, but one argument has no Parameter (positional or keyword)
        c['strict'] = True
        c['params'].pop(rng.randrange(len(c['params'])))
    elif k == 0:                                 # surplus keyword
        c['kwargs'].insert(rng.randint(0, len(c['kwargs'])), [8, gen_val(rng)])
    elif k == 1:                                 # too many positionals
        c['args'] = c['args'] + [gen_val(rng) for _ in range(len(signames) + 1 - len(c['args']))]
    elif k == 2 and c['args']:                   # a name positionally and by keyword
        c['kwargs'].append([named(c['sig'])[0]['n'], gen_val(rng)])
    elif k == 3:                                 # declared Parameter the function does not have
        p = gen_param(rng, 7, 2, kinds=('plain',))
        p['default'] = gen_val(rng)
        c['params'].insert(rng.randint(0, len(c['params'])), p)
    elif k == 4 and c['params']:                 # the same name declared twice
        p = gen_param(rng, rng.choice(c['params'])['n'], 2, kinds=('plain',))
        c['params'].append(p)
    elif k == 5:                                 # no Parameter at all
        c['params'] = []
    elif k == 6:                                 # surplus keyword, not strict, ARGS (former arrival-order fallback, K1)
        c['strict'], c['mode'] = False, 0
        c['kwargs'].insert(rng.randint(0, len(c['kwargs'])), [8, gen_val(rng)])
    elif k == 7 and c['sig']['method']:          # self by keyword is not possible for a bound method: ignore_input instead
        c['ignore'] = True
    else:                                        # surplus keyword under strict
        c['strict'] = True
        c['kwargs'].append([9, gen_val(rng)])
    return c


def gen_matrix(rng, maxchain, n, cap_styles, modes=(0, 1, 2), flask=False, ignore_input=False):
    """one configuration x one named assignment x every call style x every mode.
    ignore_input: the ignore_input=True dimension - every parameter kind of the library (plain, FlaskPathParameter - a plain
    Parameter subclass -, external ones with / without value), most Parameters optional with a default so that the body is
    reached, the caller passing (to no avail) values in every call style"""
    method = rng.random() < 0.3 and not ignore_input       # ignore_input drops the bound self as well: Python's TypeError, nothing to see
    sig = gen_sig(rng, n, method, kwonly_p=0.2, varkw_p=0.05)
    strict = rng.random() < 0.5
    rq = None
    kinds = None
    if flask:
        rq = gen_request(rng, sig)
        kinds = ('plain', 'fjson', 'fjson', 'fform', 'fget', 'fheader', 'hext', 'env', 'fpath')
    elif ignore_input:
        kinds = ('plain', 'plain', 'fpath', 'fpath', 'fpath', 'hext', 'env')
    benign = rng.random() < 0.6 or ignore_input
    params = gen_decl(rng, sig, strict or ignore_input, maxchain, kinds, benign=benign)
    if ignore_input:
        for p in params:
            if rng.random() < 0.8 and p['default'] is None and not has_source(p, rq):
                p['required'], p['default'] = False, [1, rng.choice(INT_POOL), 0]
    finish_request(rng, rq, params, strict)
    asg = gen_assignment(rng, sig, params, rq)
    if benign:                                   # mostly acceptable values: small ints / their numerals, rarely None
        for sp in named(sig):
            if sp['n'] not in asg and rng.random() < 0.7:
                asg[sp['n']] = [1, 2, 0]
        for n in asg:
            if rng.random() < 0.85:
                asg[n] = rng.choice([[1, rng.choice([0, 2, 3, 8]), 0], [1, rng.choice([0, 2, 4]), 0], [3, rng.choice([0, 2, 8]), 0]])
    maybe_equalise(rng, asg)
    ignore = rng.random() < 0.06 or ignore_input
    out = []
    gid = rng.getrandbits(48)
    for (j, perm) in styles(sig, asg, rng, cap_styles):
        args, kwargs = make_call(sig, asg, j, perm)
        for mode in modes:
            c = base_case(sig, params, mode, strict, ignore, rng.random() < 0.3, args, kwargs, request=rq, tag='matrix')
            c['group'] = gid
            out.append(c)
    # every declaration order of the Parameters (same call, first style)
    if out and len(params) >= 2:
        first = out[0]
        orders = list(itertools.permutations(range(len(params))))
        if len(orders) > 6:
            orders = rng.sample(orders, 6)
        for o in orders:
            c = dict(first)
            c['params'] = [params[i] for i in o]
            c['tag'] = 'matrix-declaration-order'
            out.append(c)
    return out


def gen_request(rng, sig):
    """a Flask request carrying values for some of the named parameters in its JSON body / form, query string and headers"""
    is_json = rng.random() < 0.6
    rq = {'json': is_json, 'json_body': {}, 'form': {}, 'args': {}, 'headers': {}}
    for sp in named(sig):
        k = str(sp['n'])
        if rng.random() < 0.6:
            if is_json:
                rq['json_body'][k] = gen_val(rng)
            else:
                rq['form'][k] = gen_val(rng, strings_only=True)
        if rng.random() < 0.5:
            rq['args'][k] = gen_val(rng, strings_only=True)
        if rng.random() < 0.5:
            rq['headers'][k] = rng.choice([[3, rng.choice(INT_POOL), 0], [4, rng.choice([0, 1, 2, 5, 6]), 0]])
    if is_json and rng.random() < 0.15:
        rq['json_body']['9'] = gen_val(rng)          # key without Parameter: the strict-JSON clause
    rq['args_more'] = {k: [gen_val(rng, strings_only=True) for _ in range(rng.choice([1, 1, 2]))]
                       for k in rq['args'] if rng.random() < 0.3}                   # ?k=a&k=b: getlist
    rq['header_spelling'] = {k: rng.choice([1, 2]) for k in rq['headers'] if rng.random() < 0.4}   # the same header, spelled differently
    return rq


def finish_request(rng, rq, params, strict):
    """value_type=list on some query Parameters; rarely the JSON document null as body.
    NOT generated: null together with strict=True - the strict-JSON clause at the end of _wrapper_content iterates request.json
    (suspected defect, outside the property text: TypeError 'NoneType' object is not iterable when every Parameter is a
    FlaskJsonParameter, or none is declared, and the body is null)."""
    if rq is None:
        return
    for p in params:
        if p['kind'] == 'fget' and rng.random() < 0.35:
            p['conv'] = 4
    if rq['json'] and not strict and rng.random() < 0.06:
        rq['json_null'], rq['json_body'] = True, {}




# --------------------------------------------------------------------------- names of signature parameters as an input
CONVENTION_NAMES = [12, 12, 10, 11, 13, 14, 15, 16, 17, 18]      # cls, args, kwargs (no star), result, func, parameters, k, value, signature


def gen_convention_names(rng, maxchain, cap_styles=6):
    """A plain function or a method one of whose parameters is literally NAMED like an implicit / conventional argument (cls, args,
    kwargs, ... - w_validate.SPECIAL_NAMES; `self` at other places than the implicit first one is the region of the open
    finding C12-K3 and generated by malform_special) at the first or a later position, mostly WITHOUT a declared Parameter;
    the other parameters declared with accepting chains; every parameter passed, in every call style x every return_as mode.
    Nothing binds such a parameter implicitly: under strict it is an argument without declared Parameter like any other."""
    special = rng.choice(CONVENTION_NAMES)
    others = rng.sample([1, 2, 3, 4, 5, 6], rng.choice([0, 1, 1, 2]))
    names = list(others)
    names.insert(0 if rng.random() < 0.5 else rng.randint(0, len(names)), special)
    n_def = rng.choice([0, 0, 1, len(names)])
    sps = [{'n': 0, 'kwonly': False, 'default': None}] if rng.random() < 0.3 else []
    method = bool(sps)
    for i, nm in enumerate(names):
        sps.append({'n': nm, 'kwonly': False, 'default': [1, rng.choice(INT_POOL), 0] if i >= len(names) - n_def else None})
    sig = {'params': sps, 'varkw': rng.random() < 0.05, 'method': method}
    strict = rng.random() < 0.75
    params = [gen_param(rng, n, maxchain, kinds=('plain', 'plain', 'hext'), benign=True) for n in others]
    if rng.random() < 0.2:
        params.append(gen_param(rng, special, maxchain, kinds=('plain',), benign=True))
    rng.shuffle(params)
    asg = {n: rng.choice([[1, rng.choice([0, 2, 3, 8]), 0], [3, rng.choice([0, 2, 8]), 0], gen_val(rng, no_none=True)]) for n in names}
    if rng.random() < 0.15:
        asg.pop(rng.choice(names))
    out = []
    gid = rng.getrandbits(48)
    is_async = rng.random() < 0.2
    for (j, perm) in styles(sig, asg, rng, cap_styles):
        args, kwargs = make_call(sig, asg, j, perm)
        for mode in (0, 1, 2):
            c = base_case(sig, params, mode, strict, False, is_async, args, kwargs, tag='convention-names')
            c['group'] = gid
            out.append(c)
    return out


# --------------------------------------------------------------------------- rejections that already carry a parameter name
def gen_named_rejection(rng, maxchain):
    """Two to four declared Parameters; the chain of one of them contains, at a chosen position, a validator whose
    ValidatorException already carries a parameter_name - the name of ANOTHER Parameter of the function, of a name outside, or
    its own (a composite validator delegating through Validator.validate_param(value, parameter_name=<field>), or raising
    ValidatorException(parameter_name=<field>) itself) - and the value hits / just misses the rejection.  The statement: the
    ParameterException carries the name of the Parameter whose chain rejected."""
    names = rng.sample([1, 2, 3, 4, 5, 6, 12, 17], rng.choice([2, 2, 3, 4]))
    sps = [{'n': n, 'kwonly': False, 'default': None} for n in names]
    sig = {'params': sps, 'varkw': False, 'method': False}
    if rng.random() < 0.25:
        sig['params'].insert(0, {'n': 0, 'kwonly': False, 'default': None})
        sig['method'] = True
    params = [gen_param(rng, n, maxchain, kinds=('plain', 'plain', 'plain', 'hext'), benign=True) for n in names]
    rng.shuffle(params)
    p = rng.choice(params)
    chain, v = boundary_chain(rng, maxchain)
    pos = [k for k, d in enumerate(chain) if d[0] == 'max' and d[1] != 50][0]
    other = rng.choice([n for n in names if n != p['n']] * 3 + [7, 8, p['n']])
    chain[pos] = ['maxnamed', chain[pos][1], other, rng.randrange(2)]
    p.update(chain=chain, conv=0, kind='plain', ext=None)
    asg = {n: [1, rng.choice([0, 2, 3]), 0] for n in names}
    asg[p['n']] = v
    j = rng.randint(0, len(names))
    rest = names[j:]
    rng.shuffle(rest)
    args, kwargs = make_call(sig, asg, j, rest)
    return base_case(sig, params, rng.randrange(3), rng.random() < 0.6, False, rng.random() < 0.2, args, kwargs, tag='named-rejection')


# --------------------------------------------------------------------------- several Parameters for one name
EXT_KINDS = ('hext', 'env') + FLASK_KINDS


def gen_duplicates(rng, maxchain, cap_styles, modes=(0, 1, 2), flask=False):
    """One or two names of the signature are declared by SEVERAL Parameter objects (plain and external ones, their sources with
    and without a value, each environment Parameter reading its own variable), at random positions of the declaration; one named
    assignment that mostly passes the duplicated name(s); every call style x every return_as mode.  Judged by judge_duplicates."""
    sig = gen_sig(rng, rng.choice([1, 2, 2, 3]), rng.random() < 0.2, kwonly_p=0.2, varkw_p=0.05)
    strict = rng.random() < 0.5
    rq = gen_request(rng, sig) if flask else None
    kinds = ('plain', 'fjson', 'fjson', 'fform', 'fget', 'fget', 'fheader', 'hext', 'env') if flask else ('plain', 'plain', 'hext', 'hext', 'env', 'env')
    benign = rng.random() < 0.75
    params = gen_decl(rng, sig, True, maxchain, kinds, benign=benign)
    targets = rng.sample(named(sig), 2 if len(named(sig)) >= 2 and rng.random() < 0.25 else 1)
    for sp in targets:
        for _ in range(rng.choice([1, 1, 1, 2]) if len(targets) == 1 else 1):
            q = gen_param(rng, sp['n'], maxchain, kinds, benign=benign)
            if rng.random() < 0.6:                   # an optional source
                q['required'] = False
            if q['kind'] in ('hext', 'env') and rng.random() < 0.6:        # ... that has a value
                q['ext'] = {'state': 'value', 'val': gen_val(rng, strings_only=q['kind'] == 'env', no_none=True)}
            params.insert(rng.randint(0, len(params)), q)
        if rng.random() < 0.5:                       # one plain Parameter among the copies (the argument itself next to its sources)
            own = [p for p in params if p['n'] == sp['n']]
            if all(p['kind'] != 'plain' for p in own):
                rng.choice(own).update(kind='plain', ext=None, conv=rng.choice([0, 0, 1]))
    for idx, p in enumerate(params):
        if p['kind'] == 'env':
            p['env_var'] = 'PV_VALIDATE_%d_%d' % (p['n'], idx)            # current / legacy variable: one variable per Parameter
        elif 'env_var' in p:
            del p['env_var']
    finish_request(rng, rq, params, strict)
    asg = gen_assignment(rng, sig, params, rq)
    for sp in targets:
        if rng.random() < 0.8:
            asg[sp['n']] = rng.choice([[1, rng.choice([0, 2, 3, 8]), 0], [3, rng.choice([0, 2, 8]), 0], gen_val(rng)])
        else:
            asg.pop(sp['n'], None)
    if benign:
        for n in asg:
            if rng.random() < 0.7:
                asg[n] = rng.choice([[1, rng.choice([0, 2, 3, 8]), 0], [3, rng.choice([0, 2, 8]), 0]])
    ignore = rng.random() < 0.06
    out = []
    gid = rng.getrandbits(48)
    for (j, perm) in styles(sig, asg, rng, cap_styles):
        args, kwargs = make_call(sig, asg, j, perm)
        for mode in modes:
            c = base_case(sig, params, mode, strict, ignore, rng.random() < 0.25, args, kwargs, request=rq, tag='duplicate-names')
            c['group'] = gid
            out.append(c)
    return out


# --------------------------------------------------------------------------- has_value() / load_value() of one source object
def gen_probe(rng):
    """One source object of the library (environment variable, Flask JSON / form / query / header Parameter, deserializer) in a
    generated world: request with JSON body (object / null) or form, query string with repeated keys, headers in other
    spellings, environment with padded texts; rarely outside a request context.  has_value() and load_value() are called
    directly and compared with the model (Gen/ValidateSources.v interpreted by Model/ValidateSources.v) and with the
    specification of the source (Spec/ValidateSourcesSpec.v: key present / value held)."""
    kind = rng.choice(['fjson', 'fform', 'fget', 'fget', 'fheader', 'fheader', 'env', 'env', 'fdeser'])
    n = rng.choice([1, 1, 2, 3, 10, 11, 13, 17])
    sig = {'params': [{'n': m, 'kwonly': False, 'default': None} for m in sorted({n, 1, rng.choice([2, 3, 10])})], 'varkw': False, 'method': False}
    rq = gen_request(rng, sig) if kind != 'env' and rng.random() < 0.95 else None
    if rq and rq['json'] and rng.random() < 0.1:
        rq['json_null'], rq['json_body'] = True, {}
    c = {'probe': {'kind': kind, 'n': n, 'key': n, 'as_list': kind == 'fget' and rng.random() < 0.4, 'catch': rng.random() < 0.6},
         'request': rq, 'environ': {}, 'environ_names': {}, 'tag': 'source-probe'}
    if kind == 'env':
        own = rng.random() < 0.5
        var, code = (None, n) if own else ('PV_VALIDATE_%d' % n, 200 + n)
        c['probe'].update(env_var=var, key=code)
        names = {n: 'p%d' % n if n < 10 else {10: 'args', 11: 'kwargs', 13: 'result', 17: 'value'}[n], 200 + n: 'PV_VALIDATE_%d' % n}
        for k in names:                                   # the variable of the Parameter and the other candidate
            if rng.random() < 0.55:
                v = gen_val(rng, strings_only=True)
                if v[0] == 3 and rng.random() < 0.5:
                    v[2] = 1
                c['environ'][str(k)] = v
        c['environ_names'] = {str(k): v for k, v in names.items()}
    return c


def parse_probe(xs):
    r = Rd(xs)

    def has():
        return ['ok', r.get()] if r.get() == 0 else ['raise', r.path()]

    def load():
        if r.get() == 0:
            return ['ok', r.val()]
        pn = r.get()
        return ['raise', r.path(), pn]
    out = {'has': has(), 'load': load()}
    assert r.get() == -1
    if r.i < len(xs):
        out['in_context'], out['present'] = r.get(), r.get()
        out['value'] = r.val() if r.get() == 1 else None
    assert r.i == len(xs)
    return out


def judge_probe(c, i, m):
    """-> (correspondence_ok, property_ok, what)"""
    if i is None or 'error' in i:
        return False, True, f'implementation worker failed: {i}'
    if m is None:
        return False, True, 'model evaluation failed'
    ih, il = i['has'][:2], i['load'][:3]
    corr = ih == m['has'] and il == m['load']
    what = []
    if 'present' in m and m['in_context']:
        kind = {'fjson': 'the JSON body', 'fform': 'the form', 'fget': 'the query string', 'fheader': 'the headers', 'env': 'the environment'}[c['probe']['kind']]
        if ih != ['ok', m['present']]:
            what.append(f'has_value() gives {i["has"]} although the key is {"present in" if m["present"] else "absent from"} {kind}')
        elif m['present'] and m['value'] is not None and il != ['ok', m['value']]:
            what.append(f'load_value() gives {i["load"]}, {kind} holds {m["value"]} for the key'
                        + (' (all values of the key as a list: value_type is list)' if c['probe'].get('as_list') else '')
                        + (' (the text of the variable without surrounding white space)' if c['probe']['kind'] == 'env' else ''))
    return corr, not what, '; '.join(what)


# --------------------------------------------------------------------------- functions with *args
def gen_varargs_case(rng, maxchain):
    """def f(p..., *args): the Parameters of the named parameters first and in signature order, then Parameters whose names
    are no parameters of the function (they stand for the positions of *args); ARGS mode, purely positional calls with about as
    many surplus positionals as such Parameters (one less / one more), values sometimes equal to a named one"""
    pool = [n for n in sorted(set(NAME_POOL)) if n != 10]
    names = rng.sample(pool, rng.choice([0, 1, 1, 2]))
    rest = [n for n in pool if n not in names]
    stars = rng.sample(rest, rng.choice([0, 1, 2, 2, 3]))
    sps = [{'n': n, 'kwonly': False, 'default': None} for n in names]
    if names and rng.random() < 0.3:
        sps[-1]['default'] = [1, rng.choice(INT_POOL), 0]
    sig = {'params': sps, 'varkw': rng.random() < 0.1, 'method': False, 'varpos': True}
    benign = rng.random() < 0.7
    params = [gen_param(rng, n, maxchain, kinds=('plain', 'plain', 'hext'), benign=benign) for n in names + stars]
    for p in params[len(names):]:
        if rng.random() < 0.3:
            p['required'], p['default'] = False, [1, rng.choice(INT_POOL), 0]
    n_extra = max(0, len(stars) + rng.choice([-1, 0, 0, 0, 1]))
    n_args = len(names) + n_extra if rng.random() < 0.93 or not names else rng.randrange(len(names) + 1)   # rarely a named one missing
    args = [rng.choice([[1, rng.choice([0, 1, 2, 3, 4]), 0], [1, rng.choice([0, 1, 2, 3, 4]), 0], [2, rng.randrange(2), 0], gen_val(rng)])
            for _ in range(n_args)]
    return base_case(sig, params, 0 if rng.random() < 0.85 else rng.randrange(3), rng.random() < 0.6, False, rng.random() < 0.2, args, [],
                     tag='varargs')


# --------------------------------------------------------------------------- positional-only parameters (implementation only)
def gen_posonly_case(rng):
    """def f(a=.., b=.., /, **kw): the model has no positional-only parameters; a few such signatures are run on the
    implementation and judged by the property directly: Parameters with `add` chains, every parameter passed positionally,
    expected binding = value + the sum of the adds"""
    names = rng.sample([1, 2, 3, 4, 5, 6], rng.choice([1, 1, 2]))
    sps = [{'n': n, 'kwonly': False, 'posonly': True, 'default': [1, rng.choice([0, 9]), 0] if rng.random() < 0.7 else None} for n in names]
    if any(sp['default'] is None for sp in sps):
        for sp in sps:
            sp['default'] = None
    params = [{'n': n, 'kind': 'plain', 'conv': 0, 'chain': [['add', rng.choice([0, 1, 3])] for _ in range(rng.randint(0, 2))],
               'required': True, 'default': None, 'ext': None} for n in names]
    rng.shuffle(params)
    args = [[1, rng.choice([1, 2, 5]), 0] for _ in names]
    c = base_case({'params': sps, 'varkw': rng.random() < 0.6, 'method': False}, params, rng.randrange(3), rng.random() < 0.5, False,
                  rng.random() < 0.2, args, [], tag='posonly')
    c['impl_only'] = True
    return c


def judge_posonly(c, i):
    """-> (property_ok, what): every supplied value reaches the body through the chain of its Parameter"""
    if i is None or 'error' in i:
        return False, f'implementation worker failed: {i}'
    add = {p['n']: sum(d[1] for d in p['chain']) for p in c['params']}
    exp = sorted([sp['n'], [1, a[1] + add[sp['n']], 0]] for sp, a in zip(c['sig']['params'], c['args']))
    if i['final'][0] != 'body':
        return False, f'outcome {i["final"]} ({i.get("exc")}) although every argument is acceptable; the body has to see {exp}'
    if i.get('binding') != exp:
        return False, f'the body saw {i.get("binding")}, the statement demands {exp} (a supplied, validated value must reach its parameter)'
    return True, ''

# --------------------------------------------------------------------------- shared Parameter objects, calls in sequence
def gen_shared(rng, maxchain):
    """The SAME Parameter objects decorate two or three functions with different signature defaults (modes, strictness,
    declaration orders); the functions are called one after the other, omitting / passing arguments, external values
    present / absent.  History independence: every call is judged like a single call of a freshly decorated function."""
    names = pick_names(rng, rng.choice([1, 2, 2, 3]))
    params = []
    for n in names:
        p = gen_param(rng, n, maxchain, benign=rng.random() < 0.75)
        if rng.random() < 0.7:                   # optional without own default: the signature default has to apply
            p['required'], p['default'] = False, None
        params.append(p)
    funcs = []
    for _ in range(rng.choice([2, 2, 3])):
        order = list(names)
        rng.shuffle(order)
        n_def = rng.choice([len(order), len(order), len(order), max(0, len(order) - 1)])
        sps = []
        for i, nm in enumerate(order):
            d = None
            if i >= len(order) - n_def:
                d = rng.choice([[1, rng.choice(INT_POOL), 0], [1, rng.choice([10, 1000, 7]), 0], list(NONE), [3, rng.choice(INT_POOL), 0],
                                [4, rng.choice([0, 2, 5]), 0]])
            sps.append({'n': nm, 'kwonly': False, 'default': d})
        decl = list(range(len(params)))
        rng.shuffle(decl)
        funcs.append({'sig': {'params': sps, 'varkw': rng.random() < 0.05, 'method': False}, 'mode': rng.randrange(3),
                      'strict': rng.random() < 0.5, 'ignore': rng.random() < 0.04, 'async': rng.random() < 0.25, 'order': decl})
    calls = []
    for _ in range(rng.randint(3, 6)):
        fi = rng.randrange(len(funcs))
        sig = funcs[fi]['sig']
        asg = {}
        for sp in sig['params']:
            need = sp['default'] is None
            if rng.random() < (0.9 if need else 0.4):
                asg[sp['n']] = rng.choice([[1, rng.choice([0, 2, 3, 8]), 0], [3, rng.choice([0, 2, 8]), 0], gen_val(rng)])
        maybe_equalise(rng, asg)
        j = rng.randint(0, max_prefix(sig, asg))
        rest = [n for n in asg if n not in [sp['n'] for sp in sig['params']][:j]]
        rng.shuffle(rest)
        args, kwargs = make_call(sig, asg, j, rest)
        ext = []
        for p in params:
            if p['kind'] == 'hext':
                r = rng.random()
                ext.append({'state': 'absent'} if r < 0.55 else {'state': 'value', 'val': gen_val(rng)})
            elif p['kind'] == 'env':
                ext.append({'state': 'absent'} if rng.random() < 0.55 else {'state': 'value', 'val': gen_val(rng, strings_only=True)})
            else:
                ext.append(None)
        calls.append({'f': fi, 'args': args, 'kwargs': kwargs, 'ext': ext})
    return {'params': params, 'funcs': funcs, 'calls': calls, 'tag': 'shared'}


def expand_shared(sc):
    """the calls of a sequence as ordinary single cases (what each call has to look like on its own)"""
    out = []
    for k, call in enumerate(sc['calls']):
        f = sc['funcs'][call['f']]
        ps = []
        for i in f['order']:
            p = dict(sc['params'][i])
            p['ext'] = call['ext'][i]
            ps.append(p)
        c = base_case(f['sig'], ps, f['mode'], f['strict'], f['ignore'], f['async'], call['args'], call['kwargs'], tag='shared')
        c['step'] = k
        out.append(c)
    return out


def shared_prefix(sc, k):
    c = json.loads(json.dumps(sc))
    c['calls'] = c['calls'][:k + 1]
    return c


# --------------------------------------------------------------------------- driver
def features(c, m):
    f = {'n_named': len(named(c['sig'])), 'n_declared': len(c['params']), 'mode': MODES[c['mode']],
         'strict': c['strict'], 'method': c['sig']['method'], 'async': c['async'], 'tag': c.get('tag', '')}
    return f


def size(c):
    if 'probe' in c:
        return 2 + len(c.get('environ', {})) + (sum(len(v) for k, v in c['request'].items() if isinstance(v, dict)) if c.get('request') else 0)
    if 'calls' in c:
        return 100 + 10 * len(c['calls']) + len(c['params']) + sum(len(p['chain']) for p in c['params'])
    return (len(c['sig']['params']) + len(c['params']) + sum(len(p['chain']) for p in c['params']) + len(c['args']) + len(c['kwargs'])
            + (3 if c.get('request') else 0))


def run_checks(pid, tier, seed, replay, gen_cases, props, rule, group_check=False, tr_units=None):
    ck = Check(pid, tier, seed, tr_units or UNITS, MODEL, props)
    ck.prepare()
    for f in PENDING_FINDINGS:       # entries handed to the coordinator; active until known_findings.json carries them
        if f['property'] == pid and not any(g['id'] == f['id'] for g in ck.findings):
            ck.findings.append(f)
            ck.notes.append(f'finding {f["id"]} is not yet in known_findings.json; the driver uses its built-in copy')

    def still_fails(f):
        c = f['witness']
        if c.get('impl_only'):
            return not judge_posonly(c, ck.run_impl('w_validate', [c])[0])[0]
        i = ck.run_impl('w_validate', [c])[0]
        m = ck.coq_eval(PRE, [coq_case(c)])[0]
        corr, prop, what, kind = judge(c, i, parse_model(m) if m else None)
        return not prop and not (pid == 'C12' and kind == 'unknown-name-accepted')
    ck.replay_known_findings(still_fails)

    units = gen_cases(ck.rng, tier, ck.scale()) if replay is None else [replay['case']]
    unit_impl = ck.run_impl('w_validate', units, timeout=900)
    # implementation-only cases (positional-only parameters: not in the model), judged by the property directly
    n_posonly = 0
    keep = []
    for u, ui in zip(units, unit_impl):
        if u.get('impl_only'):
            n_posonly += 1
            ck.note_case(json.dumps(u, sort_keys=True), nontrivial=True)
            ok, what = judge_posonly(u, ui)
            if not ok:
                ck.violation(what, u, stream='validate-posonly', extra={'impl': ui, 'class': 'posonly'}, matcher=finding_matcher)
        else:
            keep.append((u, ui))
    units, unit_impl = [k[0] for k in keep], [k[1] for k in keep]
    # has_value() / load_value() of single source objects: against the model of the sources and their specification
    probes = [(u, ui) for u, ui in zip(units, unit_impl) if 'probe' in u]
    keep = [(u, ui) for u, ui in zip(units, unit_impl) if 'probe' not in u]
    units, unit_impl = [k[0] for k in keep], [k[1] for k in keep]
    probe_hist, probe_bad = {}, []
    if probes:
        raw = ck.coq_eval(PRE, [coq_case(u) for u, _ in probes], chunk=250) if ck.model_ok else [None] * len(probes)
        for (u, ui), r in zip(probes, raw):
            try:
                pm = parse_probe(r) if r is not None else None
            except Exception:
                pm = None
            ck.note_case(json.dumps(u, sort_keys=True), nontrivial=True)
            corr, prop, what = judge_probe(u, ui, pm)
            k = u['probe']['kind'] + (' list' if u['probe'].get('as_list') else '') + ': ' + \
                ('no request context' if u['request'] is None and u['probe']['kind'] != 'env' else
                 'present' if pm and pm.get('present') else 'absent' if pm and 'present' in pm else
                 'json' if u['request'] and u['request']['json'] else 'not json')
            probe_hist[k] = probe_hist.get(k, 0) + 1
            if not prop:
                ck.violation(what, u, stream='validate-sources', extra={'impl': ui, 'model': pm, 'class': 'source-value'}, matcher=finding_matcher)
            elif not corr:
                probe_bad.append({'case': u, 'impl': ui, 'model': pm, 'what': what})
            else:
                ck.traces_validated += 1
        ck.oblige('correspondence:validate-sources', 'correspondence', not probe_bad,
                  json.dumps(probe_bad[0])[:1500] if probe_bad else f'{len(probes)} source objects agree with the model')
    # sequences over shared Parameter objects: every call becomes a single case for model / specification; a failing
    # call is reported with the sequence up to and including it
    cases, impl, origin = [], [], []
    n_seq = 0
    for u, ui in zip(units, unit_impl):
        if 'calls' in u:
            n_seq += 1
            steps = ui.get('steps') if isinstance(ui, dict) else None
            for k, c in enumerate(expand_shared(u)):
                cases.append(c)
                impl.append(steps[k] if steps and k < len(steps) else ui)
                origin.append(shared_prefix(u, k))
        else:
            cases.append(u); impl.append(ui); origin.append(u)
    # several Parameters declared for one name: the specification is evaluated on every resolution (one Parameter kept per name)
    resolved = [resolutions(c) for c in cases]
    extra = [cr for rs in resolved for cr in rs]
    raw = ck.coq_eval(PRE, [coq_case(c) for c in cases + extra], chunk=250) if ck.model_ok else [None] * len(cases + extra)
    model = []
    for r in raw:
        try:
            model.append(parse_model(r) if r is not None else None)
        except Exception:
            model.append(None)
    model, model_extra = model[:len(cases)], model[len(cases):]
    res_of, pos = [], 0
    for rs in resolved:
        res_of.append(list(zip(rs, model_extra[pos:pos + len(rs)])))
        pos += len(rs)
    hist = {'outcome': {}, 'domain': {}, 'tag': {}, 'mode': {}, 'n_named': {}, 'n_declared': {}, 'chain_len': {},
            'first_rejection_at': {}, 'param_kind': {}, 'flags': {}, 'violation_kind': {}, 'duplicate_names': {},
            'duplicate_sources_with_value': {}}

    def bump(h, k):
        hist[h][str(k)] = hist[h].get(str(k), 0) + 1
    disagreements = []
    groups = {}
    n_dup_judged = 0
    for c, i, m, org, res in zip(cases, impl, model, origin, res_of):
        key = json.dumps([c['sig'], c['params'], c['mode'], c['strict'], c['ignore'], c['async'], c['request'], c['args'], c['kwargs']],
                         sort_keys=True) if org is c else json.dumps(org, sort_keys=True)
        nontrivial = bool(c['params']) and (len(c['args']) + len(c['kwargs']) >= 1 or any(p['ext'] for p in c['params']))
        ck.note_case(key, nontrivial=nontrivial)
        corr, prop, what, kind = judge(c, i, m)
        dup_judged = False
        if prop and res:
            dup_judged, prop, what, kind = judge_duplicates(c, i, res)
            n_dup_judged += dup_judged
            if dup_judged:
                asg = caller_assignment(c)
                for n in dup_names(c):
                    own = [p for p in c['params'] if p['n'] == n]
                    bump('duplicate_names', ('passed ' if n in asg else 'ignored ' if c['ignore'] else 'not passed ') + '+'.join(p['kind'] for p in own))
                    bump('duplicate_sources_with_value', sum(1 for p in own if has_source(p, c.get('request'))))
        if pid == 'C13' and kind == 'too-many-positionals-base-class':
            prop, what, kind = True, '', ''      # which class reports a surplus positional is a C12 matter (finding C12-K7)
        if pid == 'C12' and kind == 'unknown-name-accepted':
            prop, what, kind = True, '', ''      # the return_as modes disagree about a surplus name: a C13 matter (finding C13-K2), no gate violation
        if m:
            bump('domain', m['domain'])
            o = m['final'][0] if m['final'][0] != 'raise' else 'raise:' + '.'.join(map(str, m['final'][1]))
            bump('outcome', o)
            sj = by_name(m['spec_journal'])
            for p in c['params']:
                got = len(sj.get(p['n'], []))
                if m['final'][0] == 'raise' and m['final'][2] == p['n'] + 1 and got:
                    bump('first_rejection_at', got - 1)
        bump('tag', c.get('tag', '')); bump('mode', MODES[c['mode']]); bump('n_named', len(named(c['sig'])))
        bump('n_declared', len(c['params']))
        for p in c['params']:
            bump('chain_len', len(p['chain'])); bump('param_kind', p['kind'])
        for fl in ('strict', 'ignore', 'async'):
            if c[fl]:
                bump('flags', fl)
        if c['sig']['method']:
            bump('flags', 'method')
        if c['sig']['varkw']:
            bump('flags', 'varkw')
        if any(sp['kwonly'] for sp in c['sig']['params']):
            bump('flags', 'kwonly')
        if corr and prop:
            ck.traces_validated += 1
        if not prop:
            bump('violation_kind', kind)
            if org is not c:
                what = f'call {c["step"] + 1} of a sequence over shared Parameter objects (functions decorated with the same Parameter objects, called one after the other) does not end like the same call on its own: ' + what
            ck.violation(what, org, stream='validate-duplicates' if dup_judged else 'validate' if org is c else 'validate-shared',
                         extra={'impl': i, 'model': m, 'class': kind, 'single_case': c,
                                **({'resolutions': [{'kept': cr['resolution'], 'demand': mr['demand']} for cr, mr in res]} if dup_judged else {})},
                         matcher=finding_matcher)
        elif not corr:
            disagreements.append({'case': org, 'impl': i, 'model': m, 'what': what, 'single_case': c})
        if group_check and i and 'error' not in i and m and (m['domain'] == 2 or dup_judged) and 'group' in c \
                and c.get('tag') in ('matrix', 'duplicate-names', 'convention-names'):
            groups.setdefault((c['group'], c['mode']), []).append((c, i))
    # C13, independent of the specification: within a group (same configuration and named assignment, same mode)
    # every call style must end the same way, and ARGS / KWARGS_WITH_NONE must agree with each other
    if group_check:
        merged = {}
        for (g, mode), items in groups.items():
            merged.setdefault((g, 0 if mode in (0, 1) else 2), []).extend(items)
        for items in merged.values():
            ref_c, ref_i = items[0]
            ref = (ref_i['final'][0] == 'body', ref_i.get('binding'))
            for c, i in items[1:]:
                got = (i['final'][0] == 'body', i.get('binding'))
                if got != ref:
                    ck.violation(f'the same named assignment reaches the body differently: {ref} for args={ref_c["args"]} kwargs={ref_c["kwargs"]} '
                                 f'mode={MODES[ref_c["mode"]]}, but {got} for this call', c, stream='validate-metamorphic',
                                 extra={'impl': i, 'other_case': ref_c, 'other_impl': ref_i, 'class': 'call-style-dependent'},
                                 matcher=finding_matcher)
        hist['flags']['metamorphic_groups'] = len(merged)
    ck.violations.sort(key=lambda v: size(v['case']))
    disagreements.sort(key=lambda d: size(d['case']))
    ck.oblige('correspondence:validate', 'correspondence', not disagreements,
              json.dumps(disagreements[0])[:1500] if disagreements else f'{ck.traces_validated} runs agree with the model')
    if replay is None:
        floor = 0.5 * len(cases)
        ck.oblige('generator:non-degenerate', 'correspondence', len(ck.nontrivial) >= 0.3 * len(cases) and
                  hist['domain'].get('2', 0) >= floor, f'distinct non-trivial {len(ck.nontrivial)} of {len(cases)}, in-domain {hist["domain"].get("2", 0)}')
    ck.coverage.update({'histograms': hist, 'disagreements': len(disagreements), 'cases': len(cases), 'shared_parameter_sequences': n_seq,
                        'positional_only_impl_only': n_posonly, 'source_probes': probe_hist, 'duplicate_name_cases_judged': n_dup_judged,
                        'duplicate_name_resolutions_evaluated': len(extra)})
    trip = list(zip(cases, impl, model))
    ck.samples = [{'case': c, 'impl': i, 'model': m} for c, i, m in trip[:2] + trip[-2:]]
    ck.assumptions = [
        'values: None, ints, bools, decimal numerals (canonical / blank padded), seven words; value_type in {None,int,str,bool}',
        'validators are harness-defined subclasses of pedantic.Validator (deterministic, journal their input)',
        'functions without *args and without positional-only parameters; exception messages are not compared',
        'self is passed as the implicit first positional argument of a bound method only (never by keyword, never a Parameter name)',
        'history independence is checked on sequences of calls of 2-3 functions decorated with the SAME Parameter objects: every call must end '
        'like the same call of a freshly decorated function (the model is a pure function of declaration and call)',
        'Flask is installed (IS_FLASK_INSTALLED); the strict-JSON clause at the end of _wrapper_content is compared with the model only',
        'external sources: the model runs on has_value / load_value as the descriptions regenerated from the code say (Gen/ValidateSources.v), the '
        'specification on what Spec/ValidateSourcesSpec.v says about the kind of source (key present, value held); JSON bodies are objects or null, '
        'header names differ from the parameter name at most in case, environment texts are numerals (blank padded) and seven words',
        'several Parameters declared for one name: the text does not say which of them is "the Parameter" of the name, so such a call is '
        'a violation only if NO choice of one Parameter per name admits the outcome (a value the caller passes must come out of the chain of '
        'one of them, never from an external source or a default); validator inputs of the duplicated names are compared with the model only',
    ]
    return ck.finish(
        rule=rule,
        checker_cmd=f'make -C coq {props[:-2]}.vo && coqc -Q coq PV coq/{props} (Print Assumptions under every theorem)',
        trusted_base=['Coq 8.16.1 kernel (coqc; vm_compute for model/spec evaluation)',
                      'translator/t_validate.py (Python ast -> Gen/Validate.v)',
                      'translator/t_validate_sources.py (Python ast -> Gen/ValidateSources.v), Model/ValidateSources.v (interpreter of the source '
                      'descriptions; werkzeug MultiDict / EnvironHeaders / request.json and os.environ as the world)',
                      'Model/ValidateSem.v (interpreter of the configuration; Python argument binding without *args)',
                      'Model/ValidateEval.v (value universe, convert_value table, harness validators)',
                      'harness/w_validate.py, harness/v_common.py (correspondence glue)',
                      'CPython 3.12 call semantics, inspect.signature / bind_partial'])
