"""messages of the exceptions scripted into generated bodies (shared by harness/p_common.py and harness/w_pedantic.py):
they imitate the TypeErrors CPython itself raises for a call that does not fit, so that a wrapper that inspects messages is noticed"""
EXC_MSGS = ['scripted', "f() got an unexpected keyword argument 'x'", "f() missing 1 required positional argument: 'a'",
            "f() takes 0 positional arguments but 1 was given", "f() got multiple values for argument 'a'",
            "'NoneType' object is not iterable", 'Use kwargs when you call function f', 'Parameter "a" is unfilled.']
