"""Implementation worker for C17: runs pedantic's in_subprocess / calculate_in_subprocess on scripted callees.

One case = one batch of invocations that are awaited CONCURRENTLY on one event loop (a single invocation is a batch of
one).  Per invocation the callee's behaviour is scripted (return / raise a class / terminate the process in several
ways; small or large, picklable or not, sync or coroutine function), optionally the child is killed from outside at a
chosen point (right after the fork, while the callee runs, in the middle of sending a large result).
Two further input dimensions (implementation-only: neither is in the vocabulary of the Coq model):
* `nest`: the callee delegates a part of its work to a process of ITS OWN - a nested calculate_in_subprocess /
  @in_subprocess invocation (one or two levels deep) or a plain multiprocess.Process - and puts what that process
  computed into its result / exception.  The reference ("what the function returns when run with the same arguments")
  is established by running the same delegation directly in this process first.
  `glife` > 0: that process lives for glife ms and the child is killed (kill = in_callee) while it lives; observed: whether it
  had run to its own end when the awaiting task was handed the outcome (open finding C17-K6: it inherits the write end,
  so the parent sees EOF only when it has gone too).
* `sig`: the application (this process) has its own SIGTERM and SIGINT dispositions installed while the batch runs
  (a Python handler that only records the signal, or SIG_IGN); every forked child inherits them.  The callee of a
  cancelled invocation computes "for ever" and watches the parent's ticker meanwhile: when the ticker stands still
  for STALL seconds it reports that (`stalled`) and gives up, so a loop thread that is held by the teardown of a
  cancelled await costs STALL seconds, not the hard watchdog.

Three more implementation-only dimensions:
* `ret`: what the callee RETURNS is not plain data but a picklable object that looks like work still to be done - an
  awaitable (class with __await__, also one whose __await__ raises), a generator-like iterator object, an object that is
  both - or the coroutine object a coroutine function returns (not picklable).  Demanded: an instance of the very same
  class with the same payload ("yields exactly what the function returns"); anything else is `returns some other value`.
* `hold`: what the CALLER of the await does with an exception it catches: 'none' = turned into plain data on the spot,
  traceback cleared (the behaviour of this worker so far); 'keep' = the ordinary `except ... as e: errors.append(e)`:
  the exception object is kept AS IT IS until all invocations of the case are over.  Then: is it the very same object
  another invocation of the case was handed (`shared_exc_with`)?  The objects are dropped before the fd / child census
  (the count taken while they are still referenced is reported as `fd_delta_while_held`, not judged: see c17.py).
* `round`: invocations with the same round number are awaited concurrently, the rounds of a case one after the other on
  the same event loop - several failures in sequence AND at the same time in one process, one census after all of them.

Observed (canonical, no timings): the awaited outcome and whether it is THIS invocation's own object (token), the pid the
callee saw, keyword/positional arguments as the callee saw them, whether the parent's event loop kept ticking while the
callee waited for it, and - at the very moment the await hands the outcome over - whether the pipe ends of this
invocation are closed and its child is reaped.  Per batch: /proc/self/fd count before/after (after gc), children of this
process left in /proc, multiprocess.active_children().

Never hangs: every await is under an asyncio watchdog (a parent suspended forever), a repeating SIGALRM breaks synchronous
blocking (a parent stuck in recv()/join()), a callee that waits to be killed gives up by itself.  After the first hang
the remaining cases of this worker are skipped (reported as such), so a broken implementation costs one watchdog period.

Instrumentation is on the harness side only: the module globals `Process` and `Pipe` that calculate_in_subprocess looks up
at call time are wrapped to learn the child's pid and the Connection objects of each invocation (weak references)."""
import asyncio, contextvars, fcntl, gc, json, mmap, os, signal, struct, sys, termios, threading, time, traceback, weakref

W_ASYNC = float(os.environ.get('PV_C17_WATCHDOG', '25'))
W_HARD = W_ASYNC + 20.0
TICK_DEADLINE = 20.0
G_OFF = 1024                     # SHM[G_OFF + i]: state of the process started by the callee of invocation i
STALL = float(os.environ.get('PV_C17_STALL', '12'))      # ticker period is 2 ms
STALL_AGAIN = 2.0                # after a first stall has been established in this worker (SHM[16])
NEST_DEADLINE = 20.0
PAD_BIG = 300_000
PAD_MIDSEND = 4_000_000

import multiprocess
import pedantic.decorators.fn_deco_in_subprocess as M
import subproc_callees as SC
import excs

ME = os.getpid()
SHM = mmap.mmap(-1, 8192)            # shared with every forked child: [0:8] ticker count, [16] a stall was seen, [64+i] flag of invocation i
CUR = contextvars.ContextVar('c17_inv', default=None)
REG = {}
LOCAL_CLS = {(0, 11, 0): ChildProcessError}
LOCAL_CLS.update(SC.USER)


class HardTimeout(BaseException):
    pass


ESCAPED = object()
HELD = []          # (invocation index, exception object) - what a caller with hold = 'keep' has caught in the current case
SIGNALS_SEEN = []


def _alarm(signum, frame):
    raise HardTimeout()


def ticks():
    return struct.unpack('Q', SHM[0:8])[0]


def exc_class(path):
    path = tuple(path)
    return LOCAL_CLS[path] if path in LOCAL_CLS else excs.cls_of(path)


def path_of(cls):
    for p, c in LOCAL_CLS.items():
        if c is cls:
            return list(p)
    return excs.path_of(cls)


# ---- harness-side instrumentation of the two module globals ------------------------------------------------------------
_OrigProcess, _OrigPipe = M.Process, M.Pipe


class RecordingProcess(_OrigProcess):
    def start(self):
        super().start()
        idx = CUR.get()
        if idx is not None and idx in REG:
            REG[idx]['pids'].append(self.pid)
            if REG[idx]['kill'] == 'after_fork':
                os.kill(self.pid, signal.SIGKILL)
                REG[idx]['killed'] = True
                t0 = time.time()          # the parent goes on with a child that is certainly dead (not yet reaped)
                while child_state(self.pid) not in (None, 'Z') and time.time() - t0 < 5:
                    time.sleep(0.0005)


def recording_pipe(*a, **k):
    rx, tx = _OrigPipe(*a, **k)
    idx = CUR.get()
    if idx is not None and idx in REG:
        REG[idx]['conns'] += [weakref.ref(rx), weakref.ref(tx)]
    return rx, tx


M.Process = RecordingProcess
M.Pipe = recording_pipe


# ---- what runs in the child ---------------------------------------------------------------------------------------------
def wait_ticks(k):
    start = ticks()
    deadline = time.time() + TICK_DEADLINE
    while ticks() < start + k:
        if time.time() > deadline:
            return False
        time.sleep(0.002)
    return True


def start_mid_send_killer():
    """terminate this process once the parent has started to consume the (large) message"""
    fd = None
    f = sys._getframe()
    while f is not None:
        if f.f_code.co_name == '_inner' and 'tx' in f.f_locals:
            try:
                fd = f.f_locals['tx'].fileno()
            except Exception:
                fd = None
            break
        f = f.f_back

    def run():
        # Die while the main thread is blocked in the write of the message BODY: the pipe then holds the header (unless
        # the parent has already taken it) and a first part of the body, which stay readable after the death, so the
        # parent's recv() meets EOF in the MIDDLE of the message (OSError "got end of file during message"), not at a
        # message boundary (EOFError).  The message (4 MB) is far larger than the pipe, so a pipe that is at least half
        # full can only mean: body being written, writer blocked or about to block.
        if fd is None:
            time.sleep(0.05)
            os._exit(9)
        try:
            cap = fcntl.fcntl(fd, 1032)        # F_GETPIPE_SZ
        except OSError:
            cap = 65536
        buf = bytearray(4)
        t0 = time.time()
        while time.time() - t0 < 30:
            try:
                fcntl.ioctl(fd, termios.FIONREAD, buf)
            except OSError:
                break
            if struct.unpack('i', buf)[0] >= cap // 2:
                os._exit(9)
            time.sleep(0)                      # hand the GIL to the main thread between its header and body writes
        os._exit(9)
    threading.Thread(target=run, daemon=True).start()



# ---- callees that start processes of their own ---------------------------------------------------------------------------
def leaf_value(x):
    return (int(x) * 7919 + 13) % 1000003


def make_leaf(idx=None, glife=0, use_async=False):
    """what runs in the process that the callee starts; glife > 0: it lives for glife ms (announced and concluded in the
    shared page: 1 = started, 2 = has run to its own end)"""
    def leaf(x):
        if glife and idx is not None:
            SHM[G_OFF + idx] = 1
            time.sleep(glife / 1000.0)
            SHM[G_OFF + idx] = 2
        return {'pid': os.getpid(), 'val': leaf_value(x)}
    if not use_async:
        return leaf

    async def aleaf(x):
        await asyncio.sleep(0)
        return leaf(x)
    return aleaf


def nested_process(x, leaf):
    """a part of the work is done by a worker process of the callee's own (plain multiprocess, no pedantic)"""
    rx, tx = multiprocess.Pipe(duplex=False)

    def work():
        tx.send(leaf(x))
    p = multiprocess.Process(target=work)
    p.start()
    tx.close()
    try:
        if not rx.poll(NEST_DEADLINE):
            p.kill()
            raise TimeoutError('the worker process of the callee did not answer')
        return rx.recv()
    finally:
        p.join()
        rx.close()


async def nested_insub(x, via, depth, leaf):
    """a part of the work is done by a nested invocation of the implementation under test"""
    if depth > 1:
        async def mid(y):
            r = await nested_insub(y, via, depth - 1, leaf)
            return {'pid': os.getpid(), 'val': r['val'], 'below': r['pid']}
        mid.__name__ = 'mid_%d' % depth
        f = mid
    else:
        f = leaf
    if via == 'deco':
        return await M.in_subprocess(f)(x)
    return await M.calculate_in_subprocess(f, x)


def nested_sync(inv, x, idx=None):
    """the delegation as a synchronous function: its own event loop for the nested invocations"""
    glife = inv.get('glife', 0) if idx is not None else 0
    if inv['nest'] == 'process':
        return nested_process(x, make_leaf(idx, glife))
    loop = asyncio.new_event_loop()
    try:
        return loop.run_until_complete(nested_insub(x, inv['via'], 2 if inv['nest'] == 'insub2' else 1,
                                                    make_leaf(idx, glife, inv['async'])))
    finally:
        loop.close()


NEST_REF = {}


def nest_reference(inv):
    """does the delegation work when it is run directly (in this process, outside any in_subprocess invocation)?"""
    key = (inv['nest'], inv['via'], bool(inv['async']))
    if key not in NEST_REF:
        try:
            r = nested_sync(inv, 5)
            NEST_REF[key] = bool(isinstance(r, dict) and r.get('val') == leaf_value(5) and r.get('pid') not in (None, ME))
        except BaseException:
            NEST_REF[key] = False
    return NEST_REF[key]


def nested_good(inv, info):
    n = info.get('nested')
    return bool(isinstance(n, dict) and n.get('val') == leaf_value(inv['nonce'])
                and n.get('pid') not in (None, ME, info.get('pid'))
                and (inv['nest'] != 'insub2' or n.get('below') not in (None, ME, info.get('pid'), n.get('pid'))))


def make_callee(inv, idx):
    nest = inv.get('nest', 'none')

    def quiet():
        if inv['out'] != 'ok' or not inv['pick'] or inv['kill'] != 'none' or set(inv['kw']) & {'tx', 'fun', 'func'}:
            try:
                dn = os.open(os.devnull, os.O_WRONLY)
                os.dup2(dn, 2)
            except OSError:
                pass

    def body(token, kw, nested=None):
        quiet()
        SHM[64 + idx] = 1
        seen = None
        if inv['ticks']:
            seen = wait_ticks(3)
        if inv['dur']:
            time.sleep(inv['dur'] / 1000.0)
        if nest != 'none' and nested is None:
            nested = nested_sync(inv, inv['nonce'], idx)
        if inv['kill'] == 'in_callee' or inv.get('cancel') in ('in_callee', 'wait_for'):
            # a long computation: ends only by being killed (by the harness, or by an implementation that
            # terminates the child of a cancelled await); gives up by itself in the end
            # Meanwhile it watches the parent's ticker: a ticker that stands still means that the loop thread of the
            # parent is held (e.g. by a synchronous wait for THIS process to end) - reported, and the callee gives up.
            # Once one callee of this worker has established a stall, the others do not pay the full period again.
            last, t_last = ticks(), time.time()
            for _ in range(int(W_HARD * 100) + 500):
                time.sleep(0.01)
                n = ticks()
                if n != last:
                    last, t_last = n, time.time()
                elif time.time() - t_last > (STALL if SHM[16] == 0 else STALL_AGAIN):
                    SHM[64 + idx] = 3
                    SHM[16] = 1
                    os._exit(97)
            os._exit(99)
        pid = os.getpid()
        pad = b''
        if inv['big']:
            pad = b'x' * (PAD_MIDSEND if inv['kill'] == 'mid_send' else PAD_BIG)
        extra = None if inv['pick'] else SC.Unpicklable()
        if inv.get('unp') and inv['pick']:
            extra = SC.ExplodesOnLoad()       # dumps() in the child works, loads() in the parent raises
        if inv['kill'] == 'mid_send':
            sys.setswitchinterval(1e-4)
            start_mid_send_killer()
        if inv['out'] == 'die':
            if inv['die'] == 'os_exit':
                os._exit(3)
            os.kill(pid, signal.SIGKILL if inv['die'] == 'sigkill' else signal.SIGTERM)
            time.sleep(60)
            os._exit(98)
        info = {'token': token, 'kw': kw, 'pid': pid, 'ticks': seen, 'pad': pad, 'extra': extra}
        if nest != 'none':
            info['nested'] = nested
        if inv['out'] == 'raise':
            cls = exc_class(inv['exc'])
            raise cls(info)       # SystemExit(info): what sys.exit(info) raises
        if inv['reterr']:
            return M.SubprocessError(ex=SC.Inner({'token': token, 'pid': pid, 'pad': pad, 'extra': extra}))
        ret = inv.get('ret', 'plain')
        if ret == 'coroutine':
            return SC.coro_result(info)          # a coroutine object: what calling a coroutine function returns
        if ret in SC.RET_CLASSES:
            return SC.RET_CLASSES[ret](info)     # a picklable awaitable / generator-like object carrying the payload
        return info

    if inv['async']:
        async def callee(token, **kw):
            await asyncio.sleep(0)
            quiet()
            nested = None
            if nest in ('insub', 'insub2'):
                nested = await nested_insub(inv['nonce'], inv['via'], 2 if nest == 'insub2' else 1,
                                            make_leaf(idx, inv.get('glife', 0), True))
            return body(token, kw, nested)
    else:
        def callee(token, **kw):
            return body(token, kw)
    callee.__name__ = 'callee_%d' % idx
    return callee


# ---- what runs in the parent --------------------------------------------------------------------------------------------
def child_state(pid):
    """None if pid is not (any more) a child of this process, else its state letter"""
    try:
        with open('/proc/%d/stat' % pid) as fh:
            txt = fh.read()
    except OSError:
        return None
    rest = txt[txt.rindex(')') + 2:].split()
    return rest[0] if int(rest[1]) == ME else None


def count_fds():
    return len(os.listdir('/proc/self/fd'))


def scan_children():
    n = 0
    for d in os.listdir('/proc'):
        if d.isdigit() and child_state(int(d)) is not None:
            n += 1
    return n


def observe(idx):
    r = REG[idx]
    r['open_ends'] = len([1 for w in r['conns'] if w() is not None and not w().closed])
    r['unreaped'] = [child_state(p) for p in r['pids'] if child_state(p) is not None]
    r['g_state'] = SHM[G_OFF + idx]


async def kill_when_entered(idx):
    t0 = time.time()
    while time.time() - t0 < W_ASYNC:
        # (a callee with a long-lived process of its own is killed while that process lives)
        if (SHM[G_OFF + idx] >= 1 if REG[idx].get('glife') else SHM[64 + idx] == 1) and REG[idx]['pids']:
            try:
                os.kill(REG[idx]['pids'][0], signal.SIGKILL)
                REG[idx]['killed'] = True
            except OSError:
                pass
            return
        await asyncio.sleep(0.003)


def classify(inv, token, kind, obj):
    """canonical outcome: [code, path]; 1 own return value, 2 other return value, 3 own exception, 4 the exception inside
    the SubprocessError the callee returned, 5 other exception of class `path`, 6 ANOTHER invocation's exception,
    7 ANOTHER invocation's return value"""
    d = {'final': None, 'pid_differs': None, 'args_ok': None, 'ticks_seen': None, 'nested_ok': None}

    def own(info):
        d['pid_differs'] = info.get('pid') not in (None, ME)
        d['args_ok'] = info.get('kw') == inv['kw']
        d['ticks_seen'] = info.get('ticks')
        if inv.get('nest', 'none') != 'none' and NEST_REF.get((inv['nest'], inv['via'], bool(inv['async']))):
            d['nested_ok'] = nested_good(inv, info)

    if kind == 'ret':
        want = SC.RET_CLASSES.get(inv.get('ret', 'plain'))
        if want is not None:
            # the callee returned an instance of `want`: the awaiting task must get an instance of that very class
            if type(obj) is want and isinstance(getattr(obj, 'info', None), dict):
                obj = obj.info
            else:
                d['got_type'] = type(obj).__name__
                d['final'] = [7, []] if (isinstance(obj, dict) and 'token' in obj and obj['token'] != token) else [2, []]
                return d
        if isinstance(obj, dict) and 'token' in obj:
            if obj['token'] == token:
                own(obj)
                if inv['big'] and len(obj.get('pad', b'')) not in (PAD_BIG, PAD_MIDSEND):
                    d['final'] = [2, []]
                else:
                    d['final'] = [1, []]
            else:
                d['final'] = [7, []]
        else:
            d['final'] = [2, []]
        return d
    info = obj.args[0] if getattr(obj, 'args', None) and isinstance(obj.args[0], dict) else None
    if info is not None and 'token' in info:
        if info['token'] != token:
            d['final'] = [6, path_of(type(obj))]
        elif isinstance(obj, SC.Inner):
            d['pid_differs'] = info.get('pid') not in (None, ME)
            d['final'] = [4, []]
        elif inv['out'] == 'raise' and type(obj) is exc_class(inv['exc']):
            own(info)
            d['final'] = [3, []]
        else:
            d['final'] = [5, path_of(type(obj))]
    else:
        d['final'] = [5, path_of(type(obj))]
    return d


async def run_one(idx, inv):
    CUR.set(idx)
    REG[idx] = {'pids': [], 'conns': [], 'kill': inv['kill'], 'killed': inv['kill'] == 'mid_send', 'open_ends': None,
                'unreaped': None, 'glife': inv.get('glife', 0) if inv.get('nest', 'none') != 'none' else 0, 'g_state': None}
    token = [idx, inv['nonce']]
    callee = make_callee(inv, idx)
    killer = asyncio.ensure_future(kill_when_entered(idx)) if inv['kill'] == 'in_callee' else None
    wraps_ok = None

    async def wrapped():
        nonlocal wraps_ok
        try:
            if inv['via'] == 'deco':
                deco = M.in_subprocess(callee)
                wraps_ok = deco.__name__ == callee.__name__ and asyncio.iscoroutinefunction(deco)
                r = await deco(token, **inv['kw'])
            else:
                r = await M.calculate_in_subprocess(callee, token, **inv['kw'])
            observe(idx)           # same synchronous segment in which the outcome leaves the implementation
            return r
        except (asyncio.CancelledError, HardTimeout):
            observe(idx)
            raise
        except BaseException as ex:
            # The exception is turned into plain data right here, while it is in flight (the frames of the
            # implementation are still alive: that is when the pipe ends / the child are inspected), and its frames are
            # cleared by reference counting.  Nothing of it reaches the Task or the event loop: a KeyboardInterrupt /
            # SystemExit would stop this worker's loop, and CPython 3.12 can crash (bytesiobuf_releasebuffer on a cleared
            # BytesIO) when the CYCLE collector later frees the frames of a Connection.recv() whose unpickling raised.
            observe(idx)
            d = classify(inv, token, 'exc', ex)
            d['exc_name'] = type(ex).__name__
            if inv.get('hold', 'none') == 'keep':
                # the ordinary caller: keeps what it caught, untouched (traceback included), until the case is over
                HELD.append((idx, ex))
                return ESCAPED, d
            tb = ex.__traceback__
            ex.__traceback__ = None
            traceback.clear_frames(tb)
            del tb
            return ESCAPED, d

    out = {'hang': None}
    cancel = inv.get('cancel', 'none')
    canceller = None
    if cancel == 'wait_for':
        # asyncio.wait_for cancels the awaited coroutine when the timeout expires (the callee computes "forever")
        async def timed():
            return await asyncio.wait_for(wrapped(), timeout=0.15)
        task = asyncio.ensure_future(timed())
    else:
        task = asyncio.ensure_future(wrapped())
    if cancel == 'before_start':
        task.cancel()                       # the coroutine has not run a single step yet
    elif cancel == 'in_callee':
        async def when_entered():
            t0 = time.time()
            while time.time() - t0 < W_ASYNC and not task.done():
                if SHM[64 + idx] == 1:
                    task.cancel()
                    return
                await asyncio.sleep(0.003)
        canceller = asyncio.ensure_future(when_entered())
    elif cancel == 'after_sent':
        async def when_sent():
            # wait until the parent coroutine is suspended in its wait, then hold the loop thread (so that the wake-up
            # cannot be processed) until the child has written its result / has gone, and cancel: the task is cancelled
            # although its result is already there
            t0 = time.time()
            while time.time() - t0 < W_ASYNC and not task.done():
                conns = [w() for w in REG[idx]['conns']]
                if REG[idx]['pids'] and conns and conns[0] is not None and not conns[0].closed:
                    break
                await asyncio.sleep(0)
            if task.done():
                return
            buf = bytearray(4)
            fd, pid = conns[0].fileno(), REG[idx]['pids'][0]
            t1 = time.time()
            while time.time() - t1 < 10:
                fcntl.ioctl(fd, termios.FIONREAD, buf)
                if struct.unpack('i', buf)[0] > 0 or child_state(pid) in (None, 'Z'):
                    break
                time.sleep(0.001)
            task.cancel()
        canceller = asyncio.ensure_future(when_sent())
    try:
        done, pending = await asyncio.wait({task}, timeout=W_ASYNC)
    except HardTimeout:
        done, pending = set(), {task}
        out['hang'] = 'sync'
    if pending:
        out['hang'] = out['hang'] or 'async'
        task.cancel()
        try:
            await asyncio.wait({task}, timeout=2)
        except HardTimeout:
            pass
        out.update({'final': [0, []]})
    else:
        try:
            r = task.result()
            if isinstance(r, tuple) and len(r) == 2 and r[0] is ESCAPED:
                out.update(r[1])
            else:
                out.update(classify(inv, token, 'ret', r))
            r = None
        except HardTimeout:
            out['hang'] = 'sync'
            out['final'] = [0, []]
        except asyncio.CancelledError:
            if cancel != 'none':
                out['final'] = [5, [4]]          # CancelledError, as requested by the harness
                out['exc_name'] = 'CancelledError'
            else:
                out['hang'] = 'cancelled'
                out['final'] = [0, []]
        except asyncio.TimeoutError:
            if cancel == 'wait_for':
                out['final'] = [5, [4]]          # wait_for turned the inner CancelledError into TimeoutError
                out['exc_name'] = 'TimeoutError'
            else:
                out['final'] = [5, [0, 11]]
                out['exc_name'] = 'TimeoutError'
        except BaseException as ex:
            out.update(classify(inv, token, 'exc', ex))
            out['exc_name'] = type(ex).__name__
            ex = None
    if killer is not None:
        killer.cancel()
    if canceller is not None:
        canceller.cancel()
    task = None
    reg = REG[idx]
    out.update({'killed': bool(reg['killed']), 'open_ends': reg['open_ends'], 'unreaped': reg['unreaped'],
                'n_children': len(reg['pids']), 'wraps_ok': wraps_ok, 'done_at': ticks(),
                'stalled': SHM[64 + idx] == 3,
                # at the moment the outcome was handed over: had the process started by the callee run to its own end?
                'grandchild_ended': (reg['g_state'] == 2) if reg.get('glife') else None})
    if inv.get('nest', 'none') != 'none':
        out['nest_ref'] = NEST_REF.get((inv['nest'], inv['via'], bool(inv['async'])))
    return out


async def ticker():
    n = ticks()
    while True:
        n += 1
        SHM[0:8] = struct.pack('Q', n)
        await asyncio.sleep(0.002)


async def batch_main(invs):
    tk = asyncio.ensure_future(ticker())
    res = [None] * len(invs)
    try:
        # invocations of one round concurrently, the rounds one after the other (same loop, same process)
        for rnd in sorted(set(inv.get('round', 0) for inv in invs)):
            idxs = [i for i, inv in enumerate(invs) if inv.get('round', 0) == rnd]
            got = await asyncio.gather(*[run_one(i, invs[i]) for i in idxs], return_exceptions=True)
            for i, r in zip(idxs, got):
                res[i] = r
            if any(isinstance(r, HardTimeout) or (isinstance(r, dict) and r.get('hang')) for r in got):
                break                # a hang has been established: do not pay the watchdog once per round
    finally:
        tk.cancel()
    out = []
    for r in res:
        if r is None:
            out.append({'hang': None, 'final': [0, []], 'not_run': True})
        elif isinstance(r, BaseException):
            out.append({'hang': 'sync' if isinstance(r, HardTimeout) else None, 'final': [0, []], 'error': repr(r)})
        else:
            out.append(r)
    # the exception objects the callers have kept: is one of them the very object another invocation was handed?
    by_id = {}
    for idx, ex in HELD:
        by_id.setdefault(id(ex), []).append(idx)
    for idxs in by_id.values():
        for i in idxs:
            if len(idxs) > 1 and isinstance(out[i], dict):
                out[i]['shared_exc_with'] = [j for j in idxs if j != i]
    return out


def run_batch(case):
    invs = case['invs']
    REG.clear()
    HELD.clear()
    for i in range(len(invs)):
        SHM[64 + i] = 0
        SHM[G_OFF + i] = 0
    for inv in invs:
        inv.setdefault('nest', 'none')
        inv.setdefault('sig', 'none')
    signal.setitimer(signal.ITIMER_REAL, W_HARD, 5.0)
    try:
        for inv in invs:
            if inv['nest'] != 'none':
                nest_reference(inv)
    except HardTimeout:
        pass
    finally:
        signal.setitimer(signal.ITIMER_REAL, 0)
    gc.collect()
    fd0 = count_fds()
    # the application's own signal dispositions (process-wide, inherited by every forked child)
    sigs = set(inv['sig'] for inv in invs) - {'none'}
    saved = {}
    if sigs:
        disp = (lambda signum, frame: SIGNALS_SEEN.append(signum)) if 'handler' in sigs else signal.SIG_IGN
        for sg in (signal.SIGTERM, signal.SIGINT):
            saved[sg] = signal.signal(sg, disp)
    signal.setitimer(signal.ITIMER_REAL, W_HARD, 5.0)
    try:
        try:
            res = asyncio.run(batch_main(invs))
            loop_broken = False
        except HardTimeout:
            res = [{'hang': 'sync', 'final': [0, []]} for _ in invs]
            loop_broken = True
    finally:
        signal.setitimer(signal.ITIMER_REAL, 0)
        for sg, h in saved.items():
            signal.signal(sg, h)
    fd_held = None
    if HELD:
        gc.collect()
        fd_held = count_fds() - fd0      # while the callers still reference what they caught (reported, not judged)
        HELD.clear()                     # ... and now they have dealt with it
    gc.collect()
    fd1 = count_fds()
    left = scan_children()
    active = len(multiprocess.active_children())
    # leftovers of a failing run must not leak into the next case; reaping is left to multiprocess' own bookkeeping
    # (a child reaped behind its back stays in active_children() for ever)
    left_pids = [p for r in list(REG.values()) for p in r['pids'] if child_state(p) is not None]
    for p in left_pids:
        try:
            os.kill(p, signal.SIGKILL)
        except OSError:
            pass
    t0 = time.time()
    while left_pids and time.time() - t0 < 5:
        multiprocess.active_children()
        left_pids = [p for p in left_pids if child_state(p) is not None]
        if left_pids:
            time.sleep(0.002)
    for p in left_pids:
        try:
            os.waitpid(p, 0)
        except OSError:
            pass
    order = sorted(range(len(res)), key=lambda i: res[i].get('done_at', 0))
    return {'invs': res, 'fd_delta': fd1 - fd0, 'fd_delta_while_held': fd_held, 'children_left': left, 'active_children': active,
            'loop_broken': loop_broken, 'reordered': order != sorted(order)}


def main():
    gc.disable()       # collected explicitly at batch boundaries only (see run_one)
    signal.signal(signal.SIGALRM, _alarm)
    cases = json.load(sys.stdin)
    after_hang = False
    for c in cases:
        if after_hang:
            print(json.dumps({'skipped': 'after-hang'}), flush=True)
            continue
        try:
            r = run_batch(c)
            if any(i.get('hang') or i.get('ticks_seen') is False or i.get('stalled') for i in r['invs']):
                after_hang = True      # a hang / a blocked loop has been established; do not pay the watchdog again
        except BaseException as ex:   # harness-level failure
            r = {'error': repr(ex)}
        print(json.dumps(r), flush=True)


if __name__ == '__main__':
    main()
