(* Executable model of pedantic/decorators/cls_deco_frozen_dataclass.py (C10, C11).

   Three layers, kept apart on purpose:

   (1) the *decorator program* `prog`: what `frozen_dataclass.decorator` does, as data.  It is
       regenerated from the current source by translator/t_dataclass.py into Gen/Dataclass.v on
       every run (args dict handed to dataclass(), the `if type_safe:` block, the bodies of
       copy_with / deep_copy_with / validate_types, the methods attached).  This file gives every
       member of that family its meaning.
   (2) a small, explicit model of the standard library pieces the decorator relies on, written
       from the documentation / source of CPython 3.12 `dataclasses` and `copy` and TRUSTED
       (validated by the correspondence check only): field collection along the MRO, the generated
       __init__ (keyword binding, defaults, default_factory, __post_init__ hook decided at
       decoration time), dataclasses.replace, frozen __setattr__/__delattr__, __eq__/__hash__/
       ordering, copy.deepcopy.
   (3) the heap: a value is an immutable atom or a reference to a heap object (list, dict,
       instance ...) whose contents are again values; instances of the dataclasses under test
       are heap objects too, so "a new instance", "shares the field object", "shares no mutable
       object" are statements about references.

   A user-written __post_init__ is a journal entry followed by a list of statements - object.__setattr__(self, n, v)
   on the object under construction and super().__post_init__() - and a final return / raise.

   The type checker is NOT modelled here: `check : bool -> heap -> ann -> value -> outcome unit`
   (assert_value_matches_type: returns or raises) is a Section variable and annotations are opaque
   tokens (C01/C02 are about the checker; Model/DataclassEval.v plugs in Model/Checker.v).  The
   boolean is the one thing about the `context` argument that depends on the call path: whether the
   frame picked by get_context(...) is the caller's (so that names local to the caller resolve).
   No proofs in this file. *)
From Coq Require Import List ZArith Bool Arith.
From PV Require Import Base.Exn.
Import ListNotations.

Definition name := nat.       (* attribute / field names are tokens *)
Definition ann := nat.        (* annotations are opaque tokens *)

Inductive value := VAtom (a : Z) | VRef (r : nat).

Inductive okind :=
| KList | KDict
| KOther (tag : nat)          (* any other copyable container: set, deque, tuple holding mutable objects ... *)
| KUser (c : nat)             (* instance of a plain user class *)
| KSelfCopy (c : nat)         (* instance of a user class whose __deepcopy__ returns self *)
| KData (c : nat).            (* instance of the (frozen data)class with identifier c *)

Record obj := mkObj { o_kind : okind; o_items : list value; o_attrs : list (name * value) }.
Definition heap := list obj.

Definition FrozenInstanceErrorC : exn := [0; 4; 0].    (* subclass of AttributeError *)

(* ---------------------------------------------------------------- the decorator program *)
Inductive dparam := PTypeSafe | POrder | PKwOnly | PSlots.
Inductive argsrc := ALit (b : bool) | AParam (p : dparam) | AAbsent.
Record dc_args := mkArgs { a_frozen : argsrc; a_order : argsrc; a_kw_only : argsrc; a_slots : argsrc }.
Inductive pi_step := SCallOld | SGetContext | SValidate.
Record ts_block := mkTs { ts_steps : list pi_step; ts_install_before : bool }.
Inductive copy_impl := CopyReplace.                       (* return replace(self, **kwargs) *)
Inductive ctor_kind := CtorTypeSelf | CtorNewClass.
Inductive merge_kind := MergeKwLast | MergeKwFirst | MergeNoKw.
Record deep_impl := mkDeep { d_deepcopy : bool; d_filter_init : bool; d_ctor : ctor_kind; d_merge : merge_kind }.
Inductive fsrc := FieldsNewClass | FieldsSelf.
Inductive fpred := FPInit | FPHasDefault | FPCompare.
Record val_impl := mkVal { v_fields : fsrc; v_lo : option Z; v_hi : option Z; v_guard : option (fpred * bool) }.
Inductive meth := MCopyWith | MDeepCopyWith | MValidateTypes.
Record prog := mkProg {
  p_defaults : list (dparam * bool);     (* defaults of frozen_dataclass's own parameters *)
  p_shortcut : list (dparam * bool);     (* what frozen_type_safe_dataclass passes *)
  p_args : dc_args;                      (* dataclass( **args ) *)
  p_ts : option ts_block;                (* the `if type_safe:` block *)
  p_copy : copy_impl;
  p_deep : deep_impl;
  p_validate : val_impl;
  p_methods : list meth }.

Definition dparam_eqb (a b : dparam) : bool :=
  match a, b with PTypeSafe, PTypeSafe | POrder, POrder | PKwOnly, PKwOnly | PSlots, PSlots => true | _, _ => false end.
Definition meth_eqb (a b : meth) : bool :=
  match a, b with MCopyWith, MCopyWith | MDeepCopyWith, MDeepCopyWith | MValidateTypes, MValidateTypes => true | _, _ => false end.

(* ---------------------------------------------------------------- class definitions *)
Inductive dflt := DNone | DVal (v : value) | DFactory (k : okind).   (* default_factory yields a fresh empty object *)
Record field := mkField { f_name : name; f_ann : ann; f_default : dflt; f_init : bool; f_compare : bool }.
(* a user-written __post_init__: journals, then runs its statements in order -
     object.__setattr__(self, n, v)      (the way a frozen dataclass fills / normalises a field) and
     super().__post_init__()
   - and finally returns or raises *)
Inductive pistmt := PSet (n : name) (v : value) | PSuper.
Record pib := mkPib { pb_body : list pistmt; pb_raise : option exn }.
Definition PIRet : pib := mkPib [] None.
Definition PIRaise (e : exn) : pib := mkPib [] (Some e).
Record decoargs := mkDeco { da_shortcut : bool; da_given : list (dparam * bool) }.
Record layer := mkLayer {
  l_id : nat;                       (* class identity *)
  l_deco : option decoargs;         (* None: not decorated (plain subclass) *)
  l_fields : list field;            (* annotations of the class body (used only when decorated) *)
  l_pi : option pib }.              (* __post_init__ defined in this class body *)
(* a class is its MRO without `object`: head = the class itself, tail = its ancestors *)
Definition chain := list layer.

Inductive event := EPi (c : nat) | ECheck (a : ann) (v : value).
(* how the generated __init__ was reached *)
Inductive via := VCtor | VCopy | VDeep.
Record state := mkSt { s_heap : heap; s_journal : list event }.

Definition M (A : Type) := state -> state * outcome A.
Definition ret {A} (a : A) : M A := fun s => (s, Ok a).
Definition raise {A} (e : exn) : M A := fun s => (s, Raise e).
Definition bindM {A B} (m : M A) (f : A -> M B) : M B :=
  fun s => match m s with (s', Ok a) => f a s' | (s', Raise e) => (s', Raise e) end.
Definition emit (e : event) : M unit := fun s => (mkSt (s_heap s) (s_journal s ++ [e]), Ok tt).
Definition alloc (o : obj) : M nat := fun s => (mkSt (s_heap s ++ [o]) (s_journal s), Ok (List.length (s_heap s))).
Definition get_heap : M heap := fun s => (s, Ok (s_heap s)).
Definition set_heap (h : heap) : M unit := fun s => (mkSt h (s_journal s), Ok tt).

Fixpoint assoc {A B} (eqb : A -> A -> bool) (l : list (A * B)) (k : A) : option B :=
  match l with [] => None | (k', v) :: r => if eqb k' k then Some v else assoc eqb r k end.
Definition lookup {B} (l : list (name * B)) (k : name) : option B := assoc Nat.eqb l k.
Definition mem (k : name) (l : list name) : bool := existsb (Nat.eqb k) l.
Definition is_some {A} (o : option A) : bool := match o with Some _ => true | None => false end.

(* dict semantics on association lists: assignment keeps the position of an existing key *)
Fixpoint dict_set (d : list (name * value)) (k : name) (v : value) : list (name * value) :=
  match d with [] => [(k, v)] | (k', v') :: r => if Nat.eqb k' k then (k, v) :: r else (k', v') :: dict_set r k v end.
Definition dict_merge (a b : list (name * value)) : list (name * value) :=
  fold_left (fun d kv => dict_set d (fst kv) (snd kv)) b a.
Fixpoint dict_del (d : list (name * value)) (k : name) : list (name * value) :=
  match d with [] => [] | (k', v') :: r => if Nat.eqb k' k then r else (k', v') :: dict_del r k end.

Fixpoint heap_upd (h : heap) (r : nat) (g : obj -> obj) : heap :=
  match h, r with
  | [], _ => []
  | o :: t, O => g o :: t
  | o :: t, S r' => o :: heap_upd t r' g
  end.

Definition getattr (h : heap) (r : nat) (n : name) : option value :=
  match nth_error h r with Some o => lookup (o_attrs o) n | None => None end.
Definition class_of (h : heap) (r : nat) : option nat :=
  match nth_error h r with Some (mkObj (KData c) _ _) => Some c | _ => None end.

(* ---------------------------------------------------------------- copy.deepcopy
   One call of deepcopy(v) with its own memo: every copyable object gets exactly one fresh
   counterpart, sharing and cycles inside the call are preserved, atoms are returned as they are,
   objects whose __deepcopy__ returns self are shared.  Modelled as a relocation of the whole
   heap (counterparts of objects not reachable from v are garbage and unobservable). *)
Definition selfcopy (h : heap) (r : nat) : bool :=
  match nth_error h r with Some (mkObj (KSelfCopy _) _ _) => true | _ => false end.
Definition shift_v (h : heap) (off : nat) (v : value) : value :=
  match v with VAtom _ => v | VRef r => if selfcopy h r then v else VRef (r + off) end.
Definition shift_o (h : heap) (off : nat) (o : obj) : obj :=
  mkObj (o_kind o) (map (shift_v h off) (o_items o)) (map (fun nv => (fst nv, shift_v h off (snd nv))) (o_attrs o)).
Definition deepcopy (h : heap) (v : value) : heap * value :=
  (h ++ map (shift_o h (List.length h)) h, shift_v h (List.length h) v).
Definition deepcopyM (v : value) : M value :=
  fun s => let (h', v') := deepcopy (s_heap s) v in (mkSt h' (s_journal s), Ok v').

(* Python slice of a list with optional (possibly negative) bounds, step 1 *)
Definition clampZ (n i : Z) : Z := if (i <? 0)%Z then Z.max 0 (n + i) else Z.min n i.
Definition py_slice {A} (lo hi : option Z) (l : list A) : list A :=
  let n := Z.of_nat (List.length l) in
  let a := match lo with Some i => clampZ n i | None => 0%Z end in
  let b := match hi with Some i => clampZ n i | None => n end in
  firstn (Z.to_nat (b - a)) (skipn (Z.to_nat a) l).

Definition is_dnone (d : dflt) : bool := match d with DNone => true | _ => false end.

Section Sem.
  Variable P : prog.
  (* assert_value_matches_type(value, field.type, context): `Ok tt` or the exception it raises.
     First argument: the context contains the caller's frame. *)
  Variable check : bool -> heap -> ann -> value -> outcome unit.

  Definition decorated (L : layer) : bool := is_some (l_deco L).
  Definition param_of (L : layer) (p : dparam) : bool :=
    match l_deco L with
    | None => false
    | Some d =>
      let given := if da_shortcut d then p_shortcut P else da_given d in
      match assoc dparam_eqb given p with
      | Some b => b
      | None => match assoc dparam_eqb (p_defaults P) p with Some b => b | None => false end
      end
    end.
  (* value of a key of the args dict; an absent key means the default of dataclasses.dataclass (False) *)
  Definition eval_arg (L : layer) (a : argsrc) : bool :=
    match a with ALit b => b | AParam p => param_of L p | AAbsent => false end.
  Definition eff_frozen L := eval_arg L (a_frozen (p_args P)).
  Definition eff_order L := eval_arg L (a_order (p_args P)).
  Definition eff_kw_only L := eval_arg L (a_kw_only (p_args P)).
  Definition eff_slots L := eval_arg L (a_slots (p_args P)).
  Definition has_meth (m : meth) : bool := existsb (meth_eqb m) (p_methods P).
  Definition ts_installed (L : layer) : bool := decorated L && param_of L PTypeSafe && is_some (p_ts P).
  Definition install_before : bool := match p_ts P with Some ts => ts_install_before ts | None => false end.

  (* dataclasses: fields of the bases in MRO order, a redefined field keeps its position *)
  Fixpoint upsert (fs : list field) (f : field) : list field :=
    match fs with
    | [] => [f]
    | g :: r => if Nat.eqb (f_name g) (f_name f) then f :: r else g :: upsert r f
    end.
  Definition merge_fields (base own : list field) : list field := fold_left upsert own base.
  Fixpoint dc_fields (C : chain) : list field :=
    match C with
    | [] => []
    | L :: rest => if decorated L then merge_fields (dc_fields rest) (l_fields L) else dc_fields rest
    end.
  (* the class whose generated methods (__init__, __eq__, copy_with ...) an instance of C uses *)
  Fixpoint nearest_deco (C : chain) : option chain :=
    match C with
    | [] => None
    | L :: rest => if decorated L then Some (L :: rest) else nearest_deco rest
    end.
  Definition class_id (C : chain) : nat := match C with [] => O | L :: _ => l_id L end.
  Definition field_names (C : chain) : list name := map f_name (dc_fields C).

  Definition getattrM (r : nat) (n : name) : M value :=
    fun s => match getattr (s_heap s) r n with Some v => (s, Ok v) | None => (s, Raise AttributeErrorC) end.

  (* ------------------------------------------------------------ generated __init__ *)
  Definition from_default (f : field) : M (option value) :=
    match f_default f with
    | DVal v => ret (Some v)
    | DFactory k => bindM (alloc (mkObj k [] [])) (fun r => ret (Some (VRef r)))
    | DNone => if f_init f then raise TypeErrorC else ret None
    end.
  Definition field_value (f : field) (kw : list (name * value)) : M (option value) :=
    if f_init f then match lookup kw (f_name f) with Some v => ret (Some v) | None => from_default f end
    else from_default f.
  Fixpoint build_attrs (fs : list field) (kw : list (name * value)) : M (list (name * value)) :=
    match fs with
    | [] => ret []
    | f :: r =>
      bindM (field_value f kw) (fun ov =>
      bindM (build_attrs r kw) (fun rest =>
      ret (match ov with Some v => (f_name f, v) :: rest | None => rest end)))
    end.
  Definition kw_unexpected (fs : list field) (kw : list (name * value)) : bool :=
    existsb (fun nv => negb (existsb (fun f => Nat.eqb (f_name f) (fst nv) && f_init f) fs)) kw.
  Definition kw_missing (fs : list field) (kw : list (name * value)) : bool :=
    existsb (fun f => f_init f && is_dnone (f_default f) && negb (mem (f_name f) (map fst kw))) fs.
  (* the object as it exists when __post_init__ is about to run *)
  Definition candidate (C : chain) (kw : list (name * value)) : M nat :=
    match nearest_deco C with
    | None => raise TypeErrorC
    | Some D =>
      let fs := dc_fields D in
      if kw_unexpected fs kw then raise TypeErrorC
      else if kw_missing fs kw then raise TypeErrorC
      else bindM (build_attrs fs kw) (fun attrs => alloc (mkObj (KData (class_id C)) [] attrs))
    end.

  (* ------------------------------------------------------------ validate_types *)
  Definition fpred_eval (p : fpred) (f : field) : bool :=
    match p with FPInit => f_init f | FPHasDefault => negb (is_dnone (f_default f)) | FPCompare => f_compare f end.
  Definition sel_fields (fs : list field) : list field :=
    let s := py_slice (v_lo (p_validate P)) (v_hi (p_validate P)) fs in
    match v_guard (p_validate P) with
    | None => s
    | Some (p, pol) => filter (fun f => Bool.eqb (fpred_eval p f) pol) s
    end.
  Definition checked_getattrM (r : nat) (n : name) : M value :=
    fun s => match getattr (s_heap s) r n with Some v => (s, Ok v) | None => (s, Raise PTypeCheckC) end.
  Fixpoint check_loop (vis : bool) (fs : list field) (r : nat) : M unit :=
    match fs with
    | [] => ret tt
    | f :: rest =>
      (* `if not hasattr(self, field.name): raise PedanticTypeCheckException(...)`: a field without value *)
      bindM (checked_getattrM r (f_name f)) (fun v =>
      bindM (emit (ECheck (f_ann f) v)) (fun _ =>
      bindM get_heap (fun h =>
      match check vis h (f_ann f) v with Ok _ => check_loop vis rest r | Raise e => raise e end)))
    end.
  (* self.validate_types(): attribute lookup on type(self) = C finds the method of the nearest
     decorated class; its `fields(new_class)` are that class's fields *)
  Definition validate_types (vis : bool) (C : chain) (r : nat) : M unit :=
    if has_meth MValidateTypes then
      match nearest_deco C with
      | None => raise AttributeErrorC
      | Some D => check_loop vis (sel_fields (dc_fields D)) r
      end
    else raise AttributeErrorC.

  (* ------------------------------------------------------------ object.__setattr__ (bypasses the frozen __setattr__) *)
  Definition has_dict (C : chain) : bool := existsb (fun L => negb (decorated L && eff_slots L)) C.
  Definition set_attr_raw (r : nat) (n : name) (v : value) : M unit :=
    fun s => (mkSt (heap_upd (s_heap s) r (fun o => mkObj (o_kind o) (o_items o) (dict_set (o_attrs o) n v))) (s_journal s), Ok tt).
  Definition del_attr_raw (r : nat) (n : name) : M unit :=
    fun s => (mkSt (heap_upd (s_heap s) r (fun o => mkObj (o_kind o) (o_items o) (dict_del (o_attrs o) n))) (s_journal s), Ok tt).
  (* object.__setattr__(self, n, v) on an instance of C: a field (slot or __dict__ entry) or, when the instance
     has a __dict__, any name; otherwise AttributeError *)
  Definition obj_setattr (C : chain) (r : nat) (n : name) (v : value) : M unit :=
    if has_dict C || mem n (field_names C) then set_attr_raw r n v else raise AttributeErrorC.

  (* ------------------------------------------------------------ the __post_init__ attribute *)
  Inductive pifun :=
  | PFNone                          (* no such attribute *)
  | PFNoop                          (* the `lambda _: None` default of getattr *)
  | PFUser (c : nat) (b : pib) (slots : bool) (sup : pifun)
      (* written by the user in class c; `sup`: what super().__post_init__ resolves to (the attribute of the rest of
         the MRO); `slots`: class c was decorated with slots=True - dataclass() then built a NEW class and the
         __class__ cell of the function still holds the old one, so that the zero-argument super() raises TypeError
         (CPython 3.12) *)
  | PFNew (old : pifun).            (* new_post_init closing over old_post_init *)
  Fixpoint resolve_pi (C : chain) : pifun :=
    match C with
    | [] => PFNone
    | L :: rest =>
      let below := match l_pi L with
                   | Some b => PFUser (l_id L) b (decorated L && eff_slots L) (resolve_pi rest)
                   | None => resolve_pi rest
                   end in
      if ts_installed L then PFNew (match below with PFNone => PFNoop | x => x end) else below
    end.
  Definition has_pi (C : chain) : bool := match resolve_pi C with PFNone => false | _ => true end.
  (* dataclass() decides at decoration time whether the generated __init__ calls __post_init__ *)
  Definition init_calls_pi (D : chain) : bool :=
    match D with
    | [] => false
    | L :: rest => is_some (l_pi L) || has_pi rest || (ts_installed L && install_before)
    end.
  (* `context = get_context(depth=3, increase_depth_if_name_matches=[copy_with, deep_copy_with])` inside a
     new_post_init that has `outer` other frames (new_post_init wrappers, user __post_init__ bodies that got here
     through super()) between itself and the generated __init__.
     Frames: 0 get_context, 1 this new_post_init, 2 .. the outer ones .., then __init__, then
     the caller (constructor call) | dataclasses.replace, copy_with, caller | deep_copy_with, caller.
     Frame 3 is the caller's only for outer = 0 on the constructor path; on the deep_copy_with path its
     name matches and one more frame is skipped; on the copy_with path it is `replace`. *)
  Definition caller_visible (v : via) (outer : nat) : bool :=
    match outer, v with O, VCtor | O, VDeep => true | _, _ => false end.
  (* the local variable `context` of new_post_init: None = not assigned yet *)
  Fixpoint run_steps (old : M unit) (validate : bool -> M unit) (vis : bool) (ctxv : option bool)
           (steps : list pi_step) : M unit :=
    match steps with
    | [] => ret tt
    | SCallOld :: r => bindM old (fun _ => run_steps old validate vis ctxv r)
    | SGetContext :: r => run_steps old validate vis (Some vis) r
    | SValidate :: r =>
      match ctxv with
      | None => raise NameErrorC                      (* UnboundLocalError *)
      | Some b => bindM (validate b) (fun _ => run_steps old validate vis ctxv r)
      end
    end.
  (* the statements of a user body, in order; `sup` = the call super().__post_init__() *)
  Fixpoint run_body (setter : name -> value -> M unit) (sup : M unit) (slots : bool) (body : list pistmt) : M unit :=
    match body with
    | [] => ret tt
    | PSet n v :: rest => bindM (setter n v) (fun _ => run_body setter sup slots rest)
    | PSuper :: rest => bindM (if slots then raise TypeErrorC else sup) (fun _ => run_body setter sup slots rest)
    end.
  Definition end_of (b : pib) : M unit := match pb_raise b with Some e => raise e | None => ret tt end.
  Fixpoint run_pi (f : pifun) (v : via) (outer : nat) (validate : bool -> M unit) (setter : name -> value -> M unit) : M unit :=
    match f with
    | PFNone => raise AttributeErrorC
    | PFNoop => ret tt
    | PFUser c b slots sup =>
      bindM (emit (EPi c)) (fun _ =>
      bindM (run_body setter (run_pi sup v (S outer) validate setter) slots (pb_body b)) (fun _ => end_of b))
    | PFNew old =>
      match p_ts P with
      | Some ts => run_steps (run_pi old v (S outer) validate setter) validate (caller_visible v outer) None (ts_steps ts)
      | None => ret tt
      end
    end.

  Definition construct (v : via) (C : chain) (kw : list (name * value)) : M nat :=
    bindM (candidate C kw) (fun r =>
      match nearest_deco C with
      | Some D =>
        if init_calls_pi D
        then bindM (run_pi (resolve_pi C) v 0 (fun vis => validate_types vis C r) (obj_setattr C r)) (fun _ => ret r)
        else ret r
      | None => ret r
      end).

  (* ------------------------------------------------------------ dataclasses.replace *)
  Fixpoint replace_changes (fs : list field) (r : nat) (kw changes : list (name * value)) : M (list (name * value)) :=
    match fs with
    | [] => ret changes
    | f :: rest =>
      if negb (f_init f) then
        if mem (f_name f) (map fst kw) then raise ValueErrorC else replace_changes rest r kw changes
      else
        match lookup changes (f_name f) with
        | Some _ => replace_changes rest r kw changes
        | None => bindM (getattrM r (f_name f)) (fun v => replace_changes rest r kw (changes ++ [(f_name f, v)]))
        end
    end.
  Definition copy_with (C : chain) (r : nat) (kw : list (name * value)) : M nat :=
    if has_meth MCopyWith then
      match nearest_deco C with
      | None => raise TypeErrorC
      | Some D => bindM (replace_changes (dc_fields D) r kw kw) (fun ch => construct VCopy C ch)
      end
    else raise AttributeErrorC.

  (* ------------------------------------------------------------ deep_copy_with *)
  Fixpoint current_values (fs : list field) (r : nat) : M (list (name * value)) :=
    match fs with
    | [] => ret []
    | f :: rest =>
      bindM (getattrM r (f_name f)) (fun v =>
      bindM (if d_deepcopy (p_deep P) then deepcopyM v else ret v) (fun v' =>
      bindM (current_values rest r) (fun tl => ret ((f_name f, v') :: tl))))
    end.
  Definition deep_args (C : chain) (r : nat) (kw : list (name * value)) : M (list (name * value)) :=
    match nearest_deco C with
    | None => raise TypeErrorC
    | Some D =>
      let fs := dc_fields D in
      let sel := if d_filter_init (p_deep P) then filter f_init fs else fs in
      bindM (current_values sel r) (fun cur =>
      ret (match d_merge (p_deep P) with
           | MergeKwLast => dict_merge cur kw
           | MergeKwFirst => dict_merge kw cur
           | MergeNoKw => cur
           end))
    end.
  Definition deep_ctor (C : chain) : chain :=
    match d_ctor (p_deep P) with
    | CtorTypeSelf => C
    | CtorNewClass => match nearest_deco C with Some D => D | None => C end
    end.
  Definition deep_copy_with (C : chain) (r : nat) (kw : list (name * value)) : M nat :=
    if has_meth MDeepCopyWith then bindM (deep_args C r kw) (fun args => construct VDeep (deep_ctor C) args)
    else raise AttributeErrorC.

  (* ------------------------------------------------------------ the three construction paths *)
  Inductive path :=
  | ByCtor (kw : list (name * value))
  | ByCopy (r0 : nat) (kw : list (name * value))
  | ByDeep (r0 : nat) (kw : list (name * value)).
  Definition run_path (C : chain) (p : path) : M nat :=
    match p with
    | ByCtor kw => construct VCtor C kw
    | ByCopy r0 kw => copy_with C r0 kw
    | ByDeep r0 kw => deep_copy_with C r0 kw
    end.
  (* the keyword arguments with which the path reaches the constructor *)
  Definition path_args (C : chain) (p : path) : M (list (name * value)) :=
    match p with
    | ByCtor kw => ret kw
    | ByCopy r0 kw => replace_changes (dc_fields C) r0 kw kw
    | ByDeep r0 kw => deep_args C r0 kw
    end.
  Definition path_candidate (C : chain) (p : path) : M nat := bindM (path_args C p) (candidate C).
  Definition path_kw (p : path) : list (name * value) :=
    match p with ByCtor kw | ByCopy _ kw | ByDeep _ kw => kw end.
  Definition path_via (p : path) : via :=
    match p with ByCtor _ => VCtor | ByCopy _ _ => VCopy | ByDeep _ _ => VDeep end.

  (* the user-written __post_init__ that runs first for instances of C (others run only if it calls super) *)
  Fixpoint user_of (f : pifun) : option (nat * pib) :=
    match f with PFUser c b _ _ => Some (c, b) | PFNew old => user_of old | _ => None end.
  Definition is_new (f : pifun) : bool := match f with PFNew _ => true | _ => false end.
  (* instances of C are validated: the generated __init__ calls __post_init__ and that attribute
     resolves to a new_post_init *)
  Definition validating (C : chain) : bool :=
    match nearest_deco C with
    | Some D => init_calls_pi D && is_new (resolve_pi C)
    | None => false
    end.
  (* the last thing the attribute does before it returns normally is a validation: it is a new_post_init, or a user
     body that cannot raise afterwards and whose last statement is a super().__post_init__() that reaches one *)
  Fixpoint last_is_super (body : list pistmt) : bool :=
    match body with
    | [] => false
    | s :: rest => match rest with
                   | [] => match s with PSuper => true | PSet _ _ => false end
                   | _ :: _ => last_is_super rest
                   end
    end.
  Fixpoint ends_checked (f : pifun) : bool :=
    match f with
    | PFNew _ => true
    | PFUser _ b slots sup => negb slots && negb (is_some (pb_raise b)) && last_is_super (pb_body b) && ends_checked sup
    | _ => false
    end.
  Definition checked_last (C : chain) : bool :=
    match nearest_deco C with
    | Some D => init_calls_pi D && ends_checked (resolve_pi C)
    | None => false
    end.
  (* every field gets a value in __init__ (init=False fields have a default) *)
  Definition chain_ok (C : chain) : bool :=
    forallb (fun f => f_init f || negb (is_dnone (f_default f))) (dc_fields C).

  (* ------------------------------------------------------------ frozen __setattr__ / __delattr__ *)
  Inductive sa_res := SAFrozen | SATypeError | SAObject.
  (* generated code of a frozen dataclass cls:
       if type(self) is cls or name in <fields of cls>: raise FrozenInstanceError
       super(cls, self).__setattr__(name, value)
     With slots=True the closure cell `cls` still holds the class that dataclass() replaced
     (CPython 3.12), so `type(self) is cls` is false and the super() call raises TypeError. *)
  Fixpoint setattr_chain (top : bool) (C : chain) (n : name) : sa_res :=
    match C with
    | [] => SAObject
    | L :: rest =>
      if decorated L && eff_frozen L then
        if (top && negb (eff_slots L)) || mem n (field_names (L :: rest)) then SAFrozen
        else if eff_slots L then SATypeError
        else setattr_chain false rest n
      else setattr_chain false rest n
    end.
  Definition setattr (C : chain) (r : nat) (n : name) (v : value) : M unit :=
    match setattr_chain true C n with
    | SAFrozen => raise FrozenInstanceErrorC
    | SATypeError => raise TypeErrorC
    | SAObject => if has_dict C || mem n (field_names C) then set_attr_raw r n v else raise AttributeErrorC
    end.
  Definition delattr (C : chain) (r : nat) (n : name) : M unit :=
    match setattr_chain true C n with
    | SAFrozen => raise FrozenInstanceErrorC
    | SATypeError => raise TypeErrorC
    | SAObject => fun s => match getattr (s_heap s) r n with
                           | Some _ => del_attr_raw r n s
                           | None => (s, Raise AttributeErrorC)
                           end
    end.

  (* ------------------------------------------------------------ __eq__ / __hash__ / ordering
     Parametric in what Python does with two tuples (R, tuple_cmp, tuple_hash are arbitrary). *)
  Inductive cmpop := OpEq | OpLt | OpLe | OpGt | OpGe.
  Section Cmp.
    Variable R : Type.
    Variable tuple_cmp : cmpop -> heap -> list value -> list value -> outcome R.
    Variable tuple_hash : heap -> list value -> outcome R.

    Inductive cmpres := ViaTuple (x : R) | NotImpl.    (* NotImpl: the method returned NotImplemented *)
    Definition cmp_fields (fs : list field) : list field := filter f_compare fs.
    Fixpoint getattrs (h : heap) (r : nat) (fs : list field) : outcome (list value) :=
      match fs with
      | [] => Ok []
      | f :: rest =>
        match getattr h r (f_name f) with
        | Some v => bind (getattrs h r rest) (fun tl => Ok (v :: tl))
        | None => Raise AttributeErrorC
        end
      end.
    (* the class in the MRO that contributes __lt__ ...: the first one decorated with order=True *)
    Fixpoint order_layer (C : chain) : option chain :=
      match C with
      | [] => None
      | L :: rest => if decorated L && eff_order L then Some (L :: rest) else order_layer rest
      end.
    Definition dc_cmp (op : cmpop) (C : chain) (h : heap) (r1 r2 : nat) : outcome cmpres :=
      match (match op with OpEq => nearest_deco C | _ => order_layer C end) with
      | None => Ok NotImpl
      | Some D =>
        match class_of h r2 with
        | Some c2 =>
          if Nat.eqb (class_id C) c2 then
            let fs := cmp_fields (dc_fields D) in
            bind (getattrs h r1 fs) (fun t1 =>
            bind (getattrs h r2 fs) (fun t2 =>
            bind (tuple_cmp op h t1 t2) (fun x => Ok (ViaTuple x))))
          else Ok NotImpl
        | None => Ok NotImpl
        end
      end.
    (* eq=True (default) and frozen=True: __hash__ is generated from the fields; eq=True without
       frozen sets __hash__ to None *)
    Definition dc_hash (C : chain) (h : heap) (r : nat) : outcome R :=
      match nearest_deco C with
      | None => Raise TypeErrorC
      | Some [] => Raise TypeErrorC
      | Some (L :: rest) =>
        if eff_frozen L then bind (getattrs h r (cmp_fields (dc_fields (L :: rest)))) (tuple_hash h)
        else Raise TypeErrorC
      end.
  End Cmp.
End Sem.

Arguments ViaTuple {R} _.
Arguments NotImpl {R}.
