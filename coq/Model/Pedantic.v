(* Executable model of the @pedantic / @require_kwargs call protocol:
   pedantic/decorators/fn_deco_pedantic.py (wrapper, async_wrapper),
   pedantic/decorators/fn_deco_require_kwargs.py (wrapper),
   pedantic/models/decorated_function.py (the predicates FunctionCall reads),
   pedantic/models/function_call.py (FunctionCall.__init__, args_without_self, assert_uses_kwargs,
   check_types, _check_types_of_arguments and its three passes, _get_return_value,
   _check_types_return).

   Exception precise.  What is data or a tiny pure function in the source comes from a
   `pedantic_cfg` regenerated on every run (Gen/Pedantic.v).  The type checker is a Section
   variable `check` (instantiated with Model.Checker.assert_matches1 over the regenerated
   tables in Model/PedanticEval.v), so everything proved about `run` holds relative to any
   checker.  No proofs here.

   A decorated callable `fn` carries
     - what inspect shows (signature, bound first argument, return annotation, coroutine /
       generator flags, name, dotted qualname),
     - the TEXT FLAGS: everything the implementation decides by searching the source text of
       the function ('*args' in source, '@staticmethod' in source, '@<name>.setter' in source,
       '@pedantic'/'@require_kwargs' in source, number of '@' before the first 'def'),
       deliberately independent of the signature,
     - the ground truth the implementation cannot see and `run` never reads (is it really a
       property setter, does its first parameter receive an implicit self / cls): used by the
       specification only.                                                                  *)
From Coq Require Import List Arith Bool String Ascii.
From PV Require Import Base.Exn Base.Values Base.Ann Base.PyCall Model.CheckerCfg Model.Checker Model.PedanticCfg.
Import ListNotations.
Open Scope list_scope.

Record text_flags := {
  t_star_args : bool;         (* '*args' in source *)
  t_staticmethod : bool;      (* '@staticmethod' in source *)
  t_setter : bool;            (* f'@{name}.setter' in source *)
  t_pedantic : bool;          (* '@pedantic' in source or '@require_kwargs' in source *)
  t_n_at : nat;               (* len(re.findall('@', source.split('def')[0])) *)
}.

Record fn := {
  f_name : string;                        (* func.__name__ *)
  f_dotted : bool;                        (* '.' in func.__qualname__ *)
  f_params : list param;                  (* inspect.signature(func).parameters (a bound first argument is not in it) *)
  f_bound : option (pname * value);       (* inspect.ismethod(func): name of the bound first parameter, object it is bound to *)
  f_first_arg : option pname;             (* inspect.getfullargspec(func).args[:1] (does not look through functools.wraps) *)
  f_ret : option ann;                     (* return annotation; None = inspect.Signature.empty *)
  f_coroutine : bool;
  f_generator : bool;
  f_text : text_flags;
  (* ground truth, not read by the model of the implementation *)
  f_setter : bool;                        (* it is the fset of a property *)
  f_recv : bool;                          (* the first entry of f_params is the implicit receiver (self / cls) *)
}.

(* a call as the wrapper receives it, plus the ground truth about the receiver *)
Record call := {
  c_recv : list value;                    (* what the wrapper receives in front of the caller's positional arguments (0 or 1 object) *)
  c_twin_recv : list value;               (* what the undecorated callable would receive there (ground truth; spec only) *)
  c_args : list value;                    (* positional arguments written by the caller *)
  c_kwargs : list (pname * value);        (* keyword arguments written by the caller, in order, keys distinct *)
}.

Definition wargs (c : call) : list value := c_recv c ++ c_args c.                       (* self.args *)
Definition arg_srcs (c : call) : list src := map SArg (seq 0 (List.length (c_args c))).
Definition wsrc (c : call) : list src := map SObj (c_recv c) ++ arg_srcs c.
Definition kw_names (c : call) : list pname := map fst (c_kwargs c).

(* one invocation of the body: the binding it received and the arguments whose one-shot
   iterator had been consumed before *)
Definition jentry := (binding * list src)%type.
Definition body := binding -> list src -> outcome value.

(* the object a generator function returns, before / after GeneratorWrapper is put around it *)
Record genobj := {
  g_bind : binding;
  g_cons : list src;
  g_types : option (ann * ann * ann);     (* yield / send / return type of the GeneratorWrapper; None = the bare generator *)
}.

Definition ends_with (s suf : string) : bool :=
  let n := String.length s in
  let m := String.length suf in
  Nat.leb m n && String.eqb (substring (n - m) m s) suf.
Definition dunder : string := String "_" (String "_" EmptyString).

Definition is_nil {A} (l : list A) : bool := match l with [] => true | _ => false end.

(* ---------------- one-shot iterators ---------------- *)
(* number of iterators inside v that still have something to give *)
Fixpoint live (v : value) : nat :=
  let fix sum (l : list value) : nat := match l with [] => 0 | x :: l' => live x + sum l' end in
  let fix sump (l : list (value * value)) : nat := match l with [] => 0 | (a, b) :: l' => live a + live b + sump l' end in
  match v with
  | VIter [] => 0
  | VIter l => 1 + sum l
  | VList l | VTuple l | VSet l | VFrozenSet l | VDeque l | VKeysView l | VValuesView l => sum l
  | VDict kvs | VDefaultDict kvs | VOrderedDict kvs | VItemsView kvs => sump kvs
  | _ => 0
  end.

(* The state of a value after an ACCEPTING check against an annotation: the element-wise checkers iterate the value they are
   given (all(... for x in value)), so a one-shot iterator reached by the traversal has nothing left afterwards.  The traversal
   follows the checker: a typing generic whose isinstance test passes hands the elements (keys and values, tuple positions) to
   the checker registered for its origin in the regenerated tables; every member of a Union / Optional is evaluated in turn.
   `leaf a v` is asked exactly at an iterator v under an element-wise origin a.  Exact whenever every union member that
   reaches an iterator accepts (a member that rejects stops at its first non-conforming element). *)
Section Drain.
  Variable cfg : checker_cfg.
  Variable leaf : ann -> value -> bool.

  Definition map_keys (d : value -> value) (kvs : list (value * value)) := map (fun kv => (d (fst kv), snd kv)) kvs.
  Definition map_items (dk dv : value -> value) (kvs : list (value * value)) := map (fun kv => (dk (fst kv), dv (snd kv))) kvs.
  (* `for x in v: check x` for a value that is not itself a one-shot iterator *)
  Definition over_elems (d : value -> value) (v : value) : value :=
    match v with
    | VList l => VList (map d l) | VTuple l => VTuple (map d l) | VSet l => VSet (map d l) | VFrozenSet l => VFrozenSet (map d l)
    | VDeque l => VDeque (map d l) | VKeysView l => VKeysView (map d l) | VValuesView l => VValuesView (map d l)
    | VDict kvs => VDict (map_keys d kvs) | VDefaultDict kvs => VDefaultDict (map_keys d kvs)
    | VOrderedDict kvs => VOrderedDict (map_keys d kvs)
    | VItemsView kvs =>
        VItemsView (map (fun kv => match d (VTuple [fst kv; snd kv]) with VTuple [k; x] => (k, x) | _ => kv end) kvs)
    | _ => v
    end.
  Definition over_items (dk dv : value -> value) (v : value) : value :=
    match v with
    | VDict kvs => VDict (map_items dk dv kvs) | VDefaultDict kvs => VDefaultDict (map_items dk dv kvs)
    | VOrderedDict kvs => VOrderedDict (map_items dk dv kvs) | VItemsView kvs => VItemsView (map_items dk dv kvs)
    | _ => v
    end.

  Fixpoint drain (a : ann) (v : value) {struct a} : value :=
    match a with
    | AUnion _ args => (fix go (l : list ann) (v : value) : value := match l with [] => v | m :: l' => go l' (drain m v) end) args v
    | ANewType s => drain s v
    | AGeneric _ o args =>
        if negb (abc_instance o (class_of v)) then v else
        match origin_checker cfg o with
        | Some CkIterable =>
            match v with
            | VIter _ => if leaf a v then VIter [] else v
            | _ =>
                match it_index cfg, args with
                | 0, a0 :: _ => over_elems (drain a0) v
                | 1, _ :: a1 :: _ => over_elems (drain a1) v
                | _, _ => v
                end
            end
        | Some CkMapping =>
            match args with
            | [ka; va] => if mp_via_items cfg then match v with VItemsView _ => v | _ => over_items (drain ka) (drain va) v end else v
            | _ => v
            end
        | Some CkItemsView =>
            match args, v with
            | [ka; va], VItemsView _ => over_items (drain ka) (drain va) v
            | _, _ => v
            end
        | Some CkTuple =>
            match v with
            | VTuple vs =>
                if tu_len_check cfg && negb (Nat.eqb (List.length vs) (List.length args)) then v
                else VTuple ((fix zip (l : list ann) (vs : list value) : list value :=
                                match l, vs with a0 :: l', v0 :: vs' => drain a0 v0 :: zip l' vs' | _, _ => vs end) args vs)
            | _ => v
            end
        | _ => v
        end
    | ATupleVar _ e =>
        if negb (abc_instance TTuple (class_of v)) then v else
        match origin_checker cfg TTuple, v with
        | Some CkTuple, VTuple vs => match tu_ell_index cfg with 0 => VTuple (map (drain e) vs) | _ => v end
        | Some CkIterable, VIter _ => v
        | Some CkIterable, _ => match it_index cfg with 0 => over_elems (drain e) v | _ => v end
        | _, _ => v
        end
    | _ => v
    end.

  (* did the accepting check take something out of an iterator inside v *)
  Definition drains (a : ann) (v : value) : bool := Nat.ltb (live (drain a v)) (live v).
End Drain.

Section Run.
  Variable pc : pedantic_cfg.
  Variable check : ann -> value -> tvenv -> outcome unit * tvenv.     (* assert_value_matches_type *)
  Variable consumes : ann -> value -> bool.                           (* does checking v against a exhaust a one-shot iterator v *)

  (* GeneratorWrapper._set_and_check_return_types: only the listed base generics (typing spelling) with one
     or three type arguments; everything else raises PedanticTypeCheckException *)
  Definition gen_types (a : ann) : outcome (ann * ann * ann) :=
    match a with
    | AGeneric SpTyping o args =>
        if existsb (tname_eqb o) (pc_gen_bases pc) then
          match args with
          | [y] => Ok (y, ANone, ANone)
          | [y; s; r] => Ok (y, s, r)
          | _ => Raise PTypeCheckC
          end
        else Raise PTypeCheckC
    | _ => Raise PTypeCheckC
    end.

  (* ---------------- DecoratedFunction ---------------- *)
  Definition is_instance_method (f : fn) : bool :=
    match f_first_arg f with Some n => Nat.eqb n self_name | None => false end.
  Definition is_class_method (f : fn) : bool := match f_bound f with Some _ => true | None => false end.
  Definition is_static_method (f : fn) : bool := t_staticmethod (f_text f).
  Definition name_atoms (f : fn) : atoms :=
    {| at_setter := t_setter (f_text f);
       at_wants_args := t_star_args (f_text f);
       at_starts := String.prefix dunder (f_name f);
       at_ends := ends_with (f_name f) dunder;
       at_listed := existsb (String.eqb (f_name f)) (pc_kwargs_names pc) |}.
  Definition should_have_kwargs (f : fn) : bool := bprog_val (name_atoms f) (pc_shk pc).

  (* ---------------- FunctionCall ---------------- *)
  Definition params_without_self (f : fn) : list param :=
    filter (fun p => negb (Nat.eqb (p_name p) self_name)) (f_params f).

  Definition uses_multiple (f : fn) : bool :=
    cmp_val (pc_multi_cmp pc) (t_n_at (f_text f))
            (if t_pedantic (f_text f) then pc_max_pedantic pc else pc_max_other pc).
  Definition strips_first (f : fn) : bool :=
    existsb (fun a => match a with
                      | SaInstance => is_instance_method f
                      | SaStatic => is_static_method f
                      | SaMulti => uses_multiple f
                      end) (pc_strip_when pc).
  Definition args_without_self (f : fn) (c : call) : list value :=
    if strips_first f then skipn (pc_strip_from pc) (wargs c) else wargs c.

  Definition assert_uses_kwargs (f : fn) (c : call) : outcome unit :=
    if forallb (fun a => match a with
                         | AkShould => should_have_kwargs f
                         | AkArgsLeft => negb (is_nil (args_without_self f c))
                         end) (pc_auk_when pc)
    then Raise (pc_auk_exn pc) else Ok tt.

  (* FunctionCall.__init__: self._instance = self.args[0] if self.func.is_instance_method else None *)
  Definition instance_of (f : fn) (c : call) : outcome (option value) :=
    if is_instance_method f
    then match wargs c with x :: _ => Ok (Some x) | [] => Raise IndexErrorC end
    else Ok None.

  (* the `type_vars` property is evaluated for every single check; it touches `clazz`, whose static-method
     branch indexes full_name.split('.')[-2] when the call has no positional argument at all *)
  Definition clazz_probe (f : fn) (c : call) (inst : option value) : outcome unit :=
    let rest :=
      if is_class_method f then Ok tt
      else if is_static_method f then
        match wargs c with
        | [] => if f_dotted f then Ok tt else Raise IndexErrorC
        | _ :: _ => Ok tt
        end
      else Ok tt in
    match inst with
    | Some VNone => rest
    | Some _ => Ok tt
    | None => rest
    end.

  (* a_idx: FunctionCall._num_of_args_bound_to_named_params (class attribute default 0; set at the end of _check_type_param) *)
  Record astate := { a_tv : tvenv; a_cons : list src; a_checked : list pname; a_idx : nat }.
  Definition astate0 : astate := {| a_tv := []; a_cons := []; a_checked := []; a_idx := 0 |}.

  Section Passes.
    Variable f : fn.
    Variable c : call.
    Variable inst : option value.

    Definition chk (a : ann) (v : value) (s : src) (st : astate) : outcome astate :=
      match clazz_probe f c inst with
      | Raise e => Raise e
      | Ok _ =>
          match check a v (a_tv st) with
          | (Ok _, tv') => Ok {| a_tv := tv'; a_cons := if consumes a v then a_cons st ++ [s] else a_cons st;
                                 a_checked := a_checked st; a_idx := a_idx st |}
          | (Raise e, _) => Raise e
          end
      end.

    (* _check_type_param: per named parameter, the value Python binds to it - by keyword (never for a positional-only parameter:
       that keyword belongs to **kwargs), else the next positional value (positional parameters only, where positional calls are
       allowed; whether or not the parameter has a default), else the default *)
    Definition takes_positional (p : param) : bool := match p_kind p with PosOnly | PosOrKw => true | _ => false end.
    Definition takes_keyword (p : param) : bool := match p_kind p with PosOnly => false | _ => true end.
    Fixpoint pass_named (ps : list param) (idx : nat) (st : astate) : outcome astate :=
      match ps with
      | [] => Ok {| a_tv := a_tv st; a_cons := a_cons st; a_checked := a_checked st; a_idx := idx |}
      | p :: ps' =>
          let k := p_name p in
          let st := {| a_tv := a_tv st; a_cons := a_cons st;
                       a_checked := if takes_keyword p then a_checked st ++ [k] else a_checked st; a_idx := a_idx st |} in
          match p_ann p with
          | None => Raise PTypeCheckC                                   (* "should have a type hint" *)
          | Some a =>
              match (if takes_keyword p then kw_get k (c_kwargs c) else None) with
              | Some v => Exn.bind (chk a v (SKw k) st) (pass_named ps' idx)
              | None =>
                  if takes_positional p && negb (should_have_kwargs f) && Nat.ltb idx (List.length (wargs c))
                  then Exn.bind (chk a (nth idx (wargs c) VNone) (nth idx (wsrc c) (SArg 0)) st) (pass_named ps' (S idx))
                  else match p_default p with
                       | Some d => Exn.bind (chk a d (SDefault k) st) (pass_named ps' idx)
                       | None => Raise PTypeCheckC                      (* "is unfilled" *)
                       end
              end
          end
      end.

    Fixpoint chk_all (a : ann) (l : list (value * src)) (st : astate) : outcome astate :=
      match l with
      | [] => Ok st
      | (v, s) :: l' => Exn.bind (chk a v s st) (chk_all a l')
      end.

    (* _check_types_args: the elements of self.args behind those the first pass bound to named parameters
       (self.args[self._num_of_args_bound_to_named_params:]) *)
    Definition pass_varpos (ps : list param) (st : astate) : outcome astate :=
      match ps with
      | [] => Ok st
      | p :: _ =>
          match p_ann p with
          | None => Raise PTypeCheckC
          | Some a => chk_all a (skipn (a_idx st) (combine (wargs c) (wsrc c))) st
          end
      end.

    (* _check_types_kwargs: the keywords not consumed by the first pass *)
    Definition pass_varkw (ps : list param) (st : astate) : outcome astate :=
      match ps with
      | [] => Ok st
      | p :: _ =>
          match p_ann p with
          | None => Raise PTypeCheckC
          | Some a =>
              chk_all a (map (fun kv => (snd kv, SKw (fst kv)))
                             (filter (fun kv => negb (mem (fst kv) (a_checked st))) (c_kwargs c))) st
          end
      end.

    Definition run_pass (k : pass_kind) (st : astate) : outcome astate :=
      let d := params_without_self f in
      match k with
      | PNamed => pass_named (filter (fun p => negb (is_star p)) d) (if is_instance_method f then 1 else 0) st
      | PVarPos => pass_varpos (filter is_varpos d) st
      | PVarKw => pass_varkw (filter is_varkw d) st
      end.

    Fixpoint run_passes (l : list pass_kind) (st : astate) : outcome astate :=
      match l with
      | [] => Ok st
      | k :: l' => Exn.bind (run_pass k st) (run_passes l')
      end.

    (* _check_types_of_arguments *)
    Definition args_phase (st : astate) : outcome astate := run_passes (pc_passes pc) st.
  End Passes.

  (* ---------------- calling the decorated function ---------------- *)
  Definition drops_args (f : fn) : bool :=
    existsb (fun a => match a with DaStatic => is_static_method f | DaClass => is_class_method f end)
            (if f_coroutine f then pc_async_drop_args_when pc else pc_drop_args_when pc).
  Definition bound_param (n : pname) : param := {| p_name := n; p_kind := PosOrKw; p_ann := None; p_default := None |}.
  (* the parameters of the underlying function object (a bound method prepends the bound object) *)
  Definition func_params (f : fn) : list param :=
    match f_bound f with Some (n, _) => bound_param n :: f_params f | None => f_params f end.
  Definition bound_src (f : fn) : list src := match f_bound f with Some (_, o) => [SObj o] | None => [] end.

  (* the call func( *pos, **kwargs ): CPython binds, then the body runs *)
  Definition invoke (f : fn) (pos : list src) (c : call) (bd : body) (cons : list src) : outcome value * list jentry :=
    match py_bind (func_params f) (bound_src f ++ pos) (kw_names c) with
    | Raise e => (Raise e, [])
    | Ok b => (bd b cons, [(b, cons)])
    end.
  (* a generator function: binding happens at the call, the body starts at the first next() *)
  Definition invoke_gen (f : fn) (pos : list src) (c : call) (cons : list src) : outcome genobj * list jentry :=
    match py_bind (func_params f) (bound_src f ++ pos) (kw_names c) with
    | Raise e => (Raise e, [])
    | Ok b => (Ok {| g_bind := b; g_cons := cons; g_types := None |}, [])
    end.

  (* _get_return_value / _async_get_return_value *)
  Definition call_pos (f : fn) (c : call) : list src := if drops_args f then [] else wsrc c.

  (* ---------------- _check_types_return ---------------- *)
  Definition ret_value (f : fn) (c : call) (inst : option value) (st : astate) (v : value) : outcome value :=
    match f_ret f with
    | None => Raise PTypeCheckC
    | Some a =>
        match clazz_probe f c inst with
        | Raise e => Raise e
        | Ok _ => match check a v (a_tv st) with (Ok _, _) => Ok v | (Raise e, _) => Raise e end
        end
    end.
  (* what the caller holds afterwards: the very object the body returned - with the one-shot iterators the check of the return
     value went through exhausted *)
  Definition ret_seen (f : fn) (v : value) : value :=
    match f_ret f with
    | Some a => if consumes a v then drain (pc_tables pc) consumes a v else v
    | None => v
    end.
  Definition ret_gen (f : fn) (c : call) (inst : option value) (st : astate) (g : genobj) : outcome genobj :=
    match f_ret f with
    | None => Raise PTypeCheckC
    | Some a =>
        match clazz_probe f c inst with
        | Raise e => Raise e
        | Ok _ => match gen_types a with
                  | Ok t => Ok {| g_bind := g_bind g; g_cons := g_cons g; g_types := Some t |}
                  | Raise e => Raise e
                  end
        end
    end.

  (* ---------------- check_types / async_check_types ---------------- *)
  Section Steps.
    Context {R : Type}.
    Variable do_args : astate -> outcome astate.
    Variable do_call : list src -> outcome R * list jentry.
    Variable do_ret : astate -> R -> outcome R.
    Variable r_none : R.                                  (* what a statement sequence without `return` yields *)

    Fixpoint steps (l : list step) (st : astate) (res : option R) (j : list jentry) : outcome R * list jentry :=
      match l with
      | [] => (Ok r_none, j)
      | StArgs :: l' =>
          match do_args st with
          | Raise e => (Raise e, j)
          | Ok st' => steps l' st' res j
          end
      | StCall :: l' =>
          match do_call (a_cons st) with
          | (Raise e, j') => (Raise e, j ++ j')
          | (Ok r, j') => steps l' st (Some r) (j ++ j')
          end
      | StRetCheck :: _ => (do_ret st (match res with Some r => r | None => r_none end), j)
      | StRetPlain :: _ => (Ok (match res with Some r => r | None => r_none end), j)
      end.
  End Steps.

  Definition check_steps (f : fn) : list step := if f_coroutine f then pc_async_steps pc else pc_sync_steps pc.

  Definition check_types (f : fn) (c : call) (inst : option value) (bd : body) : outcome value * list jentry :=
    steps (args_phase f c inst) (invoke f (call_pos f c) c bd) (fun st v => match ret_value f c inst st v with Ok v' => Ok (ret_seen f v') | Raise e => Raise e end)
          VNone (check_steps f) astate0 None [].

  Definition g_none : genobj := {| g_bind := []; g_cons := []; g_types := None |}.
  Definition check_types_gen (f : fn) (c : call) (inst : option value) : outcome genobj * list jentry :=
    steps (args_phase f c inst) (invoke_gen f (call_pos f c) c) (ret_gen f c inst) g_none (check_steps f) astate0 None [].

  (* ---------------- the wrappers ---------------- *)
  Section Wrapper.
    Context {R : Type}.
    Variable f : fn.
    Variable c : call.
    Variable do_check_types : option value -> outcome R * list jentry.
    Variable do_plain : outcome R * list jentry.
    Variable r_none : R.
    Fixpoint wsteps (l : list wstep) (inst : option value) : outcome R * list jentry :=
      match l with
      | [] => (Ok r_none, [])
      | WAssertKwargs :: l' =>
          match assert_uses_kwargs f c with
          | Raise e => (Raise e, [])
          | Ok _ => wsteps l' inst
          end
      | WCheckTypes :: _ => do_check_types inst
      | WCallPlain :: _ => do_plain
      end.
    (* FunctionCall(...) is constructed first *)
    Definition wrapper_run (l : list wstep) : outcome R * list jentry :=
      match instance_of f c with
      | Raise e => (Raise e, [])
      | Ok inst => wsteps l inst
      end.
  End Wrapper.

  Definition pedantic_wrapper (f : fn) : list wstep := if f_coroutine f then pc_async_wrapper pc else pc_wrapper pc.

  (* calling (and, for a coroutine function, awaiting) a @pedantic function that is not a generator function *)
  Definition run (f : fn) (c : call) (bd : body) : outcome value * list jentry :=
    wrapper_run f c (fun inst => check_types f c inst bd) (invoke f (wsrc c) c bd []) VNone (pedantic_wrapper f).

  (* calling a @pedantic generator function: the GeneratorWrapper (or the exception) the caller gets *)
  Definition run_gen (f : fn) (c : call) : outcome genobj * list jentry :=
    wrapper_run f c (fun inst => check_types_gen f c inst) (invoke_gen f (wsrc c) c []) g_none (pedantic_wrapper f).

  (* calling a @require_kwargs function *)
  Definition run_rk (f : fn) (c : call) (bd : body) : outcome value * list jentry :=
    wrapper_run f c (fun inst => check_types f c inst bd) (invoke f (wsrc c) c bd []) VNone (pc_rk_wrapper pc).
End Run.

(* getfullargspec(func).args[:1] of a function object that is not hidden behind another decorator *)
Definition first_arg_of (ps : list param) (bound : option (pname * value)) : option pname :=
  match bound with
  | Some (n, _) => Some n
  | None => match filter is_pos ps with p :: _ => Some (p_name p) | [] => None end
  end.

(* ---------------- the undecorated twin ---------------- *)
Definition twin_pos (c : call) : list src := map SObj (c_twin_recv c) ++ arg_srcs c.
Definition twin (f : fn) (c : call) (bd : body) : outcome value * list jentry :=
  match py_bind (func_params f) (twin_pos c) (kw_names c) with
  | Raise e => (Raise e, [])
  | Ok b => (bd b [], [(b, [])])
  end.

(* Does checking v against a take something out of a one-shot iterator inside v?  At the leaf: an iterator handed to an origin
   whose registered checker iterates its argument; below that the traversal `drain` of the checker (nested iterators:
   Optional[Iterable[int]], List[Iterable[int]], Dict[str, Iterable[int]], ...). *)
Definition leaf_model (cfg : checker_cfg) (a : ann) (v : value) : bool :=
  match a, v with
  | AGeneric _ o _, VIter _ => match origin_checker cfg o with Some CkIterable => true | _ => false end
  | _, _ => false
  end.
Definition consumes_model (cfg : checker_cfg) (a : ann) (v : value) : bool := drains cfg (leaf_model cfg) a v.
