(* C17 - interpreter of the op sequences that translator/t_subproc.py extracts from
   pedantic/decorators/fn_deco_in_subprocess.py (`calculate_in_subprocess` -> parent program,
   `_inner` -> child program), for ONE invocation (`lstep`, local state `lst`) and for N
   concurrent invocations sharing one event loop thread (`gstep`, global state `gst`), under
   an arbitrary schedule given as a list of choices.

   What the model exhibits: the order of pipe/fork/close/wait/recv/join operations, which
   exception classes the two try statements catch, descriptor inheritance by fork (a child
   forked while other invocations are in flight inherits every end the parent process holds
   at that moment), EOF detection by writer reference counts, synchronous blocking of the
   whole loop thread in recv()/join(), suspension in `await event.wait()`, child death at any
   point (by the callee, by an uncaught exception, by a failing send, or by an external kill
   before ANY child step and also in the middle of a large send).
   The capacity of the pipe buffer is modelled for LARGE payloads (b_big): the rest of such a
   message can only be written while the parent is inside rx.recv() (`parent_receiving`), so a
   parent that waits for the child's exit before it reads deadlocks in the model as it does in
   reality.
   What it cannot exhibit (C17 is claimed PARTIAL): OS scheduling and real durations, the exact
   byte counts of the pipe buffer (a payload is either small or larger than the buffer), pickling itself (picklability is an input bit), the
   asyncio selector machinery behind add_reader.  Those are covered by the stress run only.

   A blocked process is a step that is *not enabled* (`None`); there is no fuel in the
   semantics, so "blocked forever" is a distinguished, decidable configuration
   (`l_blocked_forever`, `g_blocked_forever`).  No proofs in this file.                     *)
From Coq Require Import List Arith Bool.
From PV Require Import Base.Exn Model.PipeKernel.
Import ListNotations.

(* ---- the op languages ---------------------------------------------------------------- *)
Inductive paction := PASetChildProcessError.  (* result = SubprocessError(ex=ChildProcessError(<str>)) *)

(* which signal the parent sends to its child: process.kill() -> SIGKILL (cannot be caught, blocked or
   ignored), process.terminate() -> SIGTERM (terminates the child only under the default disposition:
   a child forked from an application that has installed its own SIGTERM handler / SIG_IGN inherits
   it, a callee may install one itself - `b_term_fatal` of the behaviour) *)
Inductive ksig := KSigKill | KSigTerm.

Inductive pop :=
| PRequirePipe          (* if Pipe is None: raise ImportError(...) *)
| PPipe                 (* rx, tx = Pipe(duplex=False) *)
| PMkProcess            (* process = Process(target=_inner, args=(tx, func, *args), kwargs=kwargs) *)
| PStart                (* process.start() *)
| PCloseTx              (* tx.close() *)
| PNewEvent             (* event = asyncio.Event() *)
| PGetLoop              (* loop = asyncio.get_event_loop() *)
| PAddReader            (* loop.add_reader(fd=rx.fileno(), callback=event.set) *)
| PIfNotPollWait        (* if not rx.poll(): await event.wait() *)
| PIfNotPollWaitH (n : nat)
                        (* try: <the same> except BaseException / CancelledError: <n simple statements>; raise
                           - the n ops of the handler body follow, then PReraise; the normal path skips them *)
| PKill (sg : ksig)     (* process.kill() / process.terminate() *)
| PRemoveReader         (* loop.remove_reader(fd=rx.fileno()) *)
| PClearEvent           (* event.clear() *)
| PRecv (handlers : list (list exn * paction))   (* [try:] result = rx.recv() [except <classes>: <action>]* *)
| PRecvDefer (handlers : list (list exn * paction))
                        (* the same try statement WITH a finally clause: the ops of the finally body follow, then
                           PReraise; an exception no handler catches is kept pending while they run *)
| PReraise              (* end of the finally body: a pending exception propagates now *)
| PJoin                 (* process.join() *)
| PCloseRx              (* rx.close() *)
| PRaiseIfError         (* if isinstance(result, SubprocessError): raise result.exception *)
| PReturn.              (* return result *)

Inductive caction := CSendError      (* tx.send(SubprocessError(ex=ex)) *)
                   | CSendResult.    (* tx.send(res) *)

Inductive cop :=
| CSetupLoop                    (* event_loop = None; if iscoroutinefunction(fun): new loop *)
| CRunCallee (aware : bool)     (* try body; aware = coroutine functions are run to completion *)
| CCatch (classes : list exn) (a : caction)   (* except <classes> as ex: <a> *)
| CElse (a : caction)           (* else: <a> *)
| CTryEnd.                      (* end of the try statement: an unhandled exception leaves *)

(* ---- behaviour of the callee (the universally quantified input) ------------------------ *)
Inductive cout := COk       (* returns a value *)
                | CRaise    (* raises an exception; its class is known through b_isa only *)
                | CDie.     (* terminates the process itself: os._exit, SIGKILL to itself *)
Record beh := {
  b_out : cout;
  b_isa : exn -> bool;      (* issubclass(type(raised exception), c) *)
  b_big : bool;             (* the pickled payload is written with more than one write() *)
  b_pick : bool;            (* the payload can be pickled *)
  b_async : bool;           (* the callee is a coroutine function *)
  b_ret_err : bool;         (* the value the callee RETURNS is itself an instance of SubprocessError *)
  b_unp : bool;             (* the payload pickles in the child, but UNPICKLING it in the parent raises *)
  b_term_fatal : bool;      (* SIGTERM terminates the child process (false: a handler / SIG_IGN is in place,
                               inherited from the application or installed by the callee) *)
}.
Definition sig_fatal (b : beh) (sg : ksig) : bool :=
  match sg with KSigKill => true | KSigTerm => b_term_fatal b end.

(* exception objects in the state: the callee's own exception object, or a fresh one of a class *)
Inductive xval := XCallee | XCls (c : exn)
              | XRetAttr.   (* whatever the `.exception` attribute of the callee's RETURN value holds *)

Inductive pfinal :=
| FReturnCallee        (* returns (a copy of) exactly the callee's return value *)
| FReturnOther         (* returns something else (None, a SubprocessError object ...) *)
| FRaise (x : xval).

Inductive pstat := PSRun        (* inside a synchronous segment (owns the loop thread) *)
                 | PSWait       (* suspended in `await event.wait()` *)
                 | PSDone (f : pfinal).

Inductive rval := RVal | RErr (x : xval).    (* the local variable `result` *)

Inductive cpend := CPNone | CPOk | CPOkCoroutine | CPRaise | CPHandled.

Record pside := {
  p_pc : nat; p_stat : pstat; p_ends : ends; p_reader : bool; p_result : option rval; p_joined : bool;
  p_pending : option exn (* exception waiting for the end of a finally body *) }.
Record cside := {
  c_stat : cstatus; c_pc : nat; c_ends : ends; c_pend : cpend; c_sending : bool; c_killed : bool }.
Record lst := { ps : pside; cs : cside; data : list msg }.

Definition pside0 : pside :=
  {| p_pc := 0; p_stat := PSRun; p_ends := no_ends; p_reader := false; p_result := None; p_joined := false; p_pending := None |}.
Definition cside0 : cside :=
  {| c_stat := CNotStarted; c_pc := 0; c_ends := no_ends; c_pend := CPNone; c_sending := false; c_killed := false |}.
Definition linit : lst := {| ps := pside0; cs := cside0; data := [] |}.

Definition p_done (s : lst) : bool := match p_stat (ps s) with PSDone _ => true | _ => false end.
Definition p_running (s : lst) : bool := match p_stat (ps s) with PSRun => true | _ => false end.
Definition c_running (s : lst) : bool := cs_running (c_stat (cs s)).
Definition l_writers (env : nat) (s : lst) : nat :=
  k_writers (p_ends (ps s)) (c_stat (cs s)) (c_ends (cs s)) env.

Section Local.
  Variable P : list pop.
  Variable C : list cop.
  Variable b : beh.
  Variable env : nat.     (* write ends of this pipe held by live children of OTHER invocations *)

  (* ---- parent ---------------------------------------------------------------------- *)
  Definition p_set (s : lst) (p : pside) : lst := {| ps := p; cs := cs s; data := data s |}.
  Definition p_adv (p : pside) : pside :=
    {| p_pc := S (p_pc p); p_stat := p_stat p; p_ends := p_ends p; p_reader := p_reader p;
       p_result := p_result p; p_joined := p_joined p; p_pending := p_pending p |}.
  Definition p_with_stat (p : pside) (st : pstat) : pside :=
    {| p_pc := p_pc p; p_stat := st; p_ends := p_ends p; p_reader := p_reader p;
       p_result := p_result p; p_joined := p_joined p; p_pending := p_pending p |}.
  Definition p_with_ends (p : pside) (e : ends) : pside :=
    {| p_pc := p_pc p; p_stat := p_stat p; p_ends := e; p_reader := p_reader p;
       p_result := p_result p; p_joined := p_joined p; p_pending := p_pending p |}.
  Definition p_with_reader (p : pside) (r : bool) : pside :=
    {| p_pc := p_pc p; p_stat := p_stat p; p_ends := p_ends p; p_reader := r;
       p_result := p_result p; p_joined := p_joined p; p_pending := p_pending p |}.
  Definition p_with_result (p : pside) (r : rval) : pside :=
    {| p_pc := p_pc p; p_stat := p_stat p; p_ends := p_ends p; p_reader := p_reader p;
       p_result := Some r; p_joined := p_joined p; p_pending := p_pending p |}.
  Definition p_with_joined (p : pside) : pside :=
    {| p_pc := p_pc p; p_stat := p_stat p; p_ends := p_ends p; p_reader := p_reader p;
       p_result := p_result p; p_joined := true; p_pending := p_pending p |}.
  Definition p_with_pending (p : pside) (e : option exn) : pside :=
    {| p_pc := p_pc p; p_stat := p_stat p; p_ends := p_ends p; p_reader := p_reader p;
       p_result := p_result p; p_joined := p_joined p; p_pending := e |}.
  Definition p_jump (p : pside) (k : nat) : pside :=
    {| p_pc := p_pc p + k; p_stat := p_stat p; p_ends := p_ends p; p_reader := p_reader p;
       p_result := p_result p; p_joined := p_joined p; p_pending := p_pending p |}.
  Definition p_finish (s : lst) (f : pfinal) : lst := p_set s (p_with_stat (ps s) (PSDone f)).
  Definition p_next (s : lst) : lst := p_set s (p_adv (ps s)).

  (* PEP 479: `raise <StopIteration instance>` inside a coroutine surfaces as RuntimeError *)
  Definition pep479 (x : xval) : xval :=
    match x with
    | XCallee => if b_isa b StopIterationC then XCls RuntimeErrorC else XCallee
    | XCls c => if derives c StopIterationC then XCls RuntimeErrorC else XCls c
    | XRetAttr => XRetAttr      (* the class of that attribute is outside the vocabulary *)
    end.

  Fixpoint find_handler (e : exn) (hs : list (list exn * paction)) : option paction :=
    match hs with
    | [] => None
    | (cls, a) :: hs' => if existsb (derives e) cls then Some a else find_handler e hs'
    end.

  Definition forked_child (p : pside) : cside :=
    {| c_stat := CRunning; c_pc := 0; c_ends := fork_copy (p_ends p); c_pend := CPNone;
       c_sending := false; c_killed := false |}.

  Definition p_raise_in_recv (s : lst) (e : exn) (hs : list (list exn * paction)) : lst :=
    match find_handler e hs with
    | Some PASetChildProcessError =>
        p_set s (p_adv (p_with_result (ps s) (RErr (XCls ChildProcessErrorC))))
    | None => p_finish s (FRaise (XCls e))
    end.
  (* inside try ... finally: what no handler catches waits until the finally body has run *)
  Definition p_raise_in_recv_defer (s : lst) (e : exn) (hs : list (list exn * paction)) : lst :=
    match find_handler e hs with
    | Some PASetChildProcessError =>
        p_set s (p_adv (p_with_result (ps s) (RErr (XCls ChildProcessErrorC))))
    | None => p_set s (p_adv (p_with_pending (ps s) (Some e)))
    end.

  (* result = rx.recv(): `raise_` says what an exception does (propagate / wait for the finally) *)
  Definition p_recv (s : lst) (hs : list (list exn * paction))
                    (raise_ : lst -> exn -> list (list exn * paction) -> lst) : option lst :=
    let p := ps s in
    if e_rx (p_ends p) then
      match k_recv (data s) (l_writers env s) with
      | RecvMsg pl rest =>
          let s' := {| ps := p; cs := cs s; data := rest |} in
          if b_unp b then Some (raise_ s' UnpickleErrC hs)         (* the message is consumed, loads() raises *)
          else Some {| ps := p_adv (p_with_result p (match pl with PlResult => RVal | PlError => RErr XCallee end));
                       cs := cs s; data := rest |}
      | RecvBlock => None                                        (* blocks the whole loop thread *)
      | RecvRaise e => Some (raise_ s e hs)
      end
    else Some (raise_ s OSErrorC hs).                            (* handle is closed *)

  Definition p_exec (s : lst) (op : pop) : option lst :=
    let p := ps s in
    match op with
    | PRequirePipe | PMkProcess | PNewEvent | PGetLoop | PClearEvent => Some (p_next s)
    | PPipe => Some {| ps := p_adv (p_with_ends p both_ends); cs := cs s; data := [] |}
    | PStart =>
        match c_stat (cs s) with
        | CNotStarted => Some {| ps := p_adv p; cs := forked_child p; data := data s |}
        | _ => Some (p_finish s (FRaise (XCls AssertionErrorC)))     (* cannot start a process twice *)
        end
    | PCloseTx => Some (p_set s (p_adv (p_with_ends p (close_tx (p_ends p)))))
    | PCloseRx => Some (p_set s (p_adv (p_with_ends p (close_rx (p_ends p)))))
    | PAddReader =>
        if e_rx (p_ends p) then Some (p_set s (p_adv (p_with_reader p true)))
        else Some (p_finish s (FRaise (XCls OSErrorC)))              (* handle is closed *)
    | PRemoveReader =>
        if e_rx (p_ends p) then Some (p_set s (p_adv (p_with_reader p false)))
        else Some (p_finish s (FRaise (XCls OSErrorC)))
    | PIfNotPollWait =>
        if e_rx (p_ends p) then
          if k_readable (data s) (l_writers env s) then Some (p_next s)
          else Some (p_set s (p_adv (p_with_stat p PSWait)))         (* suspends; other tasks run *)
        else Some (p_finish s (FRaise (XCls OSErrorC)))
    | PIfNotPollWaitH n =>
        if e_rx (p_ends p) then
          if k_readable (data s) (l_writers env s) then Some (p_set s (p_jump p (n + 2)))   (* over handler + PReraise *)
          else Some (p_set s (p_adv (p_with_stat p PSWait)))         (* suspends with pc at the handler body *)
        else Some (p_finish s (FRaise (XCls OSErrorC)))
    | PKill sg =>
        match c_stat (cs s) with
        | CNotStarted => Some (p_finish s (FRaise (XCls AttributeErrorC)))   (* no popen object yet *)
        | CRunning =>                                                  (* a fatal signal: the child is gone (not yet reaped) *)
            if negb (sig_fatal b sg) then Some (p_next s) else         (* SIGTERM handled / ignored: the child goes on *)
            Some {| ps := p_adv p;
                    cs := {| c_stat := CExited; c_pc := c_pc (cs s); c_ends := no_ends; c_pend := c_pend (cs s);
                             c_sending := c_sending (cs s); c_killed := true |};
                    data := data s |}
        | CExited => Some (p_next s)
        end
    | PRecv hs => p_recv s hs p_raise_in_recv
    | PRecvDefer hs => p_recv s hs p_raise_in_recv_defer
    | PReraise =>
        match p_pending p with
        | Some e => Some (p_finish s (FRaise (XCls e)))
        | None => Some (p_next s)
        end
    | PJoin =>
        match c_stat (cs s) with
        | CNotStarted => Some (p_finish s (FRaise (XCls AssertionErrorC)))  (* can only join a started process *)
        | CRunning => None                                           (* blocks the whole loop thread *)
        | CExited => Some (p_set s (p_adv (p_with_joined p)))
        end
    | PRaiseIfError =>
        match p_result p with
        | Some (RErr x) => Some (p_finish s (FRaise (pep479 x)))
        | Some RVal =>
            (* isinstance(result, SubprocessError) cannot tell the child's error envelope from a
               callee that returns such an object: its `.exception` is raised instead of returned *)
            if b_ret_err b then Some (p_finish s (FRaise XRetAttr)) else Some (p_next s)
        | None => Some (p_finish s (FRaise (XCls NameErrorC)))       (* `result` is unbound *)
        end
    | PReturn =>
        match p_result p with
        | Some RVal => Some (p_finish s FReturnCallee)
        | Some (RErr _) => Some (p_finish s FReturnOther)
        | None => Some (p_finish s (FRaise (XCls NameErrorC)))
        end
    end.

  Definition p_step (s : lst) : option lst :=
    match p_stat (ps s) with
    | PSDone _ => None
    | PSWait =>
        (* event.set is called by the loop's reader callback once the descriptor is readable *)
        (* while it waits, pc is one past the wait op *)
        if p_reader (ps s) && k_readable (data s) (l_writers env s)
        then match nth_error P (pred (p_pc (ps s))) with
             | Some (PIfNotPollWaitH n) => Some (p_set s (p_jump (p_with_stat (ps s) PSRun) (S n)))
             | _ => Some (p_set s (p_with_stat (ps s) PSRun))
             end
        else None
    | PSRun =>
        match nth_error P (p_pc (ps s)) with
        | None => Some (p_finish s FReturnOther)                     (* falls off the end: returns None *)
        | Some op => p_exec s op
        end
    end.

  (* task.cancel() / asyncio.wait_for timeout: CancelledError is thrown into the coroutine at its
     suspension point (the only one is the wait), or the coroutine is never started at all.  Being
     ready (data / EOF already there) does not protect a task that has not been resumed yet. *)
  Definition p_cancel (s : lst) : option lst :=
    match p_stat (ps s) with
    | PSDone _ => None
    | PSWait =>
        match nth_error P (pred (p_pc (ps s))) with
        | Some (PIfNotPollWaitH n) =>       (* the handler body runs, CancelledError pending until PReraise *)
            Some (p_set s (p_with_pending (p_with_stat (ps s) PSRun) (Some CancelledErrorC)))
        | _ => Some (p_finish s (FRaise (XCls CancelledErrorC)))
        end
    | PSRun =>
        if Nat.eqb (p_pc (ps s)) 0 && negb (cs_running (c_stat (cs s))) && negb (cs_exited (c_stat (cs s)))
        then Some (p_finish s (FRaise (XCls CancelledErrorC)))           (* cancelled before its first step *)
        else None
    end.

  (* ---- child ----------------------------------------------------------------------- *)
  Definition c_set (s : lst) (c : cside) (d : list msg) : lst := {| ps := ps s; cs := c; data := d |}.
  Definition c_exit (c : cside) (killed : bool) : cside :=
    {| c_stat := CExited; c_pc := c_pc c; c_ends := no_ends; c_pend := c_pend c;
       c_sending := c_sending c; c_killed := killed |}.
  Definition c_adv (c : cside) (pend : cpend) : cside :=
    {| c_stat := c_stat c; c_pc := S (c_pc c); c_ends := c_ends c; c_pend := pend;
       c_sending := false; c_killed := c_killed c |}.
  Definition c_begin_send (c : cside) : cside :=
    {| c_stat := c_stat c; c_pc := c_pc c; c_ends := c_ends c; c_pend := c_pend c;
       c_sending := true; c_killed := c_killed c |}.
  Definition c_die (s : lst) : lst := c_set s (c_exit (cs s) (c_killed (cs s))) (data s).

  (* what the action sends, or None when evaluating it raises in the child (unbound name,
     coroutine object / unpicklable payload, closed handle): the child then dies *)
  Definition c_payload (c : cside) (a : caction) : option payload :=
    if e_tx (c_ends c) then
      match a, c_pend c with
      | CSendError, CPRaise => if b_pick b then Some PlError else None
      | CSendResult, CPOk => if b_pick b then Some PlResult else None
      | _, _ => None
      end
    else None.

  (* capacity of the pipe buffer: a LARGE message (b_big: more than the buffer holds) is written in
     two steps; the first fills the buffer, the second can only happen while the reader DRAINS the
     pipe, i.e. while the parent process sits in rx.recv() (rx.poll() and the selector consume
     nothing).  Until then the child is blocked in its write (a step that is not enabled). *)
  Definition parent_receiving (s : lst) : bool :=
    p_running s && e_rx (p_ends (ps s)) &&
    match nth_error P (p_pc (ps s)) with
    | Some (PRecv _) | Some (PRecvDefer _) => true
    | _ => false
    end.

  Definition c_do (s : lst) (a : caction) : option lst :=
    let c := cs s in
    match c_payload c a with
    | None => Some (c_die s)
    | Some pl =>
        if b_big b then
          if c_sending c then
            if parent_receiving s then Some (c_set s (c_adv c CPHandled) (k_send_end (data s) pl))
            else None                                              (* the buffer is full: write() blocks *)
          else Some (c_set s (c_begin_send c) (k_send_begin (data s)))
        else Some (c_set s (c_adv c CPHandled) (k_send (data s) pl))
    end.

  Definition c_step (s : lst) : option lst :=
    let c := cs s in
    match c_stat c with
    | CRunning =>
        match nth_error C (c_pc c) with
        | None => Some (c_die s)                                     (* _inner returns: the process exits *)
        | Some CSetupLoop => Some (c_set s (c_adv c (c_pend c)) (data s))
        | Some (CRunCallee aware) =>
            if b_async b && negb aware then Some (c_set s (c_adv c CPOkCoroutine) (data s))
            else match b_out b with
                 | COk => Some (c_set s (c_adv c CPOk) (data s))
                 | CRaise => Some (c_set s (c_adv c CPRaise) (data s))
                 | CDie => Some (c_die s)
                 end
        | Some (CCatch cls a) =>
            match c_pend c with
            | CPRaise => if existsb (b_isa b) cls then c_do s a
                         else Some (c_set s (c_adv c CPRaise) (data s))
            | pe => Some (c_set s (c_adv c pe) (data s))
            end
        | Some (CElse a) =>
            match c_pend c with
            | CPOk | CPOkCoroutine => c_do s a
            | pe => Some (c_set s (c_adv c pe) (data s))
            end
        | Some CTryEnd =>
            match c_pend c with
            | CPRaise => Some (c_die s)                              (* uncaught: the process terminates *)
            | _ => Some (c_set s (c_adv c CPNone) (data s))
            end
        end
    | _ => None
    end.

  Definition c_kill (s : lst) : option lst :=
    match c_stat (cs s) with
    | CRunning => Some (c_set s (c_exit (cs s) true) (data s))
    | _ => None
    end.
End Local.

Inductive lchoice := LParent | LChild | LKill | LCancel.
Definition lchoices : list lchoice := [LParent; LChild; LKill; LCancel].

Definition lstep (P : list pop) (C : list cop) (b : beh) (env : nat) (c : lchoice) (s : lst) : option lst :=
  match c with
  | LParent => p_step P b env s
  | LChild => c_step P C b s
  | LKill => c_kill s
  | LCancel => p_cancel P s
  end.

(* a choice that is not enabled is skipped: every list of choices is a schedule *)
Definition lstep_skip P C b (c : lchoice) (s : lst) : lst :=
  match lstep P C b 0 c s with Some s' => s' | None => s end.
Definition lrun P C b (sched : list lchoice) (s : lst) : lst := fold_left (fun s c => lstep_skip P C b c s) sched s.

(* ---- argument binding ------------------------------------------------------------------------
   The caller's keyword arguments travel through `calculate_in_subprocess(func, *args, **kwargs)`
   and `_inner(tx, fun, *a, **kw_args)`.  A keyword NAMED like one of those parameters (`func`; `tx`,
   `fun`) does not reach the callee unless the parameters are positional-only: the call of
   calculate_in_subprocess raises TypeError before anything is created, resp. the call of _inner
   raises in the child before _inner's body starts, i.e. the child dies without reporting.
   The names are part of the input (`kwcoll`), whether the parameters are positional-only comes
   from the translator (`kwflags`). *)
Inductive kwcoll := KWNone | KWParent (* a keyword named `func` *) | KWChild (* named `tx` / `fun` *).
Record kwflags := { kw_parent_safe : bool; kw_child_safe : bool }.
Definition kw_binds (fl : kwflags) (k : kwcoll) : bool :=
  match k with KWNone => true | KWParent => kw_parent_safe fl | KWChild => kw_child_safe fl end.
Definition beh_dies (b : beh) : beh :=
  {| b_out := CDie; b_isa := b_isa b; b_big := b_big b; b_pick := b_pick b; b_async := b_async b;
     b_ret_err := b_ret_err b; b_unp := b_unp b; b_term_fatal := b_term_fatal b |}.
Definition beh_kw (fl : kwflags) (k : kwcoll) (b : beh) : beh :=
  match k with KWChild => if kw_child_safe fl then b else beh_dies b | _ => b end.
Definition lrun_kw P C (fl : kwflags) (k : kwcoll) b (sched : list lchoice) : lst :=
  match k with
  | KWParent => if kw_parent_safe fl then lrun P C b sched linit
                else p_finish linit (FRaise (XCls TypeErrorC))     (* nothing has been created *)
  | _ => lrun P C (beh_kw fl k b) sched linit
  end.

Definition l_enabled P C b (s : lst) : bool :=
  existsb (fun c => match lstep P C b 0 c s with Some _ => true | None => false end) lchoices.
(* the parent has not finished and nothing in the (closed) system can move any more *)
Definition l_blocked_forever P C b (s : lst) : bool := negb (p_done s) && negb (l_enabled P C b s).

(* ---- N invocations on one event loop -------------------------------------------------- *)
Record ginv := { g_loc : lst; g_beh : beh; g_inh : ftable (* foreign ends inherited by this child *) }.
Record gst := { g_invs : list ginv; g_running : option nat (* coroutine owning the loop thread *) }.
Inductive gchoice := GParent (i : nat) | GChild (i : nat) | GKill (i : nat) | GCancel (i : nat).

Definition ginit (behs : list beh) : gst :=
  {| g_invs := map (fun b => {| g_loc := linit; g_beh := b; g_inh := [] |}) behs; g_running := None |}.

Fixpoint update_nth {A} (n : nat) (x : A) (l : list A) : list A :=
  match l, n with
  | [], _ => []
  | _ :: t, O => x :: t
  | h :: t, S n' => h :: update_nth n' x t
  end.

(* write ends of pipe i held by live children of other invocations *)
Definition env_writers (invs : list ginv) (i : nat) : nat :=
  fold_right (fun v acc => (if c_running (g_loc v) then ft_tx_count (g_inh v) i else 0) + acc) 0 invs.

(* the parent process's descriptor table minus invocation i's own pipe, at this moment *)
Fixpoint parent_table_from (k : nat) (invs : list ginv) (i : nat) : ftable :=
  match invs with
  | [] => []
  | v :: rest =>
      let t := parent_table_from (S k) rest i in
      if Nat.eqb k i then t
      else if holds_any (p_ends (ps (g_loc v))) then (k, p_ends (ps (g_loc v))) :: t else t
  end.
Definition parent_table (invs : list ginv) (i : nat) : ftable := parent_table_from 0 invs i.

Definition may_run (r : option nat) (i : nat) : bool :=
  match r with None => true | Some k => Nat.eqb k i end.

Section Global.
  Variable P : list pop.
  Variable C : list cop.

  (* a step of the parent coroutine of invocation i on the loop thread: its next segment (LParent)
     or the delivery of a cancellation (LCancel) *)
  Definition gstep_p (lc : lchoice) (i : nat) (g : gst) : option gst :=
        match nth_error (g_invs g) i with
        | Some v =>
            if may_run (g_running g) i then
              match lstep P C (g_beh v) (env_writers (g_invs g) i) lc (g_loc v) with
              | Some s' =>
                  let forked := negb (c_running (g_loc v)) && c_running s' in
                  let v' := {| g_loc := s'; g_beh := g_beh v;
                               g_inh := if forked then parent_table (g_invs g) i else g_inh v |} in
                  Some {| g_invs := update_nth i v' (g_invs g);
                          g_running := if p_running s' then Some i else None |}
              | None => None
              end
            else None
        | None => None
        end.

  Definition gstep (c : gchoice) (g : gst) : option gst :=
    match c with
    | GParent i => gstep_p LParent i g
    | GCancel i => gstep_p LCancel i g
    | GChild i | GKill i =>
        match nth_error (g_invs g) i with
        | Some v =>
            match lstep P C (g_beh v) (env_writers (g_invs g) i)
                        (match c with GKill _ => LKill | _ => LChild end) (g_loc v) with
            | Some s' =>
                Some {| g_invs := update_nth i {| g_loc := s'; g_beh := g_beh v; g_inh := g_inh v |} (g_invs g);
                        g_running := g_running g |}
            | None => None
            end
        | None => None
        end
    end.

  Definition gstep_skip (g : gst) (c : gchoice) : gst :=
    match gstep c g with Some g' => g' | None => g end.
  Definition grun (sched : list gchoice) (g : gst) : gst := fold_left gstep_skip sched g.

  Definition g_all_done (g : gst) : bool := forallb (fun v => p_done (g_loc v)) (g_invs g).
  Definition g_choices (g : gst) : list gchoice :=
    flat_map (fun i => [GParent i; GChild i; GKill i; GCancel i]) (seq 0 (List.length (g_invs g))).
  Definition g_enabled (g : gst) : bool :=
    existsb (fun c => match gstep c g with Some _ => true | None => false end) (g_choices g).
  Definition g_blocked_forever (g : gst) : bool := negb (g_all_done g) && negb (g_enabled g).
End Global.
