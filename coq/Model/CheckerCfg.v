(* Parameters of the type checker that are regenerated from the source on every run
   (translator/t_checker.py -> Gen/CheckerTables.v): the dispatch registries, the arity
   tables, the bare-builtin sets, the conversion chain, the except-handler table of
   _check_type and the shape parameters of the element-wise checkers.                    *)
From Coq Require Import List Arith Bool.
From PV Require Import Base.Exn Base.Values Base.Ann.
Import ListNotations.

Inductive ckind := CkIterable | CkMapping | CkItemsView | CkTuple | CkType | CkGenerator.
Inductive skind := SkUnion | SkLiteral | SkCallable | SkAnyTrue.
Inductive quant := QAll | QAny.
Inductive conj := JAnd | JOr | JKeyOnly | JValOnly.
(* what a handler of _check_type does with a caught exception *)
Inductive haction := HRaise (c : exn) | HReturn (b : bool) | HReraiseSame.

Record checker_cfg := {
  origin_checker : tname -> option ckind;       (* _ORIGIN_TYPE_CHECKERS *)
  special_checker : tname -> option skind;      (* _SPECIAL_INSTANCE_CHECKERS *)
  req_exact : tname -> option nat;              (* NUM_OF_REQUIRED_TYPE_ARGS_EXACT *)
  req_min : tname -> option nat;                (* NUM_OF_REQUIRED_TYPE_ARGS_MIN *)
  bare_builtins : list cls;                     (* the set literal tested in _is_instance *)
  conv_bare : list cls;                         (* the set literal tested in convert_to_typing_types *)
  conv_origins : list tname;                    (* builtin origins translated by convert_to_typing_types *)
  conv_type_keeps_classes : bool;               (* type[C]: a class argument is kept, only generic arguments are converted *)
  newtype_recurses : bool;                      (* NewType of a non-class supertype: checked against the supertype by _is_instance *)
  tuple_empty_ok : bool;                        (* _has_required_type_arguments: Tuple[()] is complete *)
  sig_catches : list exn;                       (* _instancecheck_callable: exceptions of inspect.signature answered with False *)
  handlers : list (list exn * haction);         (* except clauses of _check_type, in order *)
  mismatch_raises : exn;                        (* what assert_value_matches_type raises on a False verdict *)
  it_quant : quant;  it_index : nat;            (* _instancecheck_iterable *)
  iv_quant : quant;  iv_conj : conj;            (* _instancecheck_items_view *)
  mp_via_items : bool;                          (* _instancecheck_mapping = items_view(mapping.items()) *)
  tu_ell_quant : quant;  tu_ell_index : nat;    (* Ellipsis branch of _instancecheck_tuple *)
  tu_len_check : bool;                          (* `if len(tup) != len(type_args): return False` *)
  tu_zip_quant : quant;
  un_quant : quant;                             (* any([...]) over the non-TypeVar members *)
  un_bound_uses_result : bool;                  (* _check_union: `if _is_instance(<bound TypeVar>): return True` (not: call, then return True) *)
  lit_in : bool;                                (* `return value in type_args` *)
  ty_index : nat;                               (* _instancecheck_type: type_[ty_index] *)
  str_walks_mro : bool;                         (* string annotations: any(c.__name__ == type_ for c in type(value).__mro__) *)
  none_by_eq : bool;                            (* `if type_ is None: return value is None` (the annotation None accepts exactly None) *)
  plain_class_complete : bool;                  (* _has_required_type_arguments answers True for a plain class BEFORE it looks its __name__ up in the arity tables *)
}.
