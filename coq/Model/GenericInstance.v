(* C07: how @pedantic / @pedantic_class obtain the TypeVar table of a call, as a state machine.

   pedantic/models/function_call.py   FunctionCall.type_vars  (evaluated once per checked position)
   pedantic/decorators/class_decorators.py   _add_type_var_attr_and_method_to_class.type_vars
   pedantic/type_checking_logic/check_generic_classes.py   check_instance_of_generic_class_and_get_type_vars

   * plain function / method of an undecorated class: one dict per call (FunctionCall._type_vars).
   * instance of a non-generic @pedantic_class: the attribute __pedantic_a42__ is REPLACED by a
     fresh table on every access (i.e. for every parameter and for the result).
   * instance of a generic @pedantic_class (Generic in __bases__): on every access the attribute
     becomes  old attribute updated with {type variables of the class -> arguments of __orig_class__} ;
     __orig_class__ exists only after __init__ returned.  The checker mutates the table in place,
     also when it raises.
   The Self entry of the table is not modelled (the annotation vocabulary has no typing.Self).
   Bodies are abstract: they return the value the history prescribes and do not call methods
   of the same instance.  No proofs here.                                                      *)
From Coq Require Import List Arith Bool ZArith.
From PV Require Import Base.Exn Base.Values Base.Ann Model.CheckerCfg Model.Checker.
Import ListNotations.

Record msig := { ms_params : list ann; ms_ret : ann }.

(* variadic parameters (def m(self, p.., *args: VA, **kwargs: VK)): FunctionCall._check_types_args /
   _check_types_kwargs assert every collected positional value against VA and every surplus keyword value
   against VK - after the named parameters, in call order, each with a freshly obtained table
   (self.type_vars, the property).  So a call that collects n positional and k keyword values is a call of
   the signature with n + k additional positions: *)
Definition expand_variadic (sg : msig) (va : option ann) (n : nat) (vk : option ann) (k : nat) : msig :=
  {| ms_params := ms_params sg
                  ++ match va with Some a => repeat a n | None => [] end
                  ++ match vk with Some a => repeat a k | None => [] end;
     ms_ret := ms_ret sg |}.

Inductive clskind :=
| KPlain                         (* ordinary class, methods decorated with @pedantic one by one *)
| KPedantic                      (* @pedantic_class, Generic not among the bases *)
| KGeneric (tparams : list nat). (* @pedantic_class class C(Generic[T1, ..., Tn]) : ids of T1..Tn *)

(* cd_kind: how the implementation treats the class; cd_tparams: the type parameters the class
   declares (what Cls[X] binds; for KGeneric ids the same list) *)
Record cdef := { cd_kind : clskind; cd_tparams : list nat; cd_init : option msig; cd_methods : list msig }.
Record world := { w_classes : list cdef; w_funs : list msig }.

(* an instance: its class, the arguments of __orig_class__ (once it exists), the attribute __pedantic_a42__ *)
Record inst := { i_cls : nat; i_targs : option (list ann); i_table : tvenv }.
Definition state := list (nat * inst).      (* slot -> instance *)

Fixpoint st_get (st : state) (s : nat) : option inst :=
  match st with
  | [] => None
  | (k, i) :: st' => if Nat.eqb s k then Some i else st_get st' s
  end.
Fixpoint st_set (st : state) (s : nat) (i : inst) : state :=
  match st with
  | [] => [(s, i)]
  | (k, j) :: st' => if Nat.eqb s k then (k, i) :: st' else (k, j) :: st_set st' s i
  end.

(* what a type argument X of Cls[X] is stored as: _matches_bound_type treats a plain class by
   isinstance and everything else (typing.Any included) by _is_instance *)
Definition bind_of (x : ann) : tvbind := match x with ACls c => BCls c | a => BAnn a end.

Fixpoint zip_bind (ids : list nat) (xs : list ann) : tvenv :=
  match ids, xs with
  | i :: ids', x :: xs' => (i, bind_of x) :: zip_bind ids' xs'
  | _, _ => []
  end.

(* dict union: fifo updated with generics *)
Definition merge (fifo gens : tvenv) : tvenv := fold_left (fun tv kb => tv_set tv (fst kb) (snd kb)) gens fifo.

Definition generics_of (ids : list nat) (targs : option (list ann)) : tvenv :=
  match targs with Some xs => zip_bind ids xs | None => [] end.

(* the table self.type_vars yields, given the stored attribute *)
Definition refresh_of (k : clskind) (targs : option (list ann)) : tvenv -> tvenv :=
  match k with
  | KPlain => fun tb => tb
  | KPedantic => fun _ => []
  | KGeneric ids => fun tb => merge tb (generics_of ids targs)
  end.
(* the table a call starts from / what the attribute holds afterwards *)
Definition start_of (k : clskind) (tb : tvenv) : tvenv := match k with KPlain => [] | _ => tb end.
Definition store_of (k : clskind) (old new : tvenv) : tvenv := match k with KPlain => old | _ => new end.

Inductive step :=
| SNew (slot cls : nat) (xs : list ann) (args : list value)          (* slot = Cls[xs](keyword args) *)
| SCall (slot meth : nat) (args : list value) (ret : value)          (* slot.meth(keyword args), the body returns ret *)
| SFun (f : nat) (args : list value) (ret : value).                  (* f(keyword args), the body returns ret *)

Inductive sres := ROk | RExn (e : exn) | RAbsent.   (* RAbsent: the step addresses something that does not exist *)

Section Run.
  Variable cfg : checker_cfg.
  Variable ctx : nat -> option cls.

  Definition amatch := assert_matches1 cfg ctx.

  (* _check_type_param: one assert_value_matches_type per parameter, in signature order, each
     with a freshly obtained table.  Calls are keyword calls that fill every parameter
     (an ill-formed call is answered with TypeError, never generated). *)
  Fixpoint check_seq (refresh : tvenv -> tvenv) (ps : list ann) (vs : list value) (tb : tvenv) : outcome unit * tvenv :=
    match ps, vs with
    | [], [] => (Ok tt, tb)
    | a :: ps', v :: vs' =>
        match amatch a v (refresh tb) with
        | (Ok _, tb') => check_seq refresh ps' vs' tb'
        | (Raise e, tb') => (Raise e, tb')
        end
    | _, _ => (Raise TypeErrorC, tb)
    end.

  (* FunctionCall.check_types: parameters, body, result *)
  Definition run_call (refresh : tvenv -> tvenv) (sg : msig) (args : list value) (ret : value) (tb : tvenv)
    : outcome unit * tvenv :=
    match check_seq refresh (ms_params sg) args tb with
    | (Ok _, tb1) => amatch (ms_ret sg) ret (refresh tb1)
    | r => r
    end.

  Definition to_sres (r : outcome unit) : sres := match r with Ok _ => ROk | Raise e => RExn e end.

  Definition run_step (w : world) (st : state) (s : step) : sres * state :=
    match s with
    | SFun f args ret =>
        match nth_error (w_funs w) f with
        | None => (RAbsent, st)
        | Some sg => (to_sres (fst (run_call (fun tb => tb) sg args ret [])), st)
        end
    | SNew slot c xs args =>
        match nth_error (w_classes w) c with
        | None => (RAbsent, st)
        | Some cd =>
            match cd_init cd with
            | None => (ROk, st_set st slot {| i_cls := c; i_targs := Some xs; i_table := [] |})
            | Some sg =>
                (* __init__ runs before __orig_class__ is set *)
                match run_call (refresh_of (cd_kind cd) None) sg args VNone [] with
                | (Ok _, tb) => (ROk, st_set st slot {| i_cls := c; i_targs := Some xs; i_table := store_of (cd_kind cd) [] tb |})
                | (Raise e, _) => (RExn e, st)
                end
            end
        end
    | SCall slot m args ret =>
        match st_get st slot with
        | None => (RAbsent, st)
        | Some i =>
            match nth_error (w_classes w) (i_cls i) with
            | None => (RAbsent, st)
            | Some cd =>
                match nth_error (cd_methods cd) m with
                | None => (RAbsent, st)
                | Some sg =>
                    let k := cd_kind cd in
                    let r := run_call (refresh_of k (i_targs i)) sg args ret (start_of k (i_table i)) in
                    (to_sres (fst r),
                     st_set st slot {| i_cls := i_cls i; i_targs := i_targs i; i_table := store_of k (i_table i) (snd r) |})
                end
            end
        end
    end.

  Fixpoint run_from (w : world) (st : state) (h : list step) : list sres * state :=
    match h with
    | [] => ([], st)
    | s :: h' =>
        let r := run_step w st s in
        let r' := run_from w (snd r) h' in
        (fst r :: fst r', snd r')
    end.

  Definition run_history (w : world) (h : list step) : list sres := fst (run_from w [] h).
End Run.
