(* The wrapper generators of pedantic/decorators/fn_deco_context_manager.py.

   translator/t_ctx.py turns the bodies of `safe_contextmanager.wrapper` and
   `safe_async_contextmanager.wrapper` into programs of the statement language below
   (Gen/CtxShape.v, regenerated on every run).  This file gives the language its meaning:
   a program is run as the frame of a generator object (Model/Generator.v), the generator
   object is driven by contextlib (Model/Contextlib.v), and contextlib is driven by the
   with statement.  Also here: the decoration-time guards.  No proofs here.

   sync and async programs use the same constructors: in the async program `SNext v`
   stands for `await anext(v)` and the frame is that of an async generator; the variant
   parameter selects the generator protocol.  The translator refuses a sync wrapper that
   uses anext/await and an async wrapper that uses next.                                  *)
From Coq Require Import List Arith Bool.
From PV Require Import Base.Exn Model.Generator Model.Contextlib.
Import ListNotations.

Inductive fwd :=
| FwdSame       (* f( *args, **kwargs ) with the wrapper's own ( *args, **kwargs ) *)
| FwdOther.     (* f called with anything else *)

Inductive stmt :=
| SAssignCall (v : nat) (f : fwd)          (* v = f(...) *)
| SYieldNext (v : nat)                     (* yield next(v) *)
| SNext (v : nat)                          (* next(v) *)
| SPass
| SReraise                                 (* raise *)
| STryFinally (body final : block)
| STryExcept (body : block) (hs : handlers)
with block := BNil | BCons (s : stmt) (b : block)
with handlers := HNil | HCons (classes : list exn) (body : block) (hs : handlers).
(* `except:` is `except BaseException:`; a try with handlers and finally is
   STryFinally [STryExcept body hs] final *)

Definition env := list (nat * genobj).

Fixpoint lookup (v : nat) (e : env) : option genobj :=
  match e with
  | [] => None
  | (x, g) :: e' => if Nat.eqb x v then Some g else lookup v e'
  end.
Definition bind_var (v : nat) (g : genobj) (e : env) : env := (v, g) :: e.

Section Interp.
  Variable var : variant.
  Variable use : nat.            (* which use of the decorated function (journal tag) *)
  Variable a : nat.              (* identity of the caller's arguments *)
  Variable f : gbeh.             (* behaviour of the decorated generator function *)

  Definition kont := env -> world -> sus.
  Definition xkont := exc -> env -> world -> sus.

  Definition call_f (fw : fwd) : genobj :=
    gen_of use (match fw with FwdSame => Some a | FwdOther => None end) f.

  (* next(v) inside the frame: value or exception, the generator object in v moves on *)
  Definition do_next (v : nat) (e : env) (w : world) : res val * env * world :=
    match lookup v e with
    | None => let (x, w') := alloc NameErrorC OInterp None w in (RRaise x, e, w')
    | Some g => match g_next var g w with (r, g', w') => (r, bind_var v g' e, w') end
    end.

  (* hd: the exception being handled (for a bare raise) *)
  Fixpoint exec (s : stmt) (hd : option exc) (k : kont) (kx : xkont) (e : env) (w : world) {struct s} : sus :=
    match s with
    | SAssignCall v fw => k (bind_var v (call_f fw) e) w
    | SYieldNext v =>
        match do_next v e w with
        | (ROk x, e', w') =>
            SusYield x w' (fun r w'' => match r with RThrow ex => kx ex e' w'' | _ => k e' w'' end)
        | (RRaise ex, e', w') => kx ex e' w'
        end
    | SNext v =>
        match do_next v e w with
        | (ROk _, e', w') => k e' w'
        | (RRaise ex, e', w') => kx ex e' w'
        end
    | SPass => k e w
    | SReraise =>
        match hd with
        | Some ex => kx ex e w
        | None => let (x, w') := alloc RuntimeErrorC OInterp None w in kx x e w'
        end
    | STryFinally b fin =>
        exec_block b hd
          (fun e' w' => exec_block fin hd k kx e' w')
          (fun ex e' w' => exec_block fin (Some ex) (fun e'' w'' => kx ex e'' w'') kx e' w')
          e w
    | STryExcept b hs =>
        exec_block b hd k (fun ex e' w' => exec_handlers hs ex k kx e' w') e w
    end
  with exec_block (b : block) (hd : option exc) (k : kont) (kx : xkont) (e : env) (w : world) {struct b} : sus :=
    match b with
    | BNil => k e w
    | BCons s b' => exec s hd (fun e' w' => exec_block b' hd k kx e' w') kx e w
    end
  with exec_handlers (hs : handlers) (ex : exc) (k : kont) (kx : xkont) (e : env) (w : world) {struct hs} : sus :=
    match hs with
    | HNil => kx ex e w
    | HCons cs hb hs' =>
        if existsb (fun c => isinst ex c) cs then exec_block hb (Some ex) k kx e w
        else exec_handlers hs' ex k kx e w
    end.

  (* the frame of wrapper( *args, **kwargs ) *)
  Definition wrapper_frame (p : block) : world -> sus :=
    exec_block p None (fun _ w => SusReturn w) (fun ex _ w => SusRaise ex w) [].

  (* decorated( *args, **kwargs ): contextlib stores wrapper( *args, **kwargs ), nothing runs *)
  Definition make_cm (p : block) : genobj := GStart (wrapper_frame p).
End Interp.

(* ---- the with statement ------------------------------------------------------------------ *)

(* how a block of statements ends *)
Inductive wres :=
| WNormal
| WEarly            (* return / break / continue leaving the block *)
| WRaise (e : exc).

Definition body_t := val -> world -> wres * world.

(*  with decorated( *args, **kwargs ) as x: <body>          (PEP 343; async with alike)
      mgr = decorated(...); x = mgr.__enter__()
      try: <body>
      except: if not mgr.__exit__( *sys.exc_info() ): raise
      else / on return, break: mgr.__exit__(None, None, None)
    with_gen: mgr.gen is g0 (contextmanager(func)( *args ) stores func( *args ))             *)
Definition with_gen (var : variant) (g0 : genobj) (body : body_t) (w : world) : wres * world :=
  match cm_enter var g0 w with
  | (RRaise e, _, w1) => (WRaise e, w1)
  | (ROk x, g1, w1) =>
      match body x w1 with
      | (WRaise e, w2) =>
          match cm_exit var g1 (Some e) w2 with
          | (ROk true, _, w3) => (WNormal, w3)
          | (ROk false, _, w3) => (WRaise e, w3)
          | (RRaise e', _, w3) => (WRaise e', w3)
          end
      | (o, w2) =>
          match cm_exit var g1 None w2 with
          | (ROk _, _, w3) => (o, w3)
          | (RRaise e', _, w3) => (WRaise e', w3)
          end
      end
  end.

Definition with_stmt (var : variant) (p : block) (use a : nat) (f : gbeh) (body : body_t) (w : world)
  : wres * world :=
  with_gen var (make_cm var use a f p) body w.

(* one use of a decorated plain generator *)
Record use_t := mkUse { u_id : nat; u_args : nat; u_setup : setup_oc; u_val : val; u_cleanup : cleanup_oc }.

Definition use_beh (u : use_t) : gbeh := plain_gen (u_setup u) (u_val u) (u_cleanup u).

Definition with_use (var : variant) (p : block) (u : use_t) (body : body_t) (w : world) : wres * world :=
  with_stmt var p (u_id u) (u_args u) (use_beh u) body w.

(* with u1 as _: with u2 as _: ... <body>   (the innermost binding is handed to the body) *)
Fixpoint with_nest (var : variant) (p : block) (us : list use_t) (body : body_t) (x0 : val) (w : world)
  : wres * world :=
  match us with
  | [] => body x0 w
  | u :: us' => with_use var p u (fun x w' => with_nest var p us' body x w') w
  end.

(* a with-body described by data *)
Inductive body_oc := BodyNormal | BodyEarly | BodyRaise (c : exn).

Definition simple_body (tag : nat) (o : body_oc) : body_t := fun x w =>
  let w1 := emit (EvBody tag x) w in
  match o with
  | BodyNormal => (WNormal, w1)
  | BodyEarly => (WEarly, w1)
  | BodyRaise c => let (e, w2) := alloc c (OBody tag) None w1 in (WRaise e, w2)
  end.

(* repeated use: statement after statement, each inside its own try/except so that the next one
   runs whatever the previous one did; results in order *)
Fixpoint with_seq (var : variant) (p : block) (items : list (list use_t * body_oc)) (w : world)
  : list wres * world :=
  match items with
  | [] => ([], w)
  | (us, o) :: rest =>
      let (r, w1) := with_nest var p us (simple_body (match us with u :: _ => u_id u | [] => 0 end) o) 0 w in
      let (rs, w2) := with_seq var p rest w1 in
      (r :: rs, w2)
  end.

(* ---- decoration time ---------------------------------------------------------------------- *)

Inductive fkind := FPlain | FCoroutine | FGenerator | FAsyncGenerator.

(* inspect.isgeneratorfunction / inspect.isasyncgenfunction on the four kinds of `def` *)
Definition is_genfn (k : fkind) : bool := match k with FGenerator => true | _ => false end.
Definition is_asyncgenfn (k : fkind) : bool := match k with FAsyncGenerator => true | _ => false end.

(* The circumstances of a decoration: what kind of `def` is decorated, the state of the global switch
   (pedantic.env_var_logic.is_enabled(): ENABLE_PEDANTIC unset or "1") and whether the interpreter strips
   assert statements (python -O / -OO / PYTHONOPTIMIZE).  The property text makes no exception for either,
   so the theorems quantify over all of them. *)
Record dctx := mkDctx { dc_kind : fkind; dc_enabled : bool; dc_optimize : bool }.

Inductive gcond :=
| CIsGenFn | CIsAsyncGenFn
| CIsEnabled                        (* is_enabled() *)
| CNot (c : gcond) | CAnd (a b : gcond) | COr (a b : gcond).

(* a `return` before the wrapper is defined: the decorated function without the safety wrapper *)
Inductive early_ret :=
| EarlyContextmanagerF              (* return contextmanager(f) *)
| EarlyAsyncContextmanagerF         (* return asynccontextmanager(f) *)
| EarlyBareF.                       (* return f *)

Inductive gstmt :=
| GIf (c : gcond) (body : gblock)
| GRaise (c : exn)
| GAssert (c : gcond)               (* assert c, msg: nothing at all under -O *)
| GReturn (r : early_ret)
with gblock := GNil | GCons (s : gstmt) (b : gblock).

Fixpoint gcond_eval (c : gcond) (x : dctx) : bool :=
  match c with
  | CIsGenFn => is_genfn (dc_kind x)
  | CIsAsyncGenFn => is_asyncgenfn (dc_kind x)
  | CIsEnabled => dc_enabled x
  | CNot c' => negb (gcond_eval c' x)
  | CAnd a b => gcond_eval a x && gcond_eval b x
  | COr a b => gcond_eval a x || gcond_eval b x
  end.

(* GFall: falls through - the wrapper is defined and `d_ret` is returned (the safe path);
   GRaised c: raises an instance of c; GReturned r: leaves early with r *)
Inductive gres := GFall | GRaised (c : exn) | GReturned (r : early_ret).

Fixpoint grun (s : gstmt) (x : dctx) : gres :=
  match s with
  | GRaise c => GRaised c
  | GAssert c => if dc_optimize x then GFall else if gcond_eval c x then GFall else GRaised AssertionErrorC
  | GReturn r => GReturned r
  | GIf c b => if gcond_eval c x then grun_block b x else GFall
  end
with grun_block (b : gblock) (x : dctx) : gres :=
  match b with
  | GNil => GFall
  | GCons s b' => match grun s x with GFall => grun_block b' x | r => r end
  end.

(* what `return <expr>` of the decorator hands back *)
Inductive ret_shape := RetContextmanager | RetAsyncContextmanager | RetBare.

Record deco := mkDeco {
  d_guards : gblock;
  d_prog : block;
  d_async_def : bool;          (* wrapper is `async def` *)
  d_wraps : bool;              (* @wraps(f) on wrapper *)
  d_ret : ret_shape;
}.
