(* Executable model of the external sources of @validate: has_value / load_value of
   EnvironmentVariableParameter (parameters/environment_variable_parameter.py) and of FlaskJsonParameter,
   FlaskFormParameter, FlaskGetParameter, FlaskHeaderParameter, GenericFlaskDeserializer (parameters/flask_parameters.py).

   No proofs here.  What each class does is a value of the small description language below; the values are
   regenerated from /repo by translator/t_validate_sources.py on every run (Gen/ValidateSources.v; the methods are
   resolved along the class hierarchy by the translator: FlaskGetParameter takes has_value from FlaskParameter and
   overrides load_value ...).  This file interprets a description over a *world*:

     request   None = outside a request context (every access to `request` raises RuntimeError), else
               json     None = request.is_json is false; Some JNull = the body is the JSON document null;
                        Some (JObject ms) = a JSON object (other JSON documents - arrays, scalars - are not modelled)
               form     werkzeug MultiDict: key -> list of values
               args     werkzeug MultiDict of the query string
               headers  name/value pairs; a name is looked up through its WSGI key (`hkey`: upper-cased, '-' as '_')
     environ   os.environ: variable -> text

   Names of parameters, headers, form fields and environment variables are of type `name`; str.strip, the WSGI key of
   a header name, the construction of a Python list from its items and the user's `from_json` enter as Section variables. *)
From Coq Require Import List Arith Bool.
From PV Require Import Base.Exn Model.ValidateSem.
Import ListNotations.

(* ---------- description language (filled by the translator) ---------- *)
Inductive req_attr := RJson | RForm | RArgs | RHeaders.

(* body of get_dict *)
Inductive get_dict_def :=
| GDAttr (a : req_attr)                      (* return request.<a> *)
| GDEmptyUnlessJson (rest : get_dict_def).   (* if not request.is_json: return {} ; then rest *)

Inductive has_def :=
| HNameInDict (none_test : bool)   (* dict_ = self.get_dict(); return [dict_ is not None and] self.name in dict_ *)
| HIsJson                          (* return request.is_json *)
| HVarInEnviron.                   (* return self._env_var_name in os.environ *)

Inductive deser_action :=
| DARaiseParamNoName               (* raise ParameterException.from_validator_exception(exception=ex, parameter_name='') *)
| DAIfCatchRaiseParamElseReraise   (* if self._catch_exceptions: self.raise_exception(msg=str(ex)) ; raise ex *)
| DAReraise.

Inductive load_def :=
| LDictItem                        (* dict_ = self.get_dict(); return dict_[self.name] *)
| LArgsGetlist                     (* value = request.args.getlist(self.name); if self.value_type == list: return value; return value[0] *)
| LEnvironItem (strip : bool)      (* return os.environ[self._env_var_name][.strip()] *)
| LFromJson (handlers : list (exn * deser_action)).   (* try: return self._cls.from_json(request.json) except ... *)

Record source_class := {
  sc_get_dict : option get_dict_def;   (* None: the class has no get_dict *)
  sc_has : has_def;
  sc_load : load_def;
  sc_exc : exn }.                      (* exception_type *)

Section Sources.
Variable value : Type.
Variable hkey : name -> name.
Variable strip : value -> value.
Variable of_list : list value -> value.

Inductive json_body := JNull | JObject (members : list (name * value)).

Variable from_json : json_body -> outcome value.

Definition mdict := list (name * list value).

Record frequest := {
  fr_json : option json_body;
  fr_form : mdict;
  fr_args : mdict;
  fr_headers : list (name * value) }.

Record world := { wd_request : option frequest; wd_environ : list (name * value) }.

(* one source object: its class, its key (self.name, or self._env_var_name), value_type == list, catch_exception *)
Record source := { s_cls : source_class; s_key : name; s_list : bool; s_catch : bool }.

Fixpoint assoc_by {A} (eqk : name -> bool) (d : list (name * A)) : option A :=
  match d with
  | [] => None
  | (k, v) :: d' => if eqk k then Some v else assoc_by eqk d'
  end.
Definition has_key {A} (eqk : name -> bool) (d : list (name * A)) : bool :=
  match assoc_by eqk d with Some _ => true | None => false end.

(* what get_dict returned *)
Inductive dview :=
| DVNone                                   (* None *)
| DVDict (d : list (name * value))         (* a dict *)
| DVMulti (d : mdict)                      (* a MultiDict *)
| DVHeaders (d : list (name * value)).     (* EnvironHeaders *)

Definition eval_attr (a : req_attr) (rq : frequest) : outcome dview :=
  match a with
  | RJson => match fr_json rq with
             | Some (JObject ms) => Ok (DVDict ms)
             | Some JNull => Ok DVNone
             | None => Raise ExceptionC          (* request.json of a request that is not JSON: UnsupportedMediaType *)
             end
  | RForm => Ok (DVMulti (fr_form rq))
  | RArgs => Ok (DVMulti (fr_args rq))
  | RHeaders => Ok (DVHeaders (fr_headers rq))
  end.

Fixpoint eval_get_dict (g : get_dict_def) (rq : frequest) : outcome dview :=
  match g with
  | GDAttr a => eval_attr a rq
  | GDEmptyUnlessJson rest => match fr_json rq with None => Ok (DVDict []) | Some _ => eval_get_dict rest rq end
  end.

(* `k in d` *)
Definition dv_contains (d : dview) (k : name) : outcome bool :=
  match d with
  | DVNone => Raise TypeErrorC
  | DVDict ms => Ok (has_key (Nat.eqb k) ms)
  | DVMulti ms => Ok (has_key (Nat.eqb k) ms)
  | DVHeaders hs => Ok (has_key (fun h => Nat.eqb (hkey h) (hkey k)) hs)
  end.

(* `d[k]`: a MultiDict gives the first value of the list *)
Definition dv_item (d : dview) (k : name) : outcome value :=
  match d with
  | DVNone => Raise TypeErrorC
  | DVDict ms => match assoc_by (Nat.eqb k) ms with Some v => Ok v | None => Raise KeyErrorC end
  | DVMulti ms => match assoc_by (Nat.eqb k) ms with Some (v :: _) => Ok v | _ => Raise KeyErrorC end
  | DVHeaders hs => match assoc_by (fun h => Nat.eqb (hkey h) (hkey k)) hs with Some v => Ok v | None => Raise KeyErrorC end
  end.

Definition md_getlist (d : mdict) (k : name) : list value :=
  match assoc_by (Nat.eqb k) d with Some l => l | None => [] end.

Definition the_request (w : world) : outcome frequest :=
  match wd_request w with Some rq => Ok rq | None => Raise RuntimeErrorC end.

Definition src_get_dict (s : source) (w : world) : outcome dview :=
  match sc_get_dict (s_cls s) with
  | None => Raise AttributeErrorC
  | Some g => match the_request w with Ok rq => eval_get_dict g rq | Raise e => Raise e end
  end.

(* has_value() *)
Definition src_has (s : source) (w : world) : outcome bool :=
  match sc_has (s_cls s) with
  | HNameInDict none_test =>
      match src_get_dict s w with
      | Raise e => Raise e
      | Ok DVNone => if none_test then Ok false else Raise TypeErrorC
      | Ok d => dv_contains d (s_key s)
      end
  | HIsJson => match the_request w with
               | Ok rq => Ok (match fr_json rq with Some _ => true | None => false end)
               | Raise e => Raise e
               end
  | HVarInEnviron => Ok (has_key (Nat.eqb (s_key s)) (wd_environ w))
  end.

Fixpoint dlookup (t : list (exn * deser_action)) (e : exn) : deser_action :=
  match t with
  | [] => DAReraise
  | (c, a) :: t' => if derives e c then a else dlookup t' e
  end.

(* load_value(): the value, or the exception class and its parameter_name attribute *)
Definition src_load (s : source) (w : world) : wres value :=
  match sc_load (s_cls s) with
  | LDictItem =>
      match src_get_dict s w with
      | Raise e => WRaise e None
      | Ok d => match dv_item d (s_key s) with Ok v => WOk v | Raise e => WRaise e None end
      end
  | LArgsGetlist =>
      match the_request w with
      | Raise e => WRaise e None
      | Ok rq =>
          let l := md_getlist (fr_args rq) (s_key s) in
          if s_list s then WOk (of_list l)
          else match l with v :: _ => WOk v | [] => WRaise IndexErrorC None end
      end
  | LEnvironItem st =>
      match assoc_by (Nat.eqb (s_key s)) (wd_environ w) with
      | Some raw => WOk (if st then strip raw else raw)
      | None => WRaise KeyErrorC None
      end
  | LFromJson handlers =>
      (* everything inside the try block: `request` outside a request context raises RuntimeError, request.json of a
         request that is not JSON raises UnsupportedMediaType (an HTTPException), then the user's from_json *)
      let attempt :=
        match the_request w with
        | Raise e => Raise e
        | Ok rq => match fr_json rq with None => Raise ExceptionC | Some body => from_json body end
        end in
      match attempt with
      | Ok v => WOk v
      | Raise e =>
          match dlookup handlers e with
          | DARaiseParamNoName => WRaise ParameterExceptionC None
          | DAIfCatchRaiseParamElseReraise =>
              if s_catch s then WRaise (sc_exc (s_cls s)) (Some (s_key s)) else WRaise e None
          | DAReraise => WRaise e None
          end
      end
  end.

(* the source as _wrapper_content consults it (ValidateSem.ext); has_value raising is outside that interface *)
Definition ext_of_source (s : source) (w : world) : outcome (ext value) :=
  match src_has s w with
  | Raise e => Raise e
  | Ok h => Ok {| e_has := h; e_load := match src_load s w with WOk v => Ok v | WRaise e _ => Raise e end |}
  end.

(* a declaration whose external Parameters are bound to sources: (Parameter, its source if it has one) *)
Definition sparam := (param value * option source)%type.

Definition with_source (w : world) (sp : sparam) : outcome (param value) :=
  match snd sp with
  | None => Ok (fst sp)
  | Some s =>
      match ext_of_source s w with
      | Raise e => Raise e
      | Ok x => Ok {| p_name := p_name (fst sp); p_convert := p_convert (fst sp); p_chain := p_chain (fst sp);
                      p_required := p_required (fst sp); p_default := p_default (fst sp); p_exc := p_exc (fst sp);
                      p_ext := Some x; p_flask_json := p_flask_json (fst sp) |}
      end
  end.

Fixpoint bind_sources (w : world) (sps : list sparam) : outcome (list (param value)) :=
  match sps with
  | [] => Ok []
  | sp :: rest =>
      match with_source w sp with
      | Raise e => Raise e
      | Ok p => match bind_sources w rest with Ok ps => Ok (p :: ps) | Raise e => Raise e end
      end
  end.

End Sources.

Arguments JNull {value}.
Arguments JObject {value} _.
Arguments DVNone {value}.
Arguments DVDict {value} _.
Arguments DVMulti {value} _.
Arguments DVHeaders {value} _.
Arguments fr_json {value} _.
Arguments fr_form {value} _.
Arguments fr_args {value} _.
Arguments fr_headers {value} _.
Arguments wd_request {value} _.
Arguments wd_environ {value} _.

(* ---------- the descriptions the theorems are proved for ---------- *)
Definition InvalidHeaderRefC : exn := ParameterExceptionC ++ [0].

Definition ref_flask_json : source_class :=
  {| sc_get_dict := Some (GDEmptyUnlessJson (GDAttr RJson)); sc_has := HNameInDict true; sc_load := LDictItem; sc_exc := ParameterExceptionC |}.
Definition ref_flask_form : source_class :=
  {| sc_get_dict := Some (GDAttr RForm); sc_has := HNameInDict true; sc_load := LDictItem; sc_exc := ParameterExceptionC |}.
Definition ref_flask_get : source_class :=
  {| sc_get_dict := Some (GDAttr RArgs); sc_has := HNameInDict true; sc_load := LArgsGetlist; sc_exc := ParameterExceptionC |}.
Definition ref_flask_header : source_class :=
  {| sc_get_dict := Some (GDAttr RHeaders); sc_has := HNameInDict true; sc_load := LDictItem; sc_exc := InvalidHeaderRefC |}.
Definition ref_deserializer : source_class :=
  {| sc_get_dict := None; sc_has := HIsJson;
     sc_load := LFromJson [(ValidatorExceptionC, DARaiseParamNoName); (ExceptionC, DAIfCatchRaiseParamElseReraise)];
     sc_exc := ParameterExceptionC |}.
Definition ref_environment : source_class :=
  {| sc_get_dict := None; sc_has := HVarInEnviron; sc_load := LEnvironItem true; sc_exc := ParameterExceptionC |}.
Definition ref_env_var_rule (given : option name) (n : name) : name := match given with Some g => g | None => n end.
