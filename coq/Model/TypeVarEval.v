(* Evaluation entry points of the C07 correspondence (harness/c07.py): model outcome classes and
   the verdicts of Spec/TypeVarSpec.v, as integer codes.                                    *)
From Coq Require Import List Arith Bool ZArith.
From PV Require Import Base.Exn Base.Values Base.Ann Model.CheckerCfg Model.Checker Spec.Conforms Gen.CheckerTables
  Model.CheckerEval.
From PV Require Import Model.GenericInstance Spec.TypeVarSpec Model.TypeVarShapeCfg Gen.TypeVarShape.
Import ListNotations.
Open Scope Z_scope.

Definition cfg0 := Gen.CheckerTables.checker_cfg.

(* a class that is generic by inheritance only (class Sub(Base[int, T])): treated as generic iff
   is_instance_of_generic_class looks at __parameters__ (regenerated flag) *)
Definition kind_gensub (ids : list nat) : clskind :=
  if sh_generic_by_parameters Gen.TypeVarShape.tv_shape_gen then KGeneric ids else KPedantic.

Definition enc_sres (r : sres) : Z :=
  match r with ROk => 0 | RExn e => enc_exn e | RAbsent => 9 end.
Definition enc_spec (x : option (verdict * bool)) : list Z :=
  match x with
  | Some (v, mm) => [enc_verdict v; enc_b mm]
  | None => [9; 0]
  end.

(* stream `typevars`: one @pedantic function, several independent calls.
   per call: [model outcome; spec verdict; must the rejection be a TypeVar mismatch] *)
Definition eval_fun (cl : list (nat * cls)) (sg : msig) (calls : list (list value * value)) : list Z :=
  let ctx := ctx_of cl in
  flat_map (fun c =>
              enc_sres (to_sres (fst (run_call cfg0 ctx (fun tb => tb) sg (fst c) (snd c) [])))
              :: enc_spec (Some (call_spec ctx xenv_none (sig_positions sg) (fst c ++ [snd c]),
                                 must_be_mismatch ctx xenv_none (sig_positions sg) (fst c ++ [snd c])))) calls.

(* stream `generic-history`: per step [model outcome; spec verdict; mismatch flag].  The
   specification is told which instances exist (slot -> class, X's), nothing else. *)
Fixpoint eval_steps (ctx : nat -> option cls) (w : world) (st : state) (cr : created) (h : list step) : list Z :=
  match h with
  | [] => []
  | s :: h' =>
      let r := run_step cfg0 ctx w st s in
      let cr' := match s, fst r with
                 | SNew slot k xs _, ROk => (slot, (k, xs)) :: cr
                 | _, _ => cr
                 end in
      (enc_sres (fst r) :: enc_spec (step_spec ctx w cr s)) ++ eval_steps ctx w (snd r) cr' h'
  end.

Definition eval_history (cl : list (nat * cls)) (w : world) (h : list step) : list Z :=
  eval_steps (ctx_of cl) w [] [] h.
