(* Evaluation entry points used by the correspondence check of C20 (harness/c20.py).
   Results are lists of small integer codes (never strings); the layout is parsed sequentially
   by the driver.  No proofs here.                                                          *)
From Coq Require Import List ZArith Bool String.
From PV Require Import Base.Exn Model.Mixins Spec.MixinsSpec Gen.Mixins.
Import ListNotations.
Open Scope string_scope.
Open Scope Z_scope.
Open Scope list_scope.

Definition exn_code (e : exn) : Z := fold_left (fun a x => a * 50 + Z.of_nat x + 1) e 0.

(* tokens (type arguments / TypeVars), decorator values *)
Definition vcode (v : val) : Z :=
  match v with
  | VTok n => Z.of_nat n
  | VInt z => z
  | VNone => -5
  | VEnumCls _ => -6
  | _ => -9
  end.

Definition enc_kvs (d : list (val * val)) : list Z :=
  Z.of_nat (List.length d) :: flat_map (fun kv => [vcode (fst kv); vcode (snd kv)]) d.

(* [0; n; k1; v1; ...]  a dict   |  [1; code]  an exception  |  [2; v]  another value *)
Definition enc_outcome (r : outcome val) : list Z :=
  match r with
  | Ok (VDict d) => 0 :: enc_kvs d
  | Ok v => [2; vcode v]
  | Raise e => [1; exn_code e]
  end.

(* [0; n; k1; v1; ...] exactly this dict | [1] AssertionError | [2; v] exactly this value | [9] nothing demanded *)
Definition enc_expect (e : expect) : list Z :=
  match e with
  | ExpDict kvs => 0 :: enc_kvs kvs
  | ExpAssertion => [1]
  | ExpNothing => [9]
  end.

Definition enc_expect1 (e : expect1) : list Z :=
  match e with
  | Exp1Val x => [2; vcode x]
  | Exp1Assertion => [1]
  | Exp1Nothing => [9]
  end.

Definition mk_world (classes : list (nat * option (list val) * list nat * list val)) (table : list (string * aent)) : world :=
  {| w_classes := map (fun t => (fst (fst (fst t)), {| c_own_ob := snd (fst (fst t)); c_mro := snd (fst t); c_params := snd t |})) classes;
     w_attrs := table;
     w_mixin := 1 |}.     (* the harness numbers GenericMixin 1 *)

Definition bz (b : bool) : Z := if b then 1 else 0.

(* Part A.  op 0: type_vars, 1: type_var.  oc: arguments of __orig_class__ when the instance has one.
   model outcome ++ demanded outcome ++ [does the class layout have the shape the driver says;
   does the model outcome meet the demand] *)
(* full = 1: the driver says the binding base got its parameters through a chain of forwarding / partially binding
   classes (at most 5 long: the call depth FUEL covers it) and ShBinding ts xs carries the declaring class's TypeVars and
   the arguments resolved along the chain;
   full = 2: regions of full statements that are false on the pinned tree (open findings): ShNonGeneric - a non-generic
   class with foreign parametrised bases; ShDirect _ None - an unparametrised instance of a class with type parameters;
   ShBinding ts xs - the binding class statement behind subclasses of foreign parametrised bases on the MRO *)
Definition shape_check (full : nat) (w : world) (c : nat) (o : option val) (s : shape) : bool :=
  match full with
  | O => shape_holds_b w c o s
  | 1%nat => match s with ShBinding ts xs => chain_binding_b w 5 c ts xs | _ => false end
  | _ => match s with
         | ShNonGeneric => non_generic_b w c
         | ShDirect _ None => has_params_b w c && match o with None => true | Some _ => false end
         | ShBinding ts xs => mro_chain_binding_b w 5 c ts xs
         | _ => false
         end
  end.

Definition eval_case_tv (classes : list (nat * option (list val) * list nat * list val)) (c : nat) (oc : option (list val))
           (op : nat) (s : shape) (full : nat) : list Z :=
  let w := mk_world classes [] in
  let o := match oc with Some xs => Some (VAlias (VCls c) xs) | None => None end in
  let self := VInst c o in
  match op with
  | O => let r := call_n progs w no_ext FUEL "type_vars" [self] in
         enc_outcome r ++ enc_expect (spec_type_vars s) ++ [bz (shape_check full w c o s); bz (meets r (spec_type_vars s))]
  | _ => let r := call_n progs w no_ext FUEL "type_var" [self] in
         enc_outcome r ++ enc_expect1 (spec_type_var s) ++ [bz (shape_check full w c o s); bz (meets1 r (spec_type_var s))]
  end.

(* Part B *)
Fixpoint index_of (t : string) (ms : list string) (i : Z) : Z :=
  match ms with
  | [] => -1
  | m :: r => if String.eqb m t then i else index_of t r (i + 1)
  end.

Definition enc_pairs (l : list (nat * val)) : list Z :=
  Z.of_nat (List.length l) :: flat_map (fun p => [Z.of_nat (fst p); vcode (snd p)]) l.

Definition enc_member (ms : list string) (kv : val * val) : list Z :=
  match kv with
  | (VStr t, VDict inner) =>
      index_of t ms 0 :: Z.of_nat (List.length inner) ::
      flat_map (fun p => [match fst p with VObj id _ => Z.of_nat id | _ => -1 end; vcode (snd p)]) inner
  | _ => [-2; 0]
  end.

(* journal of the transformations called while the class body runs:
   per call [callee; identity of the function; member index; value; does the function already carry member = value] *)
Definition enc_call (ms : list string) (c : val * list val) : list Z :=
  match c with
  | (callee, [VObj id attrs; VStr t; v]) =>
      [vcode callee; Z.of_nat id; index_of t ms 0; vcode v;
       bz (match assoc t attrs with Some x => val_eqb x v | None => false end)]
  | (callee, args) => [vcode callee; -1; -1; Z.of_nat (List.length args); 0]
  end.

Fixpoint decos_journal (fd : fundef) (cur : val) (ds : list deco) : journal :=
  match ds with
  | [] => []
  | d :: r =>
      let res := run_fundef [] empty_world ext_std no_call fd [cur; VStr (d_type d); d_val d; tr_callee (d_tr d)] in
      snd res ++ match fst res with Ok cur' => decos_journal fd cur' r | Raise _ => [] end
  end.

Definition def_journal (fd : fundef) (m : mdef) : journal :=
  match m_wrap m with
  | WPlain => decos_journal fd (VObj (m_id m) []) (m_inner m ++ m_outer m)
  | WGetter _ | WProperty _ => decos_journal fd (VObj (m_id m) []) (m_inner m) ++ decos_journal fd (VTok 0) (m_outer m)
  | _ => decos_journal fd (VObj (m_id m) []) (m_inner m) ++ decos_journal fd (VObj 0 []) (m_outer m)
  end.

(* two names for one function (alias = m1): the function was defined, and decorated, once *)
Fixpoint first_per_id (seen : list nat) (cd : list mdef) : list mdef :=
  match cd with
  | [] => []
  | m :: r => if existsb (Nat.eqb (m_id m)) seen then first_per_id seen r else m :: first_per_id (m_id m :: seen) r
  end.

(* [3; code]                         the class body raised
   [1; code]                         get_decorated_functions raised
   [0; n; n x (member; k; k x (id; v))]   the result
   then per member of ms the demanded pairs [k; k x (id; v)], then
   [in the domain of the statement; no raising descriptor; no decorated dunder name; spec verdict on the model],
   then the journal [n; n x 5 numbers] *)
Definition eval_case_dm (classes : list (nat * option (list val) * list nat * list val)) (c : nat)
           (ms : list string) (cd : list mdef) : list Z :=
  let demanded := flat_map (fun t => enc_pairs (decorated cd t)) ms in
  let jn := flat_map (def_journal prog_decorator_fun) (first_per_id [] cd) in
  let tail r := demanded ++ [bz (in_domain cd); bz (no_raising_getter cd); bz (no_decorated_dunder cd); bz (spec_decorated_ok ms cd r)]
                ++ Z.of_nat (List.length jn) :: flat_map (enc_call ms) jn in
  match build_table prog_decorator_fun cd with
  | Raise e => [3; exn_code e] ++ tail (Raise e)
  | Ok table =>
      let w := mk_world classes table in
      let r := call_n progs w no_ext FUEL "get_decorated_functions" [VInst c None] in
      match r with
      | Ok (VDict d) => 0 :: Z.of_nat (List.length d) :: flat_map (enc_member ms) d
      | Ok v => [2; vcode v]
      | Raise e => [1; exn_code e]
      end ++ tail r
  end.
