(* C14 - executable model of the built-in validators and of convert_value.  No proofs here.

   Every shape parameter (comparison operators and flag polarities, domain tests, the strip rule,
   loop shapes, handler tables, literal sets, the normalisation chain, REGEX_EMAIL) is a field of the
   record `shapes`; `gen_shapes` collects the values of Gen/Validators.v, which the translator
   regenerates from /repo on every run.  The theorems are proved for every `shapes` that satisfies the
   boolean predicate `shapes_good` (Proofs/ValidatorsGood.v); Props/C14.v checks it on `gen_shapes`.
   The model says what the code does, including what it does outside the documented input domain
   where that is simple (TypeError from comparing a non-number ...).                         *)
From Coq Require Import List ZArith Bool SpecFloat.
From PV Require Import Base.Exn Model.ValidatorsBase Model.ValidatorsRegex Gen.Validators.
Import ListNotations.
Open Scope Z_scope.

(* Email post_processor used by the configurations of the check: identity (the default), reversal, constant *)
Inductive ppkind : Type := PPId | PPRev | PPConst (s : str).
Definition pp_apply (p : ppkind) (s : str) : value :=
  match p with PPId => VStr s | PPRev => VStr (rev s) | PPConst c => VStr c end.

Inductive validator : Type :=
| WMin (bound : value) (incl : bool)
| WMax (bound : value) (incl : bool)
| WMinLen (n : Z)
| WMaxLen (n : Z)
| WNotEmpty (strip : bool)
| WEmail (pat : option re) (pp : ppkind)          (* None: the default REGEX_EMAIL *)
| WIsUuid (convert : bool)
| WIsEnum (members : list value) (int_enum convert upper : bool)   (* member i has value (nth i members) *)
| WMatch (pat : re)
| WIso
| WUnix
| WForEach (cs : list validator)
| WComposite (cs : list validator).

(* ---------- everything the translator reads from the source, as one record ------------------------ *)
Record shapes : Type := {
  s_vexc : exn;                           (* class raised by Validator.raise_exception *)
  s_h_validate_param : htable;
  s_min_tests : list btest;               (* the if / elif chain: each branch rejects *)
  s_min_dom : domkind;
  s_min_dom_fmt : list fmtarg;
  s_max_tests : list btest;
  s_max_dom : domkind;
  s_max_dom_fmt : list fmtarg;
  s_minlen_dom : domkind;
  s_minlen_op : cmpop;                    (* len(value) <op> self._length rejects *)
  s_minlen_dom_fmt : list fmtarg;
  s_minlen_fmt : list fmtarg;
  s_maxlen_dom : domkind;
  s_maxlen_op : cmpop;
  s_maxlen_dom_fmt : list fmtarg;
  s_maxlen_fmt : list fmtarg;
  s_notempty : notempty_shape;
  s_composite : composite_shape;
  s_foreach : foreach_shape;
  s_h_is_uuid : htable;
  s_h_is_uuid_fmt : list fmtarg;          (* what the message of the rejecting handler formats *)
  s_h_is_enum : htable;
  s_h_is_enum_fmt : list fmtarg;
  s_enum_float_guard : bool;              (* IntEnum: a float that is no whole number raises ValueError before int() *)
  s_h_iso : htable;
  s_h_iso_fmt : list fmtarg;
  s_unix_dom : domkind;
  s_unix_dom_fmt : list fmtarg;
  s_h_unix_float : htable;
  s_h_unix_float_fmt : list fmtarg;
  s_h_unix_add : htable;
  s_h_unix_add_fmt : list fmtarg;
  s_email_mode : matchmode;
  s_email_fmt : list fmtarg;
  s_regex_email : re;
  s_matchpattern_mode : matchmode;
  s_matchpattern_fmt : list fmtarg;
  s_cv_norm : list normop;
  s_cv_true : list str;
  s_cv_false : list str;
  s_cv_bool_else : exn;
  s_h_convert : htable;
  s_h_convert_norm : htable               (* handlers around str(value).strip().lower(); [] when it is not inside a try *)
}.

(* the shapes of the current source (Gen/Validators.v is regenerated on every run) *)
Definition gen_shapes : shapes := {|
  s_vexc := Gen.Validators.raise_exception_cls;
  s_h_validate_param := Gen.Validators.h_validate_param;
  s_min_tests := Gen.Validators.min_tests;
  s_min_dom := Gen.Validators.min_dom;
  s_min_dom_fmt := Gen.Validators.min_dom_fmt;
  s_max_tests := Gen.Validators.max_tests;
  s_max_dom := Gen.Validators.max_dom;
  s_max_dom_fmt := Gen.Validators.max_dom_fmt;
  s_minlen_dom := Gen.Validators.minlen_dom;
  s_minlen_op := Gen.Validators.minlen_op;
  s_minlen_dom_fmt := Gen.Validators.minlen_dom_fmt;
  s_minlen_fmt := Gen.Validators.minlen_fmt;
  s_maxlen_dom := Gen.Validators.maxlen_dom;
  s_maxlen_op := Gen.Validators.maxlen_op;
  s_maxlen_dom_fmt := Gen.Validators.maxlen_dom_fmt;
  s_maxlen_fmt := Gen.Validators.maxlen_fmt;
  s_notempty := Gen.Validators.notempty_cfg;
  s_composite := Gen.Validators.composite_cfg;
  s_foreach := Gen.Validators.foreach_cfg;
  s_h_is_uuid := Gen.Validators.h_is_uuid;
  s_h_is_uuid_fmt := Gen.Validators.h_is_uuid_fmt;
  s_h_is_enum := Gen.Validators.h_is_enum;
  s_h_is_enum_fmt := Gen.Validators.h_is_enum_fmt;
  s_enum_float_guard := Gen.Validators.enum_float_guard;
  s_h_iso := Gen.Validators.h_iso;
  s_h_iso_fmt := Gen.Validators.h_iso_fmt;
  s_unix_dom := Gen.Validators.unix_dom;
  s_unix_dom_fmt := Gen.Validators.unix_dom_fmt;
  s_h_unix_float := Gen.Validators.h_unix_float;
  s_h_unix_float_fmt := Gen.Validators.h_unix_float_fmt;
  s_h_unix_add := Gen.Validators.h_unix_add;
  s_h_unix_add_fmt := Gen.Validators.h_unix_add_fmt;
  s_email_mode := Gen.Validators.email_mode;
  s_email_fmt := Gen.Validators.email_fmt;
  s_regex_email := Gen.Validators.regex_email;
  s_matchpattern_mode := Gen.Validators.matchpattern_mode;
  s_matchpattern_fmt := Gen.Validators.matchpattern_fmt;
  s_cv_norm := Gen.Validators.cv_norm;
  s_cv_true := Gen.Validators.cv_true;
  s_cv_false := Gen.Validators.cv_false;
  s_cv_bool_else := Gen.Validators.cv_bool_else;
  s_h_convert := Gen.Validators.h_convert;
  s_h_convert_norm := Gen.Validators.h_convert_norm
|}.

(* ---------- the families ------------------------------------------------------------------------- *)
(* if <test1>: reject   elif <test2>: reject ...; return value
   `and` short-circuits: with the flag first the comparison (which may raise TypeError) is only evaluated
   when the flag holds; with the comparison first it is always evaluated *)
Fixpoint bound_tests (VE : exn) (tests : list btest) (bound : value) (incl : bool) (v : value)
    : outcome value :=
  match tests with
  | [] => Ok v
  | t :: ts' =>
      if bt_flag_first t && negb (Bool.eqb incl (bt_pol t)) then bound_tests VE ts' bound incl v
      else
        match py_cmp (bt_op t) v bound with
        | Raise e => Raise e
        | Ok b => if xorb b (bt_neg t) && Bool.eqb incl (bt_pol t) then reject VE (bt_fmt t) v bound
                  else bound_tests VE ts' bound incl v
        end
  end.
Definition bound_validate (VE : exn) (dom : domkind) (dom_fmt : list fmtarg) (tests : list btest) (bound : value) (incl : bool)
    (v : value) : outcome value :=
  if negb (in_dom dom v) then reject VE dom_fmt v bound else bound_tests VE tests bound incl v.

Definition length_validate (VE : exn) (dom : domkind) (op : cmpop) (dom_fmt fmt : list fmtarg) (n : Z) (v : value)
    : outcome value :=
  if negb (in_dom dom v) then reject VE dom_fmt v VNone else
  match py_len v with
  | None => Raise TypeErrorC
  | Some l => if z_cmp op l n then reject VE fmt v VNone else Ok v
  end.

Definition is_nil {A} (l : list A) : bool := match l with [] => true | _ => false end.

Definition notempty_validate (VE : exn) (c : notempty_shape) (strip : bool) (v : value) : outcome value :=
  match v with
  | VStr s =>
      let t := py_strip s in
      if is_nil (if ne_test_strips c then t else s) then reject VE (ne_fmt_str c) v VNone
      else Ok (match ne_return c with
               | NERetStripIfFlag => if strip then VStr t else v
               | NERetStripAlways => VStr t
               | NERetValue => v
               end)
  | _ =>
      if in_dom (ne_seq_dom c) v then
        match py_len v with
        | None => Raise TypeErrorC
        | Some l => if z_cmp (ne_seq_op c) l (ne_seq_lit c) then reject VE (ne_fmt_seq c) v VNone else Ok v
        end
      else reject VE (ne_fmt_else c) v VNone
  end.

Definition email_validate (VE : exn) (mode : matchmode) (fmt : list fmtarg) (dflt : re) (pat : option re) (pp : ppkind)
    (v : value) : outcome value :=
  match v with
  | VStr s =>
      let r := match pat with Some r => r | None => dflt end in
      if re_test mode r s then Ok (pp_apply pp s) else reject VE fmt v VNone
  | _ => Raise TypeErrorC
  end.

Fixpoint find_index (p : value -> bool) (l : list value) (i : Z) : option Z :=
  match l with
  | [] => None
  | x :: l' => if p x then Some i else find_index p l' (i + 1)
  end.

(* enum(value): a member of the enum itself, or the first member whose value == value; else ValueError *)
Definition enum_lookup (members : list value) (v : value) : outcome value :=
  match v with
  | VOpq k [i] =>
      if (k =? K_ENUM) && (0 <=? i) && (i <? zlen members) then Ok v else Raise ValueErrorC
  | _ => match find_index (py_eq v) members 0 with
         | Some i => Ok (VOpq K_ENUM [i])
         | None => Raise ValueErrorC
         end
  end.

Inductive ttype : Type := TBool | TInt | TFloat | TStr | TList | TDict.

Definition isinstance_t (v : value) (t : ttype) : bool :=
  match t, v with
  | TBool, VBool _ => true
  | TInt, VInt _ | TInt, VBool _ => true
  | TFloat, VFloat _ => true
  | TStr, VStr _ => true
  | TList, VList _ => true
  | TDict, VDict _ _ => true
  | _, _ => false
  end.


(* ---------- the loops of Composite / ForEach (the child semantics is a parameter) ------------------ *)
Section Loops.
  Variable A : Type.
  Variable child : A -> value -> outcome value.
  (* for validator in children: [cur =] validator.validate(cur)   -> the last `cur` *)
  Fixpoint run_children (threads : bool) (cs : list A) (cur : value) : outcome value :=
    match cs with
    | [] => Ok cur
    | c :: cs' =>
        match child c cur with
        | Raise e => Raise e
        | Ok r => run_children threads cs' (if threads then r else cur)
        end
    end.
End Loops.
Arguments run_children {A} child threads cs cur.

(* for item in value: item = chain(item); results.append(item) [; return results] *)
Fixpoint each_item (chain : value -> outcome value) (return_in_loop : bool) (items : list value)
    : outcome (list value) :=
  match items with
  | [] => Ok []
  | it :: items' =>
      match chain it with
      | Raise e => Raise e
      | Ok r =>
          if return_in_loop then Ok [r]
          else match each_item chain return_in_loop items' with
               | Raise e => Raise e
               | Ok rs => Ok (r :: rs)
               end
      end
  end.

Section Sem.
  Variable S : shapes.
  Variable O : oracles.
  Local Notation VE := (s_vexc S).

  Definition uuid_validate (convert : bool) (v : value) : outcome value :=
    match bind (py_str O v) (o_uuid O) with
    | Ok u => Ok (if convert then u else v)
    | Raise e => handle (reject VE (s_h_is_uuid_fmt S) v VNone) (s_h_is_uuid S) e
    end.

  (* int(value) where value may also be a member of the IntEnum itself *)
  Definition enum_int_arg (members : list value) (v : value) : outcome Z :=
    match v with
    | VOpq k [i] =>
        if k =? K_ENUM then
          match nth_error members (Z.to_nat i) with
          | Some (VInt z) => if 0 <=? i then Ok z else Raise TypeErrorC
          | _ => Raise TypeErrorC
          end
        else Raise TypeErrorC
    | _ => py_int O v
    end.

  (* int(value) in the IntEnum branch, behind the guard against floats that are no whole numbers *)
  Definition enum_int_value (members : list value) (v : value) : outcome Z :=
    match v with
    | VFloat f => if s_enum_float_guard S && negb (float_is_integral f) then Raise ValueErrorC
                  else enum_int_arg members v
    | _ => enum_int_arg members v
    end.

  Definition enum_validate (members : list value) (int_enum convert upper : bool) (v : value) : outcome value :=
    let v1 := match v with VStr s => if upper then VStr (py_upper O s) else v | _ => v end in
    let looked :=
      if int_enum then
        match enum_int_value members v1 with
        | Ok z => enum_lookup members (VInt z)
        | Raise e => Raise e
        end
      else enum_lookup members v1 in
    match looked with
    | Ok m => Ok (if convert then m else v1)
    | Raise e => handle (reject VE (s_h_is_enum_fmt S) v1 VNone) (s_h_is_enum S) e
    end.

  Definition match_validate (pat : re) (v : value) : outcome value :=
    match py_str O v with
    | Raise e => Raise e
    | Ok s => if re_test (s_matchpattern_mode S) pat s then Ok v else reject VE (s_matchpattern_fmt S) v VNone
    end.

  Definition iso_validate (v : value) : outcome value :=
    match o_fromiso O v with
    | Ok d => Ok d
    | Raise e => handle (reject VE (s_h_iso_fmt S) v VNone) (s_h_iso S) e
    end.

  Definition unix_validate (v : value) : outcome value :=
    if negb (in_dom (s_unix_dom S) v) then reject VE (s_unix_dom_fmt S) v VNone else
    match py_float O v with
    | Raise e => handle (reject VE (s_h_unix_float_fmt S) v VNone) (s_h_unix_float S) e
    | Ok f =>
        match o_epoch_plus O f with
        | Ok d => Ok d
        | Raise e => handle (reject VE (s_h_unix_add_fmt S) v VNone) (s_h_unix_add S) e
        end
    end.

  Fixpoint validate (w : validator) (v : value) {struct w} : outcome value :=
    match w with
    | WMin b incl => bound_validate VE (s_min_dom S) (s_min_dom_fmt S) (s_min_tests S) b incl v
    | WMax b incl => bound_validate VE (s_max_dom S) (s_max_dom_fmt S) (s_max_tests S) b incl v
    | WMinLen n => length_validate VE (s_minlen_dom S) (s_minlen_op S) (s_minlen_dom_fmt S) (s_minlen_fmt S) n v
    | WMaxLen n => length_validate VE (s_maxlen_dom S) (s_maxlen_op S) (s_maxlen_dom_fmt S) (s_maxlen_fmt S) n v
    | WNotEmpty strip => notempty_validate VE (s_notempty S) strip v
    | WEmail pat pp => email_validate VE (s_email_mode S) (s_email_fmt S) (s_regex_email S) pat pp v
    | WIsUuid convert => uuid_validate convert v
    | WIsEnum ms ie convert upper => enum_validate ms ie convert upper v
    | WMatch pat => match_validate pat v
    | WIso => iso_validate v
    | WUnix => unix_validate v
    | WComposite cs =>
        match run_children validate (co_threads (s_composite S)) cs v with
        | Raise e => Raise e
        | Ok cur => Ok (if co_returns_input (s_composite S) then v else cur)
        end
    | WForEach cs =>
        if negb (in_dom (fe_dom (s_foreach S)) v) then reject VE (fe_dom_fmt (s_foreach S)) v VNone else
        match iter_items v with
        | None => Raise TypeErrorC
        | Some items =>
            match each_item (run_children validate (fe_threads (s_foreach S)) cs)
                            (fe_return_in_loop (s_foreach S)) items with
            | Ok rs => Ok (VList rs)
            | Raise e => Raise e
            end
        end
    end.

  (* Validator.validate_param: same outcome class (the handler only labels the exception) *)
  Definition validate_param (w : validator) (v : value) : outcome value :=
    match validate w v with
    | Ok r => Ok r
    | Raise e => handle (Raise VE) (s_h_validate_param S) e
    end.

  (* ---------- convert_value ---------------------------------------------------------------------- *)
  Definition norm_step (s : str) (op : normop) : str :=
    match op with
    | NStr => s
    | NStrip => py_strip s
    | NLower => py_lower O s
    | NUpper => py_upper O s
    end.
  Definition normalise (ops : list normop) (v : value) : outcome str :=
    match py_str O v with Ok s => Ok (fold_left norm_step ops s) | Raise e => Raise e end.

  Fixpoint split_on (sep : Z) (s : str) : list str :=
    match s with
    | [] => [[]]
    | c :: s' =>
        let r := split_on sep s' in
        if c =? sep then [] :: r
        else match r with
             | h :: t => (c :: h) :: t
             | [] => [[c]]
             end
    end.
  (* item.split(':')[0] and item.partition(':')[-1] *)
  Fixpoint before_sep (sep : Z) (s : str) : str :=
    match s with [] => [] | c :: s' => if c =? sep then [] else c :: before_sep sep s' end.
  Fixpoint after_sep (sep : Z) (s : str) : str :=
    match s with [] => [] | c :: s' => if c =? sep then s' else after_sep sep s' end.

  (* d[k] = v on an insertion-ordered dict *)
  Fixpoint dict_set (ks : list str) (vs : list str) (k v : str) : list str * list str :=
    match ks, vs with
    | k0 :: ks', v0 :: vs' =>
        if zlist_eqb k0 k then (ks, v :: vs')
        else let r := dict_set ks' vs' k v in (k0 :: fst r, v0 :: snd r)
    | _, _ => ([k], [v])
    end.
  Definition dict_of_items (items : list str) : list str * list str :=
    fold_left (fun d it => dict_set (fst d) (snd d) (py_strip (before_sep 58 it)) (py_strip (after_sep 58 it)))
              items ([], []).

  Definition str_in (s : str) (l : list str) : bool := existsb (zlist_eqb s) l.

  Definition convert_value (v : value) (t : ttype) : outcome value :=
    if isinstance_t v t then Ok v else
    match normalise (s_cv_norm S) v with
    | Raise e => handle (Raise VE) (s_h_convert_norm S) e
    | Ok s =>
    match t with
    | TBool =>
        if str_in s (s_cv_true S) then Ok (VBool true)
        else if str_in s (s_cv_false S) then Ok (VBool false)
        else Raise (s_cv_bool_else S)
    | TList => Ok (VList (map (fun it => VStr (py_strip it)) (split_on 44 s)))
    | TDict => let d := dict_of_items (split_on 44 s) in Ok (VDict (map VStr (fst d)) (map VStr (snd d)))
    | TStr => Ok (VStr s)
    | TInt =>
        match py_int_of_str O s with
        | Ok z => Ok (VInt z)
        | Raise e => handle (Raise VE) (s_h_convert S) e
        end
    | TFloat =>
        match o_float_of_str O s with
        | Ok f => Ok (VFloat f)
        | Raise e => handle (Raise VE) (s_h_convert S) e
        end
    end
    end.
End Sem.
