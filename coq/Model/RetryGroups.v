(* Exception OBJECTS for the retry model: next to a plain instance of a class, an exception
   group (ExceptionGroup / BaseExceptionGroup / a user subclass of either) that carries other
   exception objects - leaves or further groups.  The loop of fn_deco_retry.py selects with
   `except exceptions:`, which is isinstance(obj, exceptions): it looks at the class of the raised
   object only, never at what a group carries (that would be `except*` / contextlib.suppress).
   `oc_of` is that projection: a group outcome enters the loop semantics of RetrySem.v as an
   outcome of its OWN class.  No proofs here.                                               *)
From Coq Require Import List ZArith Bool.
From PV Require Import Base.Exn Model.RetrySem.
Import ListNotations.
Local Open Scope nat_scope.

(* fixed numbering shared with harness/w_retry.py (registered there in the class map) *)
Definition BaseExceptionGroupC : exn := [4].          (* class BaseExceptionGroup(BaseException) *)
Definition ExceptionGroupC : exn := [0; 15].          (* class ExceptionGroup(BaseExceptionGroup, Exception) *)

(* issubclass on the class tree of Base/Exn.v plus the one multiple-inheritance edge of the
   builtin hierarchy that matters here: everything below ExceptionGroup also derives
   BaseExceptionGroup (and whatever that derives) *)
Definition derives_g (e c : exn) : bool :=
  derives e c || (derives e ExceptionGroupC && derives BaseExceptionGroupC c).

Definition is_group_class (e : exn) : bool := derives_g e BaseExceptionGroupC.

Inductive xobj :=
| XPlain (c : exn)                          (* an instance of class c that is not a group *)
| XGroup (c : exn) (members : list xobj).   (* an instance of the group class c carrying members *)

Definition xcls (x : xobj) : exn := match x with XPlain c => c | XGroup c _ => c end.

(* outcome of one invocation of the callee, with the raised object spelled out *)
Inductive xoc := XRet | XRaise (x : xobj).

Definition oc_of (o : xoc) : oc := match o with XRet => ORet | XRaise x => ORaise (xcls x) end.

Definition xouts_of (l : list xoc) (tail : xoc) : nat -> xoc := fun i => nth i l tail.

(* isinstance(<instance of class e>, exceptions) for a specification given as a list of classes *)
Definition listed_g (spec : list exn) : exn -> bool := fun e => existsb (derives_g e) spec.

(* the leaves of an object (used to state that they play no role) *)
Section Leaves.
  Fixpoint xleaves (x : xobj) : list exn :=
    match x with
    | XPlain c => [c]
    | XGroup _ ms => (fix go (l : list xobj) : list exn :=
                        match l with [] => [] | m :: l' => xleaves m ++ go l' end) ms
    end.
End Leaves.

Definition all_leaves (p : exn -> bool) (x : xobj) : bool := forallb p (xleaves x).
Definition some_leaf (p : exn -> bool) (x : xobj) : bool := existsb p (xleaves x).
