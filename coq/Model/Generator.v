(* Generator objects of CPython 3.12 (sync generators and async generators), as far as C16
   needs them: next/send/throw/close, exhaustion (StopIteration / StopAsyncIteration), the
   PEP 479 conversion (a StopIteration - in async generators also a StopAsyncIteration -
   that leaves the generator's frame is replaced by a *new* RuntimeError whose __cause__ is
   that object), and object identity of exceptions.

   A generator body is a resumable computation `sus` (suspended at a yield with a
   continuation, returned, or raised).  Two producers of such computations exist:
     - `beh_run`  : the user's generator, described abstractly by a behaviour tree `gbeh`
                    (what it does when first resumed, what it yields, how it reacts to
                    next() and to throw() at every yield - incl. generators that yield
                    twice or catch the thrown exception);
     - Model/SafeCtx.v: the interpreter of the translated wrapper program.
   The protocol functions below are shared by both.  No proofs here.                     *)
From Coq Require Import List Arith Bool.
From PV Require Import Base.Exn.
Import ListNotations.

Definition val := nat.                       (* identity of an ordinary object *)

Inductive variant := Sync | Async.

(* where an exception object was created (bookkeeping used to tell the harness *which*
   object leaves; identity itself is the allocation number `eid`) *)
Inductive origin :=
| OGen (use site : nat)     (* raised by the user's generator `use`; site 0 = setup, 1 = cleanup ... *)
| OBody (tag : nat)         (* raised by a with-body *)
| OProto                    (* StopIteration / StopAsyncIteration made by the generator protocol *)
| OPep479                   (* RuntimeError("generator raised StopIteration") *)
| OClose                    (* GeneratorExit made by close() *)
| OCtxlib (k : nat)         (* RuntimeError made by contextlib: 0 didn't yield, 1 didn't stop, 2 didn't stop after throw *)
| OInterp.                  (* raised by the interpreter of the wrapper itself (unbound name, bare raise) *)

Inductive exc := Exc (c : exn) (id : nat) (o : origin) (cause : option exc).

Definition ecls (e : exc) : exn := match e with Exc c _ _ _ => c end.
Definition eid (e : exc) : nat := match e with Exc _ i _ _ => i end.
Definition eorigin (e : exc) : origin := match e with Exc _ _ o _ => o end.
Definition ecause (e : exc) : option exc := match e with Exc _ _ _ c => c end.

(* `a is b` on exception objects *)
Definition same (a b : exc) : bool := Nat.eqb (eid a) (eid b).
Definition cause_is (a b : exc) : bool :=
  match ecause a with Some c => same c b | None => false end.
Definition isinst (e : exc) (c : exn) : bool := derives (ecls e) c.

Inductive event :=
| EvGen (use tag : nat) (args : option nat)  (* user generator `use` runs segment `tag` (0 setup, 1 cleanup, ...);
                                                args = Some a: it was called with the caller's own arguments a *)
| EvBody (tag : nat) (bound : val).          (* a with-body runs, `as` bound `bound` *)

(* journal newest first; allocation counter of exception objects *)
Record world := mkW { jrev : list event; nid : nat }.

Definition emit (ev : event) (w : world) : world := mkW (ev :: jrev w) (nid w).
Definition alloc (c : exn) (o : origin) (cause : option exc) (w : world) : exc * world :=
  (Exc c (nid w) o cause, mkW (jrev w) (S (nid w))).
Definition journal (w : world) : list event := rev (jrev w).

Inductive res (A : Type) := ROk (a : A) | RRaise (e : exc).
Arguments ROk {A} _.
Arguments RRaise {A} _.

Inductive resume := RNext | RSend (v : val) | RThrow (e : exc).

Inductive sus :=
| SusYield (v : val) (w : world) (k : resume -> world -> sus)
| SusReturn (w : world)
| SusRaise (e : exc) (w : world).

Inductive genobj :=
| GStart (body : world -> sus)              (* created, not started *)
| GSusp (k : resume -> world -> sus)        (* suspended at a yield *)
| GFinished.

Definition stop_class (v : variant) : exn :=
  match v with Sync => StopIterationC | Async => StopAsyncIterationC end.

(* PEP 479 (sync) / its async-generator counterpart *)
Definition converts (v : variant) (c : exn) : bool :=
  match v with
  | Sync => derives c StopIterationC
  | Async => derives c StopIterationC || derives c StopAsyncIterationC
  end.

(* classes contextlib regards as "a StopIteration was passed to throw()" *)
Definition stop_like (v : variant) (c : exn) : bool := converts v c.

(* what the caller of next()/throw() sees when the frame yields / returns / raises *)
Definition settle (v : variant) (s : sus) : res val * genobj * world :=
  match s with
  | SusYield x w k => (ROk x, GSusp k, w)
  | SusReturn w => let (e, w') := alloc (stop_class v) OProto None w in (RRaise e, GFinished, w')
  | SusRaise e w =>
      if converts v (ecls e)
      then let (r, w') := alloc RuntimeErrorC OPep479 (Some e) w in (RRaise r, GFinished, w')
      else (RRaise e, GFinished, w)
  end.

Definition g_resume (v : variant) (g : genobj) (r : resume) (w : world) : res val * genobj * world :=
  match g with
  | GStart body => settle v (body w)       (* a value sent to a fresh generator must be None; not modelled *)
  | GSusp k => settle v (k r w)
  | GFinished => let (e, w') := alloc (stop_class v) OProto None w in (RRaise e, GFinished, w')
  end.

Definition g_next (v : variant) (g : genobj) (w : world) := g_resume v g RNext w.
Definition g_send (v : variant) (g : genobj) (x : val) (w : world) := g_resume v g (RSend x) w.

(* throw() / athrow().  On a generator that is not suspended no frame code runs.  CPython 3.12
   (measured): sync: the exception comes straight back, unconverted; async: a finished async
   generator's athrow() returns None, an unstarted one raises the exception unless it is a
   StopIteration (then the awaiting machinery takes it for a return of None).  val 0 = None. *)
Definition g_throw (v : variant) (g : genobj) (e : exc) (w : world) : res val * genobj * world :=
  match g with
  | GSusp k => settle v (k (RThrow e) w)
  | GStart _ =>
      match v with
      | Sync => (RRaise e, GFinished, w)
      | Async => if isinst e StopIterationC then (ROk 0, GFinished, w) else (RRaise e, GFinished, w)
      end
  | GFinished =>
      match v with Sync => (RRaise e, GFinished, w) | Async => (ROk 0, GFinished, w) end
  end.

(* close() / aclose() *)
Definition g_close (v : variant) (g : genobj) (w : world) : res unit * genobj * world :=
  match g with
  | GStart _ | GFinished => (ROk tt, GFinished, w)
  | GSusp k =>
      let (ge, w1) := alloc GeneratorExitC OClose None w in
      match settle v (k (RThrow ge) w1) with
      | (ROk _, g', w2) =>
          let (r, w3) := alloc RuntimeErrorC OProto None w2 in (RRaise r, g', w3)   (* ignored GeneratorExit *)
      | (RRaise e, g', w2) =>
          if isinst e GeneratorExitC || isinst e (stop_class v) then (ROk tt, g', w2) else (RRaise e, g', w2)
      end
  end.

(* ---- the user's generator, abstractly --------------------------------------------------- *)

Inductive gbeh :=
| BRet                                       (* the generator function returns *)
| BRaise (c : exn) (site : nat)              (* raise c(): a new object *)
| BReraise                                   (* re-raise the exception thrown in at the last yield *)
| BEmit (tag : nat) (k : gbeh)               (* journal entry *)
| BYield (x : val) (on_next on_throw : gbeh).

Fixpoint beh_run (use : nat) (args : option nat) (b : gbeh) (th : option exc) (w : world) : sus :=
  match b with
  | BRet => SusReturn w
  | BRaise c site => let (e, w') := alloc c (OGen use site) None w in SusRaise e w'
  | BReraise =>
      match th with
      | Some e => SusRaise e w
      | None => let (e, w') := alloc RuntimeErrorC OInterp None w in SusRaise e w'   (* no active exception *)
      end
  | BEmit tag k => beh_run use args k th (emit (EvGen use tag args) w)
  | BYield x n t =>
      SusYield x w (fun r w' => match r with
                                | RThrow e => beh_run use args t (Some e) w'
                                | _ => beh_run use args n None w'
                                end)
  end.

(* calling the generator function: a fresh generator object, no code runs yet *)
Definition gen_of (use : nat) (args : option nat) (b : gbeh) : genobj :=
  GStart (beh_run use args b None).

(* the generators C16 is about: <setup>; yield x; <cleanup> with no try statement of their own *)
Inductive setup_oc := SetupOk | SetupRaise (c : exn) | SetupReturn.     (* SetupReturn: never yields *)
Inductive cleanup_oc := CleanOk | CleanRaise (c : exn) | CleanYield (x : val).   (* CleanYield: yields a second time *)

Definition plain_gen (s : setup_oc) (x : val) (c : cleanup_oc) : gbeh :=
  BEmit 0 (match s with
           | SetupRaise e => BRaise e 0
           | SetupReturn => BRet
           | SetupOk =>
               BYield x
                 (BEmit 1 (match c with
                           | CleanOk => BRet
                           | CleanRaise e => BRaise e 1
                           | CleanYield y => BYield y (BEmit 2 BRet) BReraise
                           end))
                 BReraise
           end).

(* the generator the docstring of safe_contextmanager calls equivalent:
   <setup>; try: yield x finally: <cleanup> *)
Definition guarded_gen (s : setup_oc) (x : val) (c : cleanup_oc) : gbeh :=
  let cleanup (after : gbeh) :=
    BEmit 1 (match c with
             | CleanOk => after
             | CleanRaise e => BRaise e 1
             | CleanYield y => BYield y (BEmit 2 after) BReraise
             end) in
  BEmit 0 (match s with
           | SetupRaise e => BRaise e 0
           | SetupReturn => BRet
           | SetupOk => BYield x (cleanup BRet) (cleanup BReraise)
           end).
