(* C19 - docstring checking at decoration time.

   The code of pedantic that decides whether a docstring is accepted is small and almost
   straight-line: a trigger condition in `pedantic.decorator`, four `if ...: raise` statements
   in `_assert_docstring_is_complete`, one loop with an if/elif in `_check_docstring`, a guard
   and a try/except around `eval` in `_parse_documented_type`.  translator/t_docstring.py maps
   those statements one to one onto the little program syntax below (`dprog`, regenerated into
   Gen/Docstring.v on every run); this file gives the syntax its meaning.  Exception-precise:
   a register read before it is written, `doc.returns.args` on a missing Returns section,
   `documented_params[0]` on an empty list ... raise what Python raises, so that a mutated
   program is still interpreted faithfully.

   Input of the model (parsing Google style text is docstring_parser's job, outside the model):
     annotations   inspect.getfullargspec(func).annotations, in dict order, with 'return'
     docstring     raw __doc__ (missing / empty / some text), the documented parameters
                   (name, optional documented type), `returns.args[1:]` when a Returns section exists
                   (Docstring.returns is the first Returns *or Yields* entry: _check_docstring never looks at
                   returns.is_generator, so a Yields section acts as the Returns entry)
   A documented type carries its text (for the `'typing.' in type_` guard) and its parse.

   `_update_context` and `typing` are hand-modelled (DocstringTyping.v); the translator pins the
   source of `_update_context` by a structural hash.  No proofs in this file.                 *)
From Coq Require Import List Bool Arith ZArith String.
From PV Require Import Base.Exn Model.DocstringTyping.
Import ListNotations.
Open Scope string_scope.
Open Scope list_scope.

(* --------------------------------------------------------------------------------------- *)
(* inputs *)

Record fcase := {
  f_require : bool;                        (* require_docstring *)
  f_parser : bool;                         (* docstring_parser importable: decorated_func.docstring is not None *)
  f_ann : list (string * ty);              (* annotations *)
  f_doc : docT }.

(* --------------------------------------------------------------------------------------- *)
(* program syntax (target of the translator) *)

Inductive cmp := CEq | CNe | CLt | CLe | CGt | CGe.

Inductive vx :=                            (* int / bool valued Python expressions *)
| VInt (z : Z)
| VRequire                                 (* require_docstring *)
| VLenDocParams                            (* len(<docstring>.params) *)
| VNumTaken                                (* len([a for a in <annotations> if a != 'return']) *)
| VLenReturnsArgs                          (* len(doc.returns.args) *)
| VOrV (a b : vx).                         (* a or b : value of the first truthy operand, else b *)

Inductive treg := RExpected | RActual.

Inductive bx :=
| BDocstringIsNone                         (* <decorated function>.docstring is None *)
| BRawDocIsNone                            (* func.raw_doc is None *)
| BRawDocIsEmpty                           (* func.raw_doc == '' *)
| BReturnsIsNone                           (* <docstring>.returns is None *)
| BReturnInAnn                             (* 'return' in <annotations> *)
| BAnnReturnIsNone                         (* <annotations>['return'] is None      (KeyError!) *)
| BKeyIsReturn                             (* annotation == 'return' *)
| BExpectedIsNone                          (* <annotations>[annotation] is None *)
| BFilteredNonEmpty                        (* truth value of the list documented_params *)
| BCmp (c : cmp) (a b : vx)
| BTyEq (a b : treg)                       (* a == b on typing objects *)
| BNot (b : bx)
| BAnd (a b : bx)                          (* short circuit *)
| BOr (a b : bx).

Inductive psrc :=
| PReturnsArg (i : nat)                    (* doc.returns.args[i] *)
| PPickedType.                             (* docstring_param.type_name *)

Inductive stmt :=
| SIfRaise (c : bx) (e : exn)              (* if c: raise e(...) *)
| SUpdateContext                           (* _update_context(context=context, type_=expected_type) *)
| SFilterByName                            (* documented_params = [p for p in doc.params if p.arg_name == annotation] *)
| SPick (i : nat)                          (* docstring_param = documented_params[i] *)
| SParse (p : psrc).                       (* actual := _parse_documented_type(type_=p, context=context) *)

Record parse_cfg := {
  pc_none : option exn;                    (* if type_ is None: raise ...   (first statement; absent: `in` raises TypeError) *)
  pc_guard : option (string * exn);        (* if '<needle>' in type_: raise ... *)
  pc_catch : list (exn * exn) }.           (* try: return eval(...)  except C: raise R *)

Record dprog := {
  dp_trigger : bx;                         (* condition under which decorator() calls _check_docstring *)
  dp_complete : list stmt;                 (* body of _assert_docstring_is_complete *)
  dp_calls_complete : bool;                (* _check_docstring calls it before the loop *)
  dp_loop_prefix : list stmt;              (* loop body before the if/elif *)
  dp_branches : list (bx * list stmt);     (* if / elif chain of the loop body, no else *)
  dp_parse : parse_cfg }.

(* --------------------------------------------------------------------------------------- *)
(* _update_context(context, type_): names added for one annotation.
     isinstance(type_, str)                         -> outside the fragment
     str(type_).startswith('typing') or GenericAlias -> recurse into get_type_arguments(type_);
                                                       an argument that is a list is also entered
     hasattr(type_, '__name__')                     -> context[type_.__name__] = type_
   A types.UnionType `X | Y` is entered like a typing object (isinstance(type_, (GenericAlias, UnionType))).
   get_type_arguments re-packs the arguments of typing.Callable as ([params], result); the members
   of that list are visited, but a list among them is not entered a second time.               *)
Definition is_typing_callable (g : gname) : bool :=
  match g with GTyping n => String.eqb n "Callable" | _ => false end.

Fixpoint upd (t : ty) : list string :=
  match t with
  | TCls n => [n]
  | TUnion l => flat_map upd l
  | TGen g l =>
      if is_typing_callable g
      then flat_map upd l
      else flat_map (fun a => match a with TLst m => flat_map upd m | x => upd x end) l
  | TPipe l => flat_map upd l              (* types.UnionType: get_type_arguments returns its members *)
  | _ => []                                (* None, ..., Any, typing.List, tuples, lists: nothing *)
  end.

(* The names `eval` will find when the documented type of an annotation is evaluated: the context
   collected so far, and the globals of check_docstring.py.  `ctx_covers [] annotations` says that
   every class an annotation mentions can be named at the moment its entry is parsed.  It holds
   for every signature whose annotations are typing objects (Proofs: ann_ok_ctx_covers); before the
   fix 2108a61 _update_context missed the classes under `X | Y` (finding C19-pipe-union-context). *)
Fixpoint ctx_covers (ctx : list string) (ann : list (string * ty)) : bool :=
  match ann with
  | [] => true
  | (_, t) :: r =>
      let ctx' := upd t ++ ctx in
      forallb (fun n => mem n ctx' || match globals n with Some _ => true | None => false end) (cls_names t)
      && ctx_covers ctx' r
  end.

(* --------------------------------------------------------------------------------------- *)
(* interpreter *)

Record st := {
  s_ctx : list string;                     (* keys of `context` *)
  s_filtered : option (list dparam);       (* documented_params *)
  s_picked : option dparam;                (* docstring_param *)
  s_actual : option ty }.                  (* actual_return_type / actual_param_type *)

Definition st0 : st := {| s_ctx := []; s_filtered := None; s_picked := None; s_actual := None |}.

Definition is_return (k : string) : bool := String.eqb k "return".
Definition is_none (t : ty) : bool := match t with TNone => true | _ => false end.

Definition num_taken (ann : list (string * ty)) : nat :=
  List.length (filter (fun kv => negb (is_return (fst kv))) ann).

Section Interp.
  Variable fc : fcase.
  Variable key : string.                   (* loop variable `annotation` *)
  Variable expected : ty.                  (* expected_type *)

  Fixpoint eval_vx (v : vx) : outcome Z :=
    match v with
    | VInt z => Ok z
    | VRequire => Ok (if f_require fc then 1%Z else 0%Z)
    | VLenDocParams => Ok (Z.of_nat (List.length (d_params (f_doc fc))))
    | VNumTaken => Ok (Z.of_nat (num_taken (f_ann fc)))
    | VLenReturnsArgs =>
        match d_returns (f_doc fc) with
        | None => Raise AttributeErrorC          (* 'NoneType' object has no attribute 'args' *)
        | Some l => Ok (Z.of_nat (S (List.length l)))
        end
    | VOrV a b => bind (eval_vx a) (fun x => if Z.eqb x 0 then eval_vx b else Ok x)
    end.

  Definition cmp_z (c : cmp) (x y : Z) : bool :=
    match c with
    | CEq => Z.eqb x y | CNe => negb (Z.eqb x y)
    | CLt => Z.ltb x y | CLe => Z.leb x y | CGt => Z.ltb y x | CGe => Z.leb y x
    end.

  Definition read_reg (s : st) (r : treg) : outcome ty :=
    match r with
    | RExpected => Ok expected
    | RActual => match s_actual s with Some t => Ok t | None => Raise UnboundLocalErrorC end
    end.

  Fixpoint eval_bx (s : st) (b : bx) : outcome bool :=
    match b with
    | BDocstringIsNone => Ok (negb (f_parser fc))
    | BRawDocIsNone => Ok (match d_raw (f_doc fc) with RawNone => true | _ => false end)
    | BRawDocIsEmpty => Ok (match d_raw (f_doc fc) with RawEmpty => true | _ => false end)
    | BReturnsIsNone => Ok (match d_returns (f_doc fc) with None => true | Some _ => false end)
    | BReturnInAnn => Ok (match assoc "return" (f_ann fc) with Some _ => true | None => false end)
    | BAnnReturnIsNone =>
        match assoc "return" (f_ann fc) with
        | Some t => Ok (is_none t)
        | None => Raise KeyErrorC
        end
    | BKeyIsReturn => Ok (is_return key)
    | BExpectedIsNone => Ok (is_none expected)
    | BFilteredNonEmpty =>
        match s_filtered s with
        | Some l => Ok (negb (Nat.eqb (List.length l) 0))
        | None => Raise UnboundLocalErrorC
        end
    | BCmp c a b => bind (eval_vx a) (fun x => bind (eval_vx b) (fun y => Ok (cmp_z c x y)))
    | BTyEq a b => bind (read_reg s a) (fun x => bind (read_reg s b) (fun y => Ok (ty_eqb x y)))
    | BNot a => bind (eval_bx s a) (fun x => Ok (negb x))
    | BAnd a b => bind (eval_bx s a) (fun x => if x then eval_bx s b else Ok false)
    | BOr a b => bind (eval_bx s a) (fun x => if x then Ok true else eval_bx s b)
    end.

  (* _parse_documented_type(type_, context, err) *)
  Definition parse_type (pc : parse_cfg) (ctx : list string) (ot : option dtype) : outcome ty :=
    match ot with
    | None =>
        match pc_none pc with
        | Some e => Raise e
        | None => Raise TypeErrorC  (* `'typing.' in None` / eval(None): both TypeError *)
        end
    | Some d =>
        let run :=
          match eval ctx (dt_expr d) with
          | Ok t => Ok t
          | Raise x =>
              match find (fun ce => derives x (fst ce)) (pc_catch pc) with
              | Some (_, r) => Raise r
              | None => Raise x
              end
          end in
        match pc_guard pc with
        | Some (needle, e) => if contains needle (dt_text d) then Raise e else run
        | None => run
        end
    end.

  Definition parse_source (s : st) (p : psrc) : outcome (option dtype) :=
    match p with
    | PReturnsArg i =>
        match d_returns (f_doc fc) with
        | None => Raise AttributeErrorC
        | Some l =>
            match i with
            | O => Ok (Some {| dt_text := "returns"; dt_expr := EName "returns" |})
            | S j => match nth_error l j with Some d => Ok (Some d) | None => Raise IndexErrorC end
            end
        end
    | PPickedType =>
        match s_picked s with
        | Some p => Ok (snd p)
        | None => Raise UnboundLocalErrorC
        end
    end.

  Definition run_stmt (pc : parse_cfg) (s : st) (x : stmt) : outcome st :=
    match x with
    | SIfRaise c e => bind (eval_bx s c) (fun b => if b then Raise e else Ok s)
    | SUpdateContext =>
        Ok {| s_ctx := upd expected ++ s_ctx s; s_filtered := s_filtered s;
              s_picked := s_picked s; s_actual := s_actual s |}
    | SFilterByName =>
        Ok {| s_ctx := s_ctx s;
              s_filtered := Some (filter (fun p => String.eqb (fst p) key) (d_params (f_doc fc)));
              s_picked := s_picked s; s_actual := s_actual s |}
    | SPick i =>
        match s_filtered s with
        | None => Raise UnboundLocalErrorC
        | Some l =>
            match nth_error l i with
            | Some p => Ok {| s_ctx := s_ctx s; s_filtered := s_filtered s; s_picked := Some p; s_actual := s_actual s |}
            | None => Raise IndexErrorC
            end
        end
    | SParse p =>
        bind (parse_source s p) (fun ot =>
          bind (parse_type pc (s_ctx s) ot) (fun t =>
            Ok {| s_ctx := s_ctx s; s_filtered := s_filtered s; s_picked := s_picked s; s_actual := Some t |}))
    end.

  Fixpoint run_stmts (pc : parse_cfg) (s : st) (l : list stmt) : outcome st :=
    match l with
    | [] => Ok s
    | x :: r => bind (run_stmt pc s x) (fun s' => run_stmts pc s' r)
    end.

  (* if c1: b1 elif c2: b2 ... (no else) *)
  Fixpoint run_branches (pc : parse_cfg) (s : st) (bs : list (bx * list stmt)) : outcome st :=
    match bs with
    | [] => Ok s
    | (c, body) :: r => bind (eval_bx s c) (fun b => if b then run_stmts pc s body else run_branches pc s r)
    end.
End Interp.

(* the for loop over the annotations; the Python locals survive from one iteration to the next *)
Fixpoint run_loop (p : dprog) (fc : fcase) (s : st) (anns : list (string * ty)) : outcome st :=
  match anns with
  | [] => Ok s
  | (k, t) :: r =>
      bind (run_stmts fc k t (dp_parse p) s (dp_loop_prefix p)) (fun s1 =>
        bind (run_branches fc k t (dp_parse p) s1 (dp_branches p)) (fun s2 => run_loop p fc s2 r))
  end.

(* _check_docstring(decorated_func) *)
Definition check (p : dprog) (fc : fcase) : outcome unit :=
  bind (if dp_calls_complete p then run_stmts fc "" TNone (dp_parse p) st0 (dp_complete p) else Ok st0) (fun _ =>
    bind (run_loop p fc st0 (f_ann fc)) (fun _ => Ok tt)).

(* what `pedantic.decorator` does with the docstring before it builds the wrapper *)
Definition decorate (p : dprog) (fc : fcase) : outcome unit :=
  bind (eval_bx fc "" TNone st0 (dp_trigger p)) (fun b => if b then check p fc else Ok tt).

(* pedantic_class_require_docstring: the methods are decorated in class-dict order *)
Fixpoint decorate_all (p : dprog) (l : list fcase) : outcome unit :=
  match l with
  | [] => Ok tt
  | fc :: r => bind (decorate p fc) (fun _ => decorate_all p r)
  end.

(* --------------------------------------------------------------------------------------- *)
(* the program the proofs are about; Props/C19.v checks that the regenerated one is this one *)

Definition canonical : dprog := {|
  dp_trigger := BAnd (BNot BDocstringIsNone) (BCmp CGt (VOrV VRequire VLenDocParams) (VInt 0));
  dp_complete :=
    [ SIfRaise (BOr BRawDocIsNone BRawDocIsEmpty) PDocstringC;
      SIfRaise (BCmp CNe VLenDocParams VNumTaken) PDocstringC;
      SIfRaise (BAnd BReturnsIsNone (BAnd BReturnInAnn (BNot BAnnReturnIsNone))) PDocstringC;
      SIfRaise (BAnd (BNot BReturnsIsNone) (BOr (BNot BReturnInAnn) BAnnReturnIsNone)) PDocstringC ];
  dp_calls_complete := true;
  dp_loop_prefix := [ SUpdateContext ];
  dp_branches :=
    [ (BAnd BKeyIsReturn (BNot BExpectedIsNone),
       [ SIfRaise (BCmp CNe VLenReturnsArgs (VInt 2)) PDocstringC;
         SParse (PReturnsArg 1);
         SIfRaise (BNot (BTyEq RActual RExpected)) PDocstringC ]);
      (BNot BKeyIsReturn,
       [ SFilterByName;
         SIfRaise (BNot BFilteredNonEmpty) PDocstringC;
         SPick 0;
         SParse PPickedType;
         SIfRaise (BNot (BTyEq RExpected RActual)) PDocstringC ]) ];
  dp_parse := {| pc_none := Some PDocstringC; pc_guard := Some ("typing.", PDocstringC);
                 pc_catch := [(NameErrorC, PDocstringC); (ExceptionC, PDocstringC)] |} |}.
