(* Parameters of the @pedantic / @require_kwargs call protocol that are regenerated from the
   source on every run (translator/t_pedantic.py -> Gen/Pedantic.v): the dunder list, the
   decision procedure `should_have_kwargs`, the self-stripping rule of `args_without_self`,
   the test of `assert_uses_kwargs`, the order of the three checking passes, when the
   positional arguments are dropped for the call of the body, the statement sequences of
   check_types / async_check_types and of the three wrappers.  Types and the interpreters of
   the tiny languages only; no proofs.                                                       *)
From Coq Require Import List Arith Bool String.
From PV Require Import Base.Exn Base.Values Base.Ann Model.CheckerCfg.
Import ListNotations.

(* ---- should_have_kwargs: an if-chain of boolean expressions over five atoms ---- *)
Inductive batom :=
| AtSetter        (* self.is_property_setter *)
| AtWantsArgs     (* self.wants_args *)
| AtStarts        (* self.name.startswith('__') *)
| AtEnds          (* self.name.endswith('__') *)
| AtListed.       (* self.name in FUNCTIONS_THAT_REQUIRE_KWARGS *)
Inductive bexp := BAtom (a : batom) | BNot (e : bexp) | BOr (a b : bexp) | BAnd (a b : bexp) | BConst (b : bool).
(* if c1: return e1  elif c2: return e2 ...  return e *)
Definition bprog := (list (bexp * bexp) * bexp)%type.

Record atoms := { at_setter : bool; at_wants_args : bool; at_starts : bool; at_ends : bool; at_listed : bool }.
Definition atom_val (v : atoms) (a : batom) : bool :=
  match a with AtSetter => at_setter v | AtWantsArgs => at_wants_args v | AtStarts => at_starts v
          | AtEnds => at_ends v | AtListed => at_listed v end.
Fixpoint bexp_val (v : atoms) (e : bexp) : bool :=
  match e with
  | BAtom a => atom_val v a
  | BNot e' => negb (bexp_val v e')
  | BOr a b => bexp_val v a || bexp_val v b
  | BAnd a b => bexp_val v a && bexp_val v b
  | BConst b => b
  end.
Fixpoint bchain_val (v : atoms) (l : list (bexp * bexp)) (final : bexp) : bool :=
  match l with
  | [] => bexp_val v final
  | (c, e) :: l' => if bexp_val v c then bexp_val v e else bchain_val v l' final
  end.
Definition bprog_val (v : atoms) (p : bprog) : bool := bchain_val v (fst p) (snd p).

(* ---- args_without_self ---- *)
Inductive strip_atom := SaInstance | SaStatic | SaMulti.    (* is_instance_method | is_static_method | uses_multiple_decorators *)
Inductive cmpop := CGt | CGe | CLt | CLe | CEq | CNe.
Definition cmp_val (c : cmpop) (a b : nat) : bool :=
  match c with
  | CGt => Nat.ltb b a | CGe => Nat.leb b a | CLt => Nat.ltb a b | CLe => Nat.leb a b
  | CEq => Nat.eqb a b | CNe => negb (Nat.eqb a b)
  end.

(* ---- assert_uses_kwargs ---- *)
Inductive auk_atom := AkShould | AkArgsLeft.                 (* self.func.should_have_kwargs | self.args_without_self *)

(* ---- _check_types_of_arguments ---- *)
Inductive pass_kind := PNamed | PVarPos | PVarKw.
Definition pass_eqb (a b : pass_kind) : bool :=
  match a, b with PNamed, PNamed | PVarPos, PVarPos | PVarKw, PVarKw => true | _, _ => false end.

(* ---- _get_return_value ---- *)
Inductive drop_atom := DaStatic | DaClass.                   (* is_static_method | is_class_method *)

(* ---- check_types / async_check_types ---- *)
Inductive step :=
| StArgs          (* self._check_types_of_arguments() *)
| StCall          (* [await] self._get_return_value() *)
| StRetCheck      (* return self._check_types_return(result=<the value just obtained>) *)
| StRetPlain.     (* return <the value just obtained> *)
Definition step_eqb (a b : step) : bool :=
  match a, b with StArgs, StArgs | StCall, StCall | StRetCheck, StRetCheck | StRetPlain, StRetPlain => true | _, _ => false end.

(* ---- wrapper / async_wrapper of pedantic, wrapper of require_kwargs ---- *)
Inductive wstep :=
| WAssertKwargs   (* call.assert_uses_kwargs() *)
| WCheckTypes     (* return [await] call.[async_]check_types() *)
| WCallPlain.     (* return func( *args, **kwargs ) *)
Definition wstep_eqb (a b : wstep) : bool :=
  match a, b with WAssertKwargs, WAssertKwargs | WCheckTypes, WCheckTypes | WCallPlain, WCallPlain => true | _, _ => false end.

Record pedantic_cfg := {
  pc_kwargs_names : list string;            (* FUNCTIONS_THAT_REQUIRE_KWARGS *)
  pc_shk : bprog;                           (* DecoratedFunction.should_have_kwargs *)
  pc_max_pedantic : nat;                    (* max_allowed when is_pedantic *)
  pc_max_other : nat;                       (* max_allowed otherwise *)
  pc_multi_cmp : cmpop;                     (* num_of_decorators <cmp> max_allowed *)
  pc_strip_when : list strip_atom;          (* disjuncts of the test in args_without_self *)
  pc_strip_from : nat;                      (* self.args[<n>:] *)
  pc_auk_when : list auk_atom;              (* conjuncts of the test in assert_uses_kwargs *)
  pc_auk_exn : exn;                         (* what it raises *)
  pc_passes : list pass_kind;               (* _check_types_of_arguments, in order *)
  pc_drop_args_when : list drop_atom;       (* disjuncts of the test in _get_return_value *)
  pc_async_drop_args_when : list drop_atom; (* ... in _async_get_return_value *)
  pc_sync_steps : list step;                (* check_types *)
  pc_async_steps : list step;               (* async_check_types *)
  pc_wrapper : list wstep;                  (* pedantic.decorator.wrapper *)
  pc_async_wrapper : list wstep;            (* pedantic.decorator.async_wrapper *)
  pc_rk_wrapper : list wstep;               (* require_kwargs.wrapper *)
  pc_gen_bases : list tname;                (* GeneratorWrapper: the accepted base generics *)
  pc_tables : checker_cfg;                  (* the tables of the type checker FunctionCall is linked with (check_types.py) *)
}.

Fixpoint list_eqb {A} (eqb : A -> A -> bool) (a b : list A) : bool :=
  match a, b with
  | [], [] => true
  | x :: a', y :: b' => eqb x y && list_eqb eqb a' b'
  | _, _ => false
  end.
