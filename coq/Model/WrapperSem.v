(* Semantics of the effect language into which translator/t_wrappers.py compiles every
   wrapper / async_wrapper of the package (Gen/Wrappers.v, regenerated on every run).
   No proofs here.

   Objects have identities (VObj n), exceptions are class paths (Base/Exn.v) plus the
   identity of the raised instance.  The callee is an ARBITRARY state transformer over an
   arbitrary callee state Sigma (take Sigma = invocation index + journal to obtain "an
   arbitrary function of (args, kwargs, invocation index)", see run_beh below); the
   wrapper's own effects (prints, warnings, the counter, the warning filter) live in a
   separate component of the state.

   Coroutines: every callable has two phases.  c_call is what CALLING it does: a plain
   function (or a synchronous wrapper) runs its body, a coroutine function only binds the
   arguments (TypeError now, not later) and hands back a coroutine object (VPending /
   VWrapperCoro: a token that remembers the arguments).  c_resume is what AWAITING that
   token does.  A synchronous wrapper around a coroutine function therefore runs its own
   statements at call time and passes the callee's token up; the caller's await resumes
   the callee.  c_mode says how the callable is used at top level: like its undecorated
   twin (c_mode = true: the twin is an `async def`, the result is awaited).  Awaiting
   something that is not awaitable raises TypeError.                                       *)
From Coq Require Import List ZArith Bool String.
From PV Require Import Base.Exn.
Import ListNotations.
Open Scope list_scope.

Inductive callee := CFunc | COther.

Inductive val :=
| VObj (n : nat)             (* an object, identity n *)
| VNone
| VCls (n : nat)             (* a class object *)
| VOpaque                    (* something the wrapper computed itself (datetime, timedelta ...) *)
| VPending (c : callee) (a : list val) (k : list (string * val))   (* coroutine object of c( *a, **k ), not awaited *)
| VWrapperCoro (a : list val) (k : list (string * val))           (* coroutine object of an async wrapper called with ( *a, **k ) *)
| VCallable (c : callee).    (* the callable object itself (only ever handed to repr) *)

Inductive xid := XId (n : nat) | XFresh (site : nat).   (* identity of an exception instance *)

Inductive res :=
| ROk (v : val)
| RExc (cls : exn) (x : xid)
| RUnmodelled.               (* the body is outside the effect language (flags-only decorators) *)

Definition args := list val.
Definition kwargs := list (string * val).

(* ---- the wrapper's own effects ------------------------------------------------------ *)
Inductive wcat := WDeprecation | WOtherCat (name : string).
Inductive faction := FaAlways | FaDefault | FaError | FaIgnore | FaOnce | FaModule.
Inductive fop := FSimple (a : faction) | FWarn.        (* statements of helper_methods._raise_warning *)
Inductive wevent := EvPrint | EvWarn (c : wcat) | EvCount (n : Z).

(* ws_cnt: the num_calls attribute of every count_calls wrapper object, by wrapper identity *)
Record wst := { ws_log : list wevent; ws_cnt : list (nat * Z); ws_filter : faction; ws_warned : bool }.

Fixpoint cnt_get (id : nat) (l : list (nat * Z)) : Z :=
  match l with [] => 0%Z | (i, z) :: l' => if Nat.eqb i id then z else cnt_get id l' end.
Fixpoint cnt_set (id : nat) (z : Z) (l : list (nat * Z)) : list (nat * Z) :=
  match l with
  | [] => [(id, z)]
  | (i, z') :: l' => if Nat.eqb i id then (i, z) :: l' else (i, z') :: cnt_set id z l'
  end.

Record st (Sigma : Type) := { cs : Sigma; ws : wst }.
Arguments cs {Sigma} _.
Arguments ws {Sigma} _.
Arguments Build_st {Sigma} _ _.

Definition WarningC : exn := [0; 16].
Definition DeprecationWarningC : exn := [0; 16; 0].

Definition log_ev (e : wevent) (w : wst) : wst :=
  {| ws_log := ws_log w ++ [e]; ws_cnt := ws_cnt w; ws_filter := ws_filter w; ws_warned := ws_warned w |}.

(* one statement of _raise_warning; None = continue, Some cls = the warning is raised as an error *)
Definition run_fop (cat : wcat) (o : fop) (w : wst) : option exn * wst :=
  match o with
  | FSimple a => (None, {| ws_log := ws_log w; ws_cnt := ws_cnt w; ws_filter := a; ws_warned := false |})
  | FWarn =>
    match ws_filter w with
    | FaAlways => (None, log_ev (EvWarn cat) w)
    | FaError => (Some DeprecationWarningC, w)
    | FaIgnore => (None, w)
    | FaDefault | FaOnce | FaModule =>
      if ws_warned w then (None, w)
      else (None, {| ws_log := ws_log w ++ [EvWarn cat]; ws_cnt := ws_cnt w; ws_filter := ws_filter w; ws_warned := true |})
    end
  end.

Fixpoint run_fops (cat : wcat) (l : list fop) (w : wst) : option exn * wst :=
  match l with
  | [] => (None, w)
  | o :: l' => match run_fop cat o w with
               | (Some e, w') => (Some e, w')
               | (None, w') => run_fops cat l' w'
               end
  end.

(* ---- the language --------------------------------------------------------------------- *)
Inductive argspec := ArgsSame | ArgsOther.               (* *args of the caller | anything else *)
Inductive kwspec := KwSame | KwVar (x : nat) | KwOther.  (* **kwargs of the caller | **<local dict> | anything else *)
Inductive wexpr := EVar (x : nat) | ENone | EParam (p : string).
Inductive wcond :=
| CEq (a b : wexpr) | CNe (a b : wexpr) | CIs (a b : wexpr) | CIsNot (a b : wexpr)
| CIsCoro (c : callee) | CNot (c : wcond) | CTrue | CFalse.
Inductive rk_action := RkRenamed | RkSame | RkDrop.

(* what an f-string of a wrapper evaluates, left to right, before the message exists: attribute reads on the
   callee (func.__name__ / func.__qualname__, missing on functools.partial and callable objects) and the text of
   values (repr / str of every positional argument, of every keyword value, of a local such as the result).
   FOwn: something of the wrapper's own that cannot fail (datetime.now(), wrapper.num_calls, a timedelta) *)
Inductive fitem := FOwn | FName (c : callee) | FVal (e : wexpr) | FArgs | FKwargs.
(* FName c is `c.__name__ if hasattr(c, "__name__") else repr(c)`: repr of the callable is evaluated ONLY when it has
   no name (functools.partial, callable objects); repr of a partial or of a bound method shows its receiver *)

Inductive wstmt :=
| WSkip
| WSeq (a b : wstmt)
| WPrint (fmt : list fitem)
| WCount (k : Z)                                                   (* <wrapper>.num_calls += k *)
| WWarn (cat : wcat) (fmt : list fitem)                            (* _raise_warning(msg=..., category=cat) *)
| WPure (x : nat)                                                  (* x = <effect free value of the wrapper's own> *)
| WAssign (x : nat) (e : wexpr)
| WCall (tgt : option nat) (c : callee) (a : argspec) (k : kwspec) (awaited : bool)
| WAwait (tgt : option nat) (e : wexpr)
| WAssertKw (a : argspec) (k : kwspec)                             (* DecoratedFunction; FunctionCall; assert_uses_kwargs *)
| WIf (c : wcond) (th el : wstmt)
| WRaise (cls : exn) (fmt : list fitem)
| WReraise
| WReturn (e : wexpr)
| WRenameKw (tgt : nat) (listed unlisted : rk_action)              (* the loop of rename_kwargs *)
| WTry (body : wstmt) (catch : option exn) (handler fin : wstmt)
| WOpaque (tag : string).

(* ---- decoration ---------------------------------------------------------------------- *)
Inductive dcond := DNameInDir (who : string) | DNot (c : dcond).
Inductive dstmt := DGuardEnabled | DIfRaise (c : dcond) (cls : exn) | DOpaque
               | DReadName.      (* name = func.__name__ at decoration time *)
Inductive vsel := VSync | VAsync | VFunc.
Inductive dispatch := DispAlways (v : vsel) | DispOnCoro (t f : vsel) | DispThrough (via : string) (v : vsel).

Record wvariant := { w_name : string; w_async : bool; w_wraps : bool; w_generator : bool; w_body : wstmt }.
Record deco := { d_pre : list dstmt; d_sync : option wvariant; d_async : option wvariant;
                 d_dispatch : dispatch; d_counter_init : option Z }.

Inductive lookup := LookupGetattr | LookupRawDict.
Record forall_cfg := { fa_guard_first : bool; fa_pre_raises : list string; fa_lookup : lookup;
                       fa_wrap_function_type : bool; fa_wrap_method_type : bool; fa_wrap_property : bool }.

(* ---- execution ------------------------------------------------------------------------- *)
Inductive lval := LVal (v : val) | LKw (k : kwargs).
Definition env := nat -> option lval.
Definition env0 : env := fun _ => None.
Definition upd (e : env) (x : nat) (v : lval) : env := fun y => if Nat.eqb y x then Some v else e y.
Definition upd_opt (e : env) (x : option nat) (v : val) : env :=
  match x with Some x' => upd e x' (LVal v) | None => e end.

Inductive flow :=
| FNext (e : env)
| FRet (v : val) (e : env)
| FExc (cls : exn) (x : xid) (e : env)
| FUnmodelled.

Inductive fres := FmOk | FmExc (cls : exn) (x : xid) | FmUnmodelled.

Definition UnboundLocalErrorC : exn := [0; 10; 0].

(* Python dict assignment: overwrite in place, else append *)
Fixpoint dict_set (d : kwargs) (key : string) (v : val) : kwargs :=
  match d with
  | [] => [(key, v)]
  | (k', v') :: d' => if String.eqb k' key then (k', v) :: d' else (k', v') :: dict_set d' key v
  end.

(* {p.from_: p.to for p in params}: the last rule for a key wins *)
Fixpoint rename_lookup (rules : list (string * string)) (key : string) : option string :=
  match rules with
  | [] => None
  | (f, t) :: r' => match rename_lookup r' key with
                    | Some t' => Some t'
                    | None => if String.eqb f key then Some t else None
                    end
  end.

Definition rename_step (rules : list (string * string)) (listed unlisted : rk_action) (acc : kwargs) (kv : string * val) : kwargs :=
  let (key, v) := kv in
  match rename_lookup rules key with
  | Some t => match listed with RkRenamed => dict_set acc t v | RkSame => dict_set acc key v | RkDrop => acc end
  | None => match unlisted with RkRenamed => acc (* KeyError in reality; never emitted for the unlisted branch *)
                              | RkSame => dict_set acc key v | RkDrop => acc end
  end.

Definition rename_run rules listed unlisted (k : kwargs) : kwargs :=
  fold_left (rename_step rules listed unlisted) k [].

Section Exec.
  Variable Sigma : Type.

  Definition csem := args -> kwargs -> st Sigma -> res * st Sigma.
  Record cdesc := { c_named : bool;       (* it has __name__ and __qualname__ and is a function object (not a partial / callable object) *)
                    c_iscoro : bool;      (* inspect.iscoroutinefunction(callee) *)
                    c_mode : bool;        (* at bottom a coroutine function: whoever uses it like the twin awaits the result *)
                    c_call : csem;        (* calling it *)
                    c_resume : csem }.    (* awaiting the coroutine object it handed back for these arguments *)

  Record ctx := {
    cx_callee : callee -> cdesc;
    cx_param : string -> val;                          (* parameters of the decorator factory (return_value ...) *)
    cx_rename : list (string * string);                (* Rename(from_, to) rules *)
    cx_veq : val -> val -> bool;                       (* a == b, arbitrary *)
    cx_vne : val -> val -> bool;                       (* a != b, arbitrary *)
    cx_assert_kw : args -> kwargs -> option exn;       (* DecoratedFunction(...); FunctionCall(...).assert_uses_kwargs() *)
    cx_warn_prog : list fop;                           (* body of _raise_warning *)
    cx_self : nat;                                     (* identity of the wrapper object created by this decoration *)
    cx_repr : val -> st Sigma -> res * st Sigma;       (* repr(v) / str(v): a callee effect - it may raise, print, re-enter *)
  }.

  Variable cx : ctx.
  Variable A : args.        (* the caller's *args *)
  Variable K : kwargs.      (* the caller's **kwargs *)

  Definition args_other : args := [VOpaque].
  Definition kwargs_other : kwargs := [("?"%string, VOpaque)].

  Definition val_is (a b : val) : bool :=
    match a, b with
    | VObj n, VObj m => Nat.eqb n m
    | VCls n, VCls m => Nat.eqb n m
    | VNone, VNone => true
    | _, _ => false
    end.

  Definition eval_expr (e : wexpr) (en : env) : option val :=
    match e with
    | EVar x => match en x with Some (LVal v) => Some v | _ => None end
    | ENone => Some VNone
    | EParam p => Some (cx_param cx p)
    end.

  Fixpoint eval_cond (c : wcond) (en : env) : option bool :=
    match c with
    | CEq a b => match eval_expr a en, eval_expr b en with Some x, Some y => Some (cx_veq cx x y) | _, _ => None end
    | CNe a b => match eval_expr a en, eval_expr b en with Some x, Some y => Some (cx_vne cx x y) | _, _ => None end
    | CIs a b => match eval_expr a en, eval_expr b en with Some x, Some y => Some (val_is x y) | _, _ => None end
    | CIsNot a b => match eval_expr a en, eval_expr b en with Some x, Some y => Some (negb (val_is x y)) | _, _ => None end
    | CIsCoro c => Some (c_iscoro (cx_callee cx c))
    | CNot c' => option_map negb (eval_cond c' en)
    | CTrue => Some true
    | CFalse => Some false
    end.

  (* coroutine objects of wrappers are always on the decorated function's side *)
  Definition await_val (v : val) (s : st Sigma) : res * st Sigma :=
    match v with
    | VPending c a k => c_resume (cx_callee cx c) a k s
    | VWrapperCoro a k => c_resume (cx_callee cx CFunc) a k s
    | _ => (RExc TypeErrorC (XFresh 0), s)
    end.

  Definition do_call (c : callee) (a : args) (k : kwargs) (awaited : bool) (s : st Sigma) : res * st Sigma :=
    let (r, s1) := c_call (cx_callee cx c) a k s in
    if awaited then match r with ROk v => await_val v s1 | _ => (r, s1) end else (r, s1).

  Definition the_args (a : argspec) : args := match a with ArgsSame => A | ArgsOther => args_other end.
  Definition the_kwargs (k : kwspec) (en : env) : option kwargs :=
    match k with
    | KwSame => Some K
    | KwVar x => match en x with Some (LKw d) => Some d | _ => None end
    | KwOther => Some kwargs_other
    end.

  Definition env_of (f : flow) (dflt : env) : env :=
    match f with FNext e | FRet _ e | FExc _ _ e => e | FUnmodelled => dflt end.
  Definition with_env (f : flow) (e : env) : flow :=
    match f with FNext _ => FNext e | FRet v _ => FRet v e | FExc c x _ => FExc c x e | FUnmodelled => FUnmodelled end.

  Definition lift_res (tgt : option nat) (en : env) (r : res * st Sigma) : flow * st Sigma :=
    match r with
    | (ROk v, s') => (FNext (upd_opt en tgt v), s')
    | (RExc c x, s') => (FExc c x en, s')
    | (RUnmodelled, s') => (FUnmodelled, s')
    end.

  Definition set_ws (s : st Sigma) (w : wst) : st Sigma := Build_st (cs s) w.

  (* evaluating the fields of an f-string: in order, stops at the first failure *)
  Fixpoint fmt_vals (l : list val) (s : st Sigma) : fres * st Sigma :=
    match l with
    | [] => (FmOk, s)
    | v :: l' =>
      match cx_repr cx v s with
      | (ROk _, s') => fmt_vals l' s'
      | (RExc c x, s') => (FmExc c x, s')
      | (RUnmodelled, s') => (FmUnmodelled, s')
      end
    end.

  Definition fmt_name (c : callee) (s : st Sigma) : fres * st Sigma :=
    if c_named (cx_callee cx c) then (FmOk, s) else fmt_vals [VCallable c] s.

  Definition fmt_item (i : fitem) (en : env) (s : st Sigma) : fres * st Sigma :=
    match i with
    | FOwn => (FmOk, s)
    | FName c => fmt_name c s
    | FVal e => match eval_expr e en with
                | Some v => fmt_vals [v] s
                | None => (FmExc UnboundLocalErrorC (XFresh 3), s)
                end
    | FArgs => fmt_vals A s
    | FKwargs => fmt_vals (map snd K) s
    end.

  Fixpoint fmt_items (l : list fitem) (en : env) (s : st Sigma) : fres * st Sigma :=
    match l with
    | [] => (FmOk, s)
    | i :: l' => match fmt_item i en s with
                 | (FmOk, s') => fmt_items l' en s'
                 | other => other
                 end
    end.

  (* the message is built first; the statement only happens when that succeeded *)
  Definition after_fmt (l : list fitem) (en : env) (s : st Sigma) (k : st Sigma -> flow * st Sigma) : flow * st Sigma :=
    match fmt_items l en s with
    | (FmOk, s') => k s'
    | (FmExc c x, s') => (FExc c x en, s')
    | (FmUnmodelled, s') => (FUnmodelled, s')
    end.

  Fixpoint exec (p : wstmt) (cur : option (exn * xid)) (en : env) (s : st Sigma) : flow * st Sigma :=
    match p with
    | WSkip => (FNext en, s)
    | WSeq a b =>
      match exec a cur en s with
      | (FNext en', s') => exec b cur en' s'
      | other => other
      end
    | WPrint fmt => after_fmt fmt en s (fun s => (FNext en, set_ws s (log_ev EvPrint (ws s))))
    | WCount k =>
      let w := ws s in
      let n := (cnt_get (cx_self cx) (ws_cnt w) + k)%Z in
      (FNext en, set_ws s {| ws_log := ws_log w ++ [EvCount n]; ws_cnt := cnt_set (cx_self cx) n (ws_cnt w);
                             ws_filter := ws_filter w; ws_warned := ws_warned w |})
    | WWarn cat fmt =>
      after_fmt fmt en s (fun s =>
        match run_fops cat (cx_warn_prog cx) (ws s) with
        | (None, w') => (FNext en, set_ws s w')
        | (Some cls, w') => (FExc cls (XFresh 2) en, set_ws s w')
        end)
    | WPure x => (FNext (upd en x (LVal VOpaque)), s)
    | WAssign x e =>
      match eval_expr e en with
      | Some v => (FNext (upd en x (LVal v)), s)
      | None => (FExc UnboundLocalErrorC (XFresh 3) en, s)
      end
    | WCall tgt c a k awaited =>
      match the_kwargs k en with
      | Some kw => lift_res tgt en (do_call c (the_args a) kw awaited s)
      | None => (FExc UnboundLocalErrorC (XFresh 3) en, s)
      end
    | WAwait tgt e =>
      match eval_expr e en with
      | Some v => lift_res tgt en (await_val v s)
      | None => (FExc UnboundLocalErrorC (XFresh 3) en, s)
      end
    | WAssertKw a k =>
      if negb (c_named (cx_callee cx CFunc)) then (FExc AttributeErrorC (XFresh 7) en, s)   (* DecoratedFunction(func): full_name of a partial / callable object *)
      else
      match the_kwargs k en with
      | Some kw => match cx_assert_kw cx (the_args a) kw with
                   | Some cls => (FExc cls (XFresh 1) en, s)
                   | None => (FNext en, s)
                   end
      | None => (FExc UnboundLocalErrorC (XFresh 3) en, s)
      end
    | WIf c th el =>
      match eval_cond c en with
      | Some true => exec th cur en s
      | Some false => exec el cur en s
      | None => (FExc UnboundLocalErrorC (XFresh 3) en, s)
      end
    | WRaise cls fmt => after_fmt fmt en s (fun s => (FExc cls (XFresh 4) en, s))
    | WReraise =>
      match cur with
      | Some (c, x) => (FExc c x en, s)
      | None => (FExc RuntimeErrorC (XFresh 5) en, s)
      end
    | WReturn e =>
      match eval_expr e en with
      | Some v => (FRet v en, s)
      | None => (FExc UnboundLocalErrorC (XFresh 3) en, s)
      end
    | WRenameKw tgt listed unlisted =>
      (FNext (upd en tgt (LKw (rename_run (cx_rename cx) listed unlisted K))), s)
    | WTry body catch handler fin =>
      let (f1, s1) := exec body cur en s in
      let (f2, s2) :=
        match f1, catch with
        | FExc c x e1, Some cc => if derives c cc then exec handler (Some (c, x)) e1 s1 else (f1, s1)
        | _, _ => (f1, s1)
        end in
      match f2 with
      | FUnmodelled => (FUnmodelled, s2)
      | _ =>
        match exec fin cur (env_of f2 en) s2 with
        | (FNext e3, s3) => (with_env f2 e3, s3)
        | other => other
        end
      end
    | WOpaque _ => (FUnmodelled, s)
    end.

  Definition run_body (p : wstmt) (s : st Sigma) : res * st Sigma :=
    match exec p None env0 s with
    | (FNext _, s') => (ROk VNone, s')
    | (FRet v _, s') => (ROk v, s')
    | (FExc c x _, s') => (RExc c x, s')
    | (FUnmodelled, s') => (RUnmodelled, s')
    end.

End Exec.

Arguments c_iscoro {Sigma} _.
Arguments c_mode {Sigma} _.
Arguments c_call {Sigma} _.
Arguments c_resume {Sigma} _.
Arguments c_named {Sigma} _.
Arguments Build_cdesc {Sigma} _ _ _ _ _.
Arguments cx_callee {Sigma} _.
Arguments cx_param {Sigma} _.
Arguments cx_rename {Sigma} _.
Arguments cx_veq {Sigma} _.
Arguments cx_vne {Sigma} _.
Arguments cx_assert_kw {Sigma} _.
Arguments cx_warn_prog {Sigma} _.
Arguments cx_self {Sigma} _.
Arguments cx_repr {Sigma} _.
Arguments Build_ctx {Sigma} _ _ _ _ _ _ _ _ _.
Arguments fmt_vals {Sigma} _ _ _.
Arguments fmt_name {Sigma} _ _ _.
Arguments fmt_item {Sigma} _ _ _ _ _ _.
Arguments fmt_items {Sigma} _ _ _ _ _ _.
Arguments after_fmt {Sigma} _ _ _ _ _ _ _.
Arguments exec {Sigma} _ _ _ _ _ _ _.
Arguments run_body {Sigma} _ _ _ _ _.
Arguments do_call {Sigma} _ _ _ _ _ _.
Arguments await_val {Sigma} _ _ _.

(* ---- which object does the decorator hand back --------------------------------------- *)
Inductive chosen := ChFunc | ChVariant (v : wvariant) | ChBroken.

Definition pick (d : deco) (s : vsel) : chosen :=
  match s with
  | VFunc => ChFunc
  | VSync => match d_sync d with Some v => ChVariant v | None => ChBroken end
  | VAsync => match d_async d with Some v => ChVariant v | None => ChBroken end
  end.

Definition select (d : deco) (iscoro : bool) : chosen :=
  match d_dispatch d with
  | DispAlways v => pick d v
  | DispOnCoro t f => pick d (if iscoro then t else f)
  | DispThrough _ v => pick d v
  end.

Definition chosen_async (c : chosen) (callee_iscoro : bool) : bool :=
  match c with ChFunc => callee_iscoro | ChVariant v => w_async v | ChBroken => false end.

(* decoration-time statements *)
Inductive pre_result := PreContinue | PreIdentity | PreRaise (cls : exn).

Fixpoint eval_dcond (c : dcond) (dir_of : string -> bool) : bool :=
  match c with DNameInDir who => dir_of who | DNot c' => negb (eval_dcond c' dir_of) end.

Fixpoint run_pre (l : list dstmt) (enabled : bool) (named : bool) (dir_of : string -> bool) : pre_result :=
  match l with
  | [] => PreContinue
  | DGuardEnabled :: l' => if enabled then run_pre l' enabled named dir_of else PreIdentity
  | DIfRaise c cls :: l' => if eval_dcond c dir_of then PreRaise cls else run_pre l' enabled named dir_of
  | DOpaque :: l' => run_pre l' enabled named dir_of
  | DReadName :: l' => if named then run_pre l' enabled named dir_of else PreRaise AttributeErrorC
  end.

(* the arguments remembered by a coroutine object of the decorated function's side *)
Definition tok_args (v : val) : option (args * kwargs) :=
  match v with
  | VPending CFunc a k => Some (a, k)
  | VWrapperCoro a k => Some (a, k)
  | _ => None
  end.

Section Use.
  Variable Sigma : Type.

  (* using a callable the way the undecorated twin is used: call it, and await the result when the twin is a
     coroutine function *)
  Definition use_callee (f : cdesc Sigma) : csem Sigma := fun a k s =>
    let (r, s1) := c_call f a k s in
    if c_mode f then
      match r with
      | ROk v => match tok_args v with
                 | Some (a', k') => c_resume f a' k' s1
                 | None => (RExc TypeErrorC (XFresh 0), s1)
                 end
      | _ => (r, s1)
      end
    else (r, s1).

  Definition unmodelled_callee (mode : bool) : cdesc Sigma :=
    {| c_named := true; c_iscoro := false; c_mode := mode; c_call := fun _ _ s => (RUnmodelled, s); c_resume := fun _ _ s => (RUnmodelled, s) |}.

  (* what the decorator hands back for the function in cx *)
  Definition as_callee (d : deco) (cx : ctx Sigma) : cdesc Sigma :=
    let f := cx_callee cx CFunc in
    match select d (c_iscoro f) with
    | ChFunc => f
    | ChVariant v =>
      if w_async v then
        {| c_named := true; c_iscoro := true; c_mode := c_mode f;
           c_call := fun a k s => (ROk (VWrapperCoro a k), s);
           c_resume := fun a k s => run_body cx a k (w_body v) s |}
      else
        {| c_named := true; c_iscoro := false; c_mode := c_mode f;
           c_call := fun a k s => run_body cx a k (w_body v) s;
           c_resume := c_resume f |}
    | ChBroken => unmodelled_callee (c_mode f)
    end.

  Definition use_wrapped (d : deco) (cx : ctx Sigma) : csem Sigma := use_callee (as_callee d cx).

  Definition with_callee (cx : ctx Sigma) (f : cdesc Sigma) : ctx Sigma :=
    {| cx_callee := fun c => match c with CFunc => f | COther => cx_callee cx COther end;
       cx_param := cx_param cx; cx_rename := cx_rename cx; cx_veq := cx_veq cx; cx_vne := cx_vne cx;
       cx_assert_kw := cx_assert_kw cx; cx_warn_prog := cx_warn_prog cx; cx_self := cx_self cx; cx_repr := cx_repr cx |}.

  (* d1 applied to (d2 applied to f) *)
  Definition use_stacked (d1 : deco) (cx1 : ctx Sigma) (d2 : deco) (cx2 : ctx Sigma) : csem Sigma :=
    use_wrapped d1 (with_callee cx1 (as_callee d2 cx2)).
End Use.

Arguments use_callee {Sigma} _ _ _ _.
Arguments unmodelled_callee {Sigma} _.
Arguments use_wrapped {Sigma} _ _ _ _ _.
Arguments as_callee {Sigma} _ _.
Arguments with_callee {Sigma} _ _.
Arguments use_stacked {Sigma} _ _ _ _ _ _ _.

(* ---- functools.wraps ------------------------------------------------------------------- *)
(* the four attributes of the property; Own = the wrapper's own (name "wrapper", qualname
   "...<locals>.wrapper", doc None, module of the decorator) *)
Inductive attr_src := FromCallee | Own.
Definition attrs_of (c : chosen) : attr_src :=
  match c with
  | ChFunc => FromCallee
  | ChVariant v => if w_wraps v then FromCallee else Own
  | ChBroken => Own
  end.

Definition variants (d : deco) : list wvariant :=
  (match d_sync d with Some v => [v] | None => [] end) ++ (match d_async d with Some v => [v] | None => [] end).

(* ---- journal instance: callee = arbitrary function of (args, kwargs, invocation index) - *)
Inductive call_rec := CallRec (c : callee) (a : args) (k : kwargs).
Definition jst := list call_rec.       (* journal of body invocations; the index is its length per callee *)

Definition count_of (c : callee) (j : jst) : nat :=
  List.length (filter (fun r => match r, c with CallRec CFunc _ _, CFunc => true | CallRec COther _ _, COther => true | _, _ => false end) j).

Definition beh := callee -> args -> kwargs -> nat -> outcome val.

(* accepts: does Python's argument binding succeed (else TypeError at call time, before any body runs) *)
Definition run_beh (b : beh) (accepts : callee -> args -> kwargs -> bool) (c : callee) : csem jst := fun a k s =>
  if accepts c a k then
    let i := count_of c (cs s) in
    let s' := Build_st (cs s ++ [CallRec c a k]) (ws s) in
    match b c a k i with
    | Ok v => (ROk v, s')
    | Raise e => (RExc e (XId (match c with CFunc => i | COther => 1000 + i end)), s')
    end
  else (RExc TypeErrorC (XFresh 6), s).

(* a plain `def` (iscoro = false) or a plain `async def` (iscoro = true) with that behaviour *)
Definition beh_callee (b : beh) (accepts : callee -> args -> kwargs -> bool) (c : callee) (iscoro : bool) : cdesc jst :=
  if iscoro then
    {| c_named := true; c_iscoro := true; c_mode := true;
       c_call := fun a k s => if accepts c a k then (ROk (VPending c a k), s) else (RExc TypeErrorC (XFresh 6), s);
       c_resume := run_beh b accepts c |}
  else
    {| c_named := true; c_iscoro := false; c_mode := false; c_call := run_beh b accepts c;
       c_resume := fun _ _ s => (RExc TypeErrorC (XFresh 0), s) |}.

(* ---- classes: for_all_methods ---------------------------------------------------------- *)
Inductive member := MFunc | MStatic | MClassM | MProp | MOther.
Inductive access := AInst | AClass | ASubInst | ASubClass.

(* positional arguments that reach the underlying function when `recv.attr( *a )` is evaluated on
   the UNDECORATED class.  self/cls0/sub: the instance, the decorated class, a subclass.
   None: the access does not call the function (e.g. a property read through the class). *)
Definition orig_args (m : member) (acc : access) (self cls0 sub : val) (a : args) : option args :=
  match m, acc with
  | MFunc, (AInst | ASubInst) => Some (self :: a)
  | MFunc, (AClass | ASubClass) => Some a
  | MStatic, _ => Some a
  | MClassM, (AInst | AClass) => Some (cls0 :: a)
  | MClassM, (ASubInst | ASubClass) => Some (sub :: a)
  | MProp, (AInst | ASubInst) => Some [self]
  | MProp, _ => None
  | MOther, _ => None
  end.

(* what `for attr in cls.__dict__: v = <lookup>; if isinstance(v, (FunctionType, MethodType)): setattr(cls, attr, decorator(v))`
   does to a member: the new class attribute is a plain function wrapping `callee`, where callee is the
   function itself or the method bound to the decorated class *)
Inductive new_member := NmUntouched | NmPlain (bound_to_cls : bool) | NmProp.

Definition decorate_member (cfg : forall_cfg) (m : member) : new_member :=
  match fa_lookup cfg, m with
  | _, MFunc => if fa_wrap_function_type cfg then NmPlain false else NmUntouched
  | LookupGetattr, MStatic => if fa_wrap_function_type cfg then NmPlain false else NmUntouched
  | LookupGetattr, MClassM => if fa_wrap_method_type cfg then NmPlain true else NmUntouched
  | LookupRawDict, (MStatic | MClassM) => NmUntouched
  | _, MProp => if fa_wrap_property cfg then NmProp else NmUntouched
  | _, MOther => NmUntouched
  end.

(* positional arguments handed to the WRAPPER, and what the wrapped callee prepends *)
Definition deco_args (cfg : forall_cfg) (m : member) (acc : access) (self cls0 sub : val) (a : args) : option (args * args) :=
  match decorate_member cfg m with
  | NmUntouched => option_map (fun x => ([], x)) (orig_args m acc self cls0 sub a)
  | NmPlain bound =>
    let given := match acc with AInst | ASubInst => self :: a | AClass | ASubClass => a end in
    Some (if bound then [cls0] else [], given)
  | NmProp => match acc with AInst | ASubInst => Some ([], [self]) | _ => None end
  end.
