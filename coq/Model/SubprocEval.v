(* C17 - evaluation entry point for the correspondence harness (harness/c17.py).

   One case = one invocation: the behaviour of the callee (as the harness built it), the
   point at which the child is killed (if at all), and what the implementation was seen to
   do.  The model runs the REGENERATED programs (Gen/Subproc.v) under the schedule that
   realises the kill point and then lets parent and child alternate; by the theorems of
   Props/C17.v neither the rest of the schedule nor any concurrently running invocation can
   change the outcome, so the same evaluation serves the N-invocation stress cases.

   Result (list Z, codes only):
     [ done ; kind ; clean ; killed ; spec_obs ; demand ; uniform ; len path ] ++ path ++ [ held ]
   done     1 = the parent finished within the fuel, 0 = it did not (never a normal value)
   kind     1 returns the callee's value, 2 returns something else, 3 raises the callee's
            exception, 4 raises the `.exception` attribute of the callee's RETURN value,
            5 raises a fresh exception of class `path`
   clean    Spec.clean_exit of the model's final state
   killed   the kill really hit a live child in the model
   spec_obs Spec.outcome_ok on the OBSERVED outcome of the implementation
   uniform  Spec.report_uniform on the observed outcome against the observed reference report
   demand   1 return, 2 callee's exception, 3 RuntimeError (PEP 479), 4 some other exception
   held     1 = in the cancellation scenarios, when the parent coroutine has run on its own as far as
            it gets after CancelledError was delivered (its handler has no suspension point), it sits
            in a synchronous call that cannot return yet WHILE THE CALLEE IS STILL COMPUTING: the loop
            thread is held for as long as the callee runs (the harness sees the ticker stand still) *)
From Coq Require Import List Arith Bool ZArith.
From PV Require Import Base.Exn Model.PipeKernel Model.Subproc Spec.SubprocSpec Gen.Subproc.
Import ListNotations.

Inductive killpoint :=
| KNone
| KAfterFork        (* before the child executes anything *)
| KInCallee         (* the child is about to run / is running the callee *)
| KMidSend          (* the child has written only a part of a large message *)
(* the awaiting task is cancelled (task.cancel(), asyncio.wait_for timeout) ... *)
| KCancelBeforeStart   (* ... before its coroutine has run at all *)
| KCancelInCallee      (* ... while it waits and the callee computes *)
| KCancelAfterSent.    (* ... while it still waits although the child has already sent / has gone *)

Definition mk_beh_sig (out : cout) (raised : exn) (big pick asy reterr unp tf : bool) : beh :=
  {| b_out := out; b_isa := fun c => derives raised c; b_big := big; b_pick := pick; b_async := asy;
     b_ret_err := reterr; b_unp := unp; b_term_fatal := tf |}.
(* default signal dispositions in the child: SIGTERM is fatal *)
Definition mk_beh (out : cout) (raised : exn) (big pick asy reterr unp : bool) : beh :=
  mk_beh_sig out raised big pick asy reterr unp true.

Section Run.
  Variable b : beh.
  Definition P := Gen.Subproc.parent_prog.
  Definition C := Gen.Subproc.child_prog.

  Definition step_or_stay (c : lchoice) (s : lst) : lst := lstep_skip P C b c s.

  (* the parent runs until it has forked the child (or cannot move / is no longer running) *)
  Fixpoint until_forked (fuel : nat) (s : lst) : lst :=
    match fuel with
    | O => s
    | S f => if c_running s || negb (p_running s) then s
             else match lstep P C b 0 LParent s with Some s' => until_forked f s' | None => s end
    end.

  Definition at_callee (s : lst) : bool :=
    match nth_error C (c_pc (cs s)) with Some (CRunCallee _) => true | _ => false end.
  Definition mid_send (s : lst) : bool := c_sending (cs s).

  (* the child runs until `pred` holds (or it cannot move) *)
  Fixpoint child_until (pred : lst -> bool) (fuel : nat) (s : lst) : lst :=
    match fuel with
    | O => s
    | S f => if pred s then s
             else match lstep P C b 0 LChild s with Some s' => child_until pred f s' | None => s end
    end.

  Definition kill_if (pred : lst -> bool) (s : lst) : lst :=
    if pred s then step_or_stay LKill s else s.

  Fixpoint alternate (fuel : nat) (s : lst) : lst :=
    match fuel with
    | O => s
    | S f => if p_done s then s else alternate f (step_or_stay LChild (step_or_stay LParent s))
    end.

  (* the parent runs until it is suspended in the wait (or cannot move / has finished) *)
  Fixpoint until_waiting (fuel : nat) (s : lst) : lst :=
    match fuel with
    | O => s
    | S f => if negb (p_running s) then s
             else match lstep P C b 0 LParent s with Some s' => until_waiting f s' | None => s end
    end.
  Definition child_sent (s : lst) : bool :=
    negb (c_running s) || match c_pend (cs s) with CPHandled => true | _ => false end.

  (* the parent coroutine holds the loop thread in a synchronous call that cannot return yet while
     the callee has not returned (SubprocLocal.sync_blocked && callee_pending, restated: no proofs here) *)
  Definition is_run_op (o : cop) : bool := match o with CRunCallee _ => true | _ => false end.
  Definition held_while_computing (s : lst) : bool :=
    p_running s && match lstep P C b 0 LParent s with Some _ => false | None => true end &&
    c_running s && existsb is_run_op (skipn (c_pc (cs s)) C).

  (* the state in which the scenario is set up; for a cancellation: CancelledError has been delivered
     and the parent coroutine has run on its own until it finishes or cannot move (the callee of the
     scenario computes for long, the handler around the wait has no suspension point) *)
  Definition run_case_pre (k : killpoint) : lst :=
    let s1 := until_forked 40 linit in
    match k with
    | KNone => s1
    | KAfterFork => kill_if c_running s1
    | KInCallee => kill_if (fun s => c_running s && at_callee s) (child_until at_callee 40 s1)
    | KMidSend => kill_if (fun s => c_running s && mid_send s) (child_until mid_send 40 s1)
    | KCancelBeforeStart => step_or_stay LCancel linit
    | KCancelInCallee => until_waiting 40 (step_or_stay LCancel (child_until at_callee 40 (until_waiting 40 s1)))
    | KCancelAfterSent => until_waiting 40 (step_or_stay LCancel (child_until child_sent 40 (until_waiting 40 s1)))
    end.
  Definition run_case (k : killpoint) : lst := alternate 200 (run_case_pre k).
End Run.

Definition zb (x : bool) : Z := if x then 1%Z else 0%Z.
Definition zpath (e : exn) : list Z := Z.of_nat (List.length e) :: map Z.of_nat e.

Definition final_code (f : pfinal) : Z * list Z :=
  match f with
  | FReturnCallee => (1%Z, zpath [])
  | FReturnOther => (2%Z, zpath [])
  | FRaise XCallee => (3%Z, zpath [])
  | FRaise XRetAttr => (4%Z, zpath [])
  | FRaise (XCls c) => (5%Z, zpath c)
  end.

Definition demand_code (d : demand) : Z :=
  match d with DReturn => 1%Z | DRaiseCallee => 2%Z | DRaisePEP479 => 3%Z | DRaiseOther => 4%Z end.

(* tf: SIGTERM is fatal for the child (false: the application's own SIGTERM disposition is inherited) *)
Definition eval_case (out : cout) (raised : exn) (big pick asy reterr unp tf : bool) (kw : kwcoll) (k : killpoint)
                     (obs_killed : bool) (obs : pfinal) (ref : exn) : list Z :=
  let b := mk_beh_sig out raised big pick asy reterr unp tf in
  let held := match kw with
    | KWParent => if kw_parent_safe Gen.Subproc.kw_flags then held_while_computing b (run_case_pre b k) else false
              | _ => let b' := beh_kw Gen.Subproc.kw_flags kw b in held_while_computing b' (run_case_pre b' k)
              end in
  (* keyword names that collide with the implementation's own parameters (Model/Subproc.v, lrun_kw) *)
  let s := match kw with
           | KWParent => if kw_parent_safe Gen.Subproc.kw_flags then run_case b k
                         else p_finish linit (FRaise (XCls TypeErrorC))
           | _ => run_case (beh_kw Gen.Subproc.kw_flags kw b) k
           end in
  let spec_obs := zb (outcome_ok b obs_killed obs) in
  (* ref = class of the report observed for the plainest death ([] = none observed: not judged) *)
  let uniform := zb (match ref with [] => true | _ => report_uniform (FRaise (XCls ref)) b obs_killed obs end) in
  match p_stat (ps s) with
  | PSDone f =>
      let '(kind, path) := final_code f in
      [1%Z; kind; zb (clean_exit s); zb (c_killed (cs s)); spec_obs; demand_code (demanded b); uniform] ++ path ++ [zb held]
  | _ => [0%Z; 0%Z; 0%Z; zb (c_killed (cs s)); spec_obs; demand_code (demanded b); uniform; 0%Z; zb held]
  end.
