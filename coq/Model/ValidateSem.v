(* Executable model of pedantic's @validate (fn_deco_validate.py).  A var-positional parameter is modelled when it is
   spelled `*args` (s_varpos; the implementation looks for the text '*args' in str(signature)); other spellings are not.

   No proofs here.  The model is an interpreter over a configuration `vcfg` whose value is
   regenerated from /repo by translator/t_validate.py on every run (Gen/Validate.v):
   handler tables of Parameter.validate, the is_required rule, the phases of
   _wrapper_content in source order, the treatment of undeclared arguments, the decision
   list of the unused-parameter loop, the call conventions of wrapper / async_wrapper for
   the three ReturnAs modes and the parameters of _as_args.

   Values are abstract (`value`, `is_none`); validators and the value_type conversion are
   arbitrary functions `value -> outcome value`; the external world (environment, Flask
   request) is part of the parameter description (`p_ext`) and of `wenv`.  The body of the
   decorated function is abstract: a run ends in `FBody b` (the body was invoked exactly
   once and received the name-to-value binding b), `FRaise e pn` (exception class e,
   attribute parameter_name pn, body not invoked) or `FNoCall`.                          *)
From Coq Require Import List Arith Bool.
From PV Require Import Base.Exn.
Import ListNotations.

Definition name := nat.
Definition self_name : name := 0.

(* ---------- configuration language (filled by the translator) ---------- *)
Inductive haction := HRaiseParam | HReraise | HKeepValue.
Definition htable := list (exn * haction).

Inductive phase := PhKwargs | PhPositional | PhUnused | PhFlaskStrict.
Inductive undeclared_action := URaiseTooMany | UPass.
Inductive unused_step := UExternal | URequired | UParamDefault | USigDefault.
Inductive conv_step := CIfSelfCallKw | CAsArgsCall | CDropNone | CCallKw.
Inductive return_as := ARGS | KWARGS_WITH_NONE | KWARGS_WITHOUT_NONE.

Record conv_cfg := {
  cv_args : list conv_step;
  cv_kw_with_none : list conv_step;
  cv_kw_without_none : list conv_step }.

Record vcfg := {
  (* Parameter.validate *)
  pv_conv_handlers : htable;
  pv_chain_handlers : htable;
  (* _wrapper_content: (guarded by `not ignore_input`, phase) in source order *)
  wc_phases : list (bool * phase);
  wc_kw_strict : undeclared_action;      (* undeclared keyword, strict *)
  wc_kw_lax : undeclared_action;         (* undeclared keyword, not strict *)
  wc_pos_strict : undeclared_action;     (* undeclared positional, `strict and k != 'self'` *)
  wc_pos_lax : undeclared_action;
  wc_pos_self_exempt : bool;
  wc_bind_handlers : list (exn * exn);   (* signature.bind_partial: caught class -> raised class *)
  wc_unused : list unused_step;          (* decision list, falls through to ValidateException *)
  (* wrapper / async_wrapper *)
  cv_sync : conv_cfg;
  cv_async : conv_cfg;
  (* _as_args *)
  aa_arrival_on_unknown_key : bool;      (* no **kwargs and a key that is no parameter -> arrival order (before fix d10af45) *)
  aa_signature_order : bool              (* otherwise: positional prefix in signature order *)
}.

Fixpoint hlookup (t : htable) (e : exn) : haction :=
  match t with
  | [] => HReraise
  | (c, a) :: t' => if derives e c then a else hlookup t' e
  end.

Fixpoint elookup (t : list (exn * exn)) (e : exn) : exn :=
  match t with
  | [] => e
  | (c, r) :: t' => if derives e c then r else elookup t' e
  end.

(* results that carry the parameter_name attribute of the raised exception *)
Inductive wres (A : Type) : Type :=
| WOk : A -> wres A
| WRaise : exn -> option name -> wres A.
Arguments WOk {A} _.
Arguments WRaise {A} _ _.

Section Sem.
Variable value : Type.
Variable is_none : value -> bool.

Definition vfun := value -> outcome value.
Definition dict := list (name * value).

Record ext := { e_has : bool; e_load : outcome value }.

Record param := {
  p_name : name;
  p_convert : option vfun;          (* value_type conversion, None when value_type is None *)
  p_chain : list vfun;              (* validators, in order *)
  p_required : bool;                (* the `required` argument of the constructor *)
  p_default : option value;         (* None = NoValue *)
  p_exc : exn;                      (* exception_type *)
  p_ext : option ext;               (* ExternalParameter: has_value(), load_value() at call time *)
  p_flask_json : bool }.            (* isinstance(p, FlaskJsonParameter) *)

Record sigparam := { sp_name : name; sp_kwonly : bool; sp_default : option value }.
Record signature := { s_params : list sigparam; s_varkw : bool; s_varpos : bool }.   (* s_varpos: takes *args *)

Record call := { c_args : list value; c_kwargs : dict }.

Record request := { r_is_json : bool; r_json_keys : list name }.
Record wenv := { w_flask_installed : bool; w_request : option request }.

Record deco := {
  d_params : list param;
  d_mode : return_as;
  d_strict : bool;
  d_ignore_input : bool }.

(* journal of validator invocations: parameter, index in its chain, input *)
Definition jentry := (name * nat * value)%type.
Definition M (A : Type) := (list jentry * wres A)%type.
Definition ret {A} (a : A) : M A := ([], WOk a).
Definition fail {A} (e : exn) (pn : option name) : M A := ([], WRaise e pn).
Definition mbind {A B} (m : M A) (f : A -> M B) : M B :=
  match m with
  | (j, WOk a) => let (j', r) := f a in (j ++ j', r)
  | (j, WRaise e pn) => (j, WRaise e pn)
  end.

(* ---------- dict (insertion ordered, unique keys) ---------- *)
Fixpoint dget (k : name) (d : dict) : option value :=
  match d with
  | [] => None
  | (k', v) :: d' => if Nat.eqb k' k then Some v else dget k d'
  end.
Definition dmem (k : name) (d : dict) : bool := match dget k d with Some _ => true | None => false end.
Fixpoint dset (k : name) (v : value) (d : dict) : dict :=
  match d with
  | [] => [(k, v)]
  | (k', v') :: d' => if Nat.eqb k' k then (k, v) :: d' else (k', v') :: dset k v d'
  end.
Fixpoint dremove (k : name) (d : dict) : dict :=
  match d with
  | [] => []
  | (k', v') :: d' => if Nat.eqb k' k then d' else (k', v') :: dremove k d'
  end.
Definition mem (k : name) (l : list name) : bool := existsb (Nat.eqb k) l.

(* ---------- Parameter ---------- *)
Variable cfg : vcfg.
Variable req_rule : bool -> bool -> bool.     (* is_required as a function of (default given, required) *)

Definition has_default (p : param) : bool := match p_default p with Some _ => true | None => false end.
Definition is_required (p : param) : bool := req_rule (has_default p) (p_required p).
Definition raise_param {A} (p : param) : wres A := WRaise (p_exc p) (Some (p_name p)).

Fixpoint run_chain (p : param) (i : nat) (fs : list vfun) (v : value) : M value :=
  match fs with
  | [] => ([], WOk v)
  | f :: fs' =>
      let '(j, r) :=
        match f v with
        | Ok v' => run_chain p (S i) fs' v'
        | Raise e =>
            match hlookup (pv_chain_handlers cfg) e with
            | HRaiseParam => ([], raise_param p)
            | HReraise => ([], WRaise e None)
            | HKeepValue => run_chain p (S i) fs' v
            end
        end in
      ((p_name p, i, v) :: j, r)
  end.

Definition run_convert (p : param) (v : value) : wres value :=
  match p_convert p with
  | None => WOk v
  | Some c =>
      match c v with
      | Ok v' => WOk v'
      | Raise e =>
          match hlookup (pv_conv_handlers cfg) e with
          | HRaiseParam => raise_param p
          | HReraise => WRaise e None
          | HKeepValue => WOk v
          end
      end
  end.

(* Parameter.validate *)
Definition param_validate (p : param) (v : value) : M value :=
  if is_none v then
    (if is_required p then ([], raise_param p) else ([], WOk v))
  else
    match run_convert p v with
    | WOk v' => run_chain p 0 (p_chain p) v'
    | WRaise e pn => ([], WRaise e pn)
    end.

(* ---------- _wrapper_content ---------- *)
Variable sg : signature.
Variable env : wenv.
Variable dc : deco.

(* parameter_dict = {p.name: p for p in parameters}: the last declaration of a name wins *)
Definition lookup_param (k : name) : option param :=
  find (fun p => Nat.eqb (p_name p) k) (rev (d_params dc)).

Definition wstate := (dict * list name)%type.       (* result, used_parameter_names *)

(* one arriving argument; `positional` selects the policy of the positional loop *)
Definition step_arg (positional : bool) (k : name) (v : value) (s : wstate) : M wstate :=
  match lookup_param k with
  | Some p => mbind (param_validate p v) (fun v' => ret (dset k v' (fst s), snd s ++ [p_name p]))
  | None =>
      let strict_here :=
        if positional then d_strict dc && negb (wc_pos_self_exempt cfg && Nat.eqb k self_name)
        else d_strict dc in
      let act :=
        if positional then (if strict_here then wc_pos_strict cfg else wc_pos_lax cfg)
        else (if strict_here then wc_kw_strict cfg else wc_kw_lax cfg) in
      match act with
      | URaiseTooMany => fail TooManyArgumentsC None
      | UPass => ret (dset k v (fst s), snd s)
      end
  end.

Fixpoint process (positional : bool) (xs : dict) (s : wstate) : M wstate :=
  match xs with
  | [] => ret s
  | (k, v) :: rest => mbind (step_arg positional k v s) (process positional rest)
  end.

(* signature.bind_partial of the positional arguments: the named part, and what goes to *args
   (`arguments` has the key 'args' only when that tuple is not empty) *)
Definition pos_params : list sigparam := filter (fun sp => negb (sp_kwonly sp)) (s_params sg).
Definition bind_partial (args : list value) : outcome (dict * list value) :=
  if s_varpos sg then Ok (combine (map sp_name pos_params) args, skipn (List.length pos_params) args)
  else if Nat.ltb (List.length pos_params) (List.length args) then Raise TypeErrorC
  else Ok (combine (map sp_name pos_params) args, []).

Definition sig_default (k : name) : option value :=
  match find (fun sp => Nat.eqb (sp_name sp) k) (s_params sg) with
  | Some sp => sp_default sp
  | None => None
  end.
Definition sig_has (k : name) : bool := existsb (fun sp => Nat.eqb (sp_name sp) k) (s_params sg).

(* one unused parameter: the decision list; None = no step decided *)
Fixpoint unused_decide (steps : list unused_step) (p : param) (r : dict) : M dict :=
  match steps with
  | [] => fail ValidateExceptionC None
  | UExternal :: rest =>
      match p_ext p with
      | Some e =>
          if e_has e then
            match e_load e with
            | Ok v => mbind (param_validate p v) (fun v' => ret (dset (p_name p) v' r))
            | Raise x => fail x None
            end
          else unused_decide rest p r
      | None => unused_decide rest p r
      end
  | URequired :: rest =>
      if is_required p then ([], raise_param p) else unused_decide rest p r
  | UParamDefault :: rest =>
      match p_default p with
      | Some d => ret (dset (p_name p) d r)
      | None => unused_decide rest p r
      end
  | USigDefault :: rest =>
      match sig_default (p_name p) with
      | Some d => ret (dset (p_name p) d r)
      | None => unused_decide rest p r
      end
  end.

Fixpoint unused_loop (ps : list param) (r : dict) : M dict :=
  match ps with
  | [] => ret r
  | p :: rest => mbind (unused_decide (wc_unused cfg) p r) (unused_loop rest)
  end.

Definition declared (k : name) : bool := existsb (fun p => Nat.eqb (p_name p) k) (d_params dc).

(* all([isinstance(p, FlaskJsonParameter) for p in parameter_dict.values()]): over the Parameters the dictionary keeps,
   i.e. the last declaration of every name *)
Definition all_flask_json : bool :=
  forallb (fun p => match lookup_param (p_name p) with Some q => p_flask_json q | None => true end) (d_params dc).

(* the `k == 'args' and wants_args` branch of the positional loop (since /repo 1908fef, 137d0c4): the positionals collected
   by the var-positional parameter are zipped, by position, with the Parameters not used so far (declaration order); a
   positional beyond the last such Parameter: strict -> TooManyArguments (before anything is validated), otherwise it is
   stored unchanged under the key "star-args[i]" (star_key i), so that it keeps its position in arrival order *)
Definition star_key (i : nat) : name := 1000 + i.
Fixpoint zip_loop (l : list (value * param)) (s : wstate) : M wstate :=
  match l with
  | [] => ret s
  | (a, p) :: rest =>
      mbind (param_validate p a) (fun v => zip_loop rest (dset (p_name p) v (fst s), snd s ++ [p_name p]))
  end.
Fixpoint pass_surplus (i : nat) (l : list value) (r : dict) : dict :=
  match l with
  | [] => r
  | a :: l' => pass_surplus (S i) l' (dset (star_key i) a r)
  end.
Definition zip_args (star : list value) (s : wstate) : M wstate :=
  let ps := filter (fun p => negb (mem (p_name p) (snd s))) (d_params dc) in
  if d_strict dc && Nat.ltb (List.length ps) (List.length star) then fail TooManyArgumentsC None
  else mbind (zip_loop (combine star ps) s)
             (fun s' => ret (pass_surplus (List.length ps) (skipn (List.length ps) star) (fst s'), snd s')).

Definition flask_strict (s : wstate) : M wstate :=
  if d_strict dc && w_flask_installed env then
    if all_flask_json then
      match w_request env with
      | None => fail RuntimeErrorC None          (* `request` outside a request context *)
      | Some rq =>
          if r_is_json rq && existsb (fun k => negb (declared k)) (r_json_keys rq)
          then fail TooManyArgumentsC None else ret s
      end
    else ret s
  else ret s.

Definition run_phase (c : call) (ph : phase) (s : wstate) : M wstate :=
  match ph with
  | PhKwargs => process false (c_kwargs c) s
  | PhPositional =>
      match bind_partial (c_args c) with
      | Ok (bound, star) =>
          mbind (process true bound s) (fun s' =>
            match star with
            | [] => ret s'
            | _ :: _ => zip_args star s'
            end)
      | Raise e => fail (elookup (wc_bind_handlers cfg) e) None
      end
  | PhUnused =>
      mbind (unused_loop (filter (fun p => negb (mem (p_name p) (snd s))) (d_params dc)) (fst s))
            (fun r => ret (r, snd s))
  | PhFlaskStrict => flask_strict s
  end.

Fixpoint run_phases (c : call) (phs : list (bool * phase)) (s : wstate) : M wstate :=
  match phs with
  | [] => ret s
  | (guarded, ph) :: rest =>
      if guarded && d_ignore_input dc then run_phases c rest s
      else mbind (run_phase c ph s) (run_phases c rest)
  end.

Definition wrapper_content (c : call) : M dict :=
  mbind (run_phases c (wc_phases cfg) ([], [])) (fun s => ret (fst s)).

(* ---------- call conventions and Python's argument binding ---------- *)
Definition unknown_key (r : dict) : bool := existsb (fun kv => negb (sig_has (fst kv))) r.

(* longest prefix of the positional-capable parameters that is present in r *)
Fixpoint take_prefix (ps : list sigparam) (r : dict) : list value * dict :=
  match ps with
  | [] => ([], r)
  | sp :: ps' =>
      if sp_kwonly sp then ([], r)
      else match dget (sp_name sp) r with
           | Some v => let (pos, kw) := take_prefix ps' (dremove (sp_name sp) r) in (v :: pos, kw)
           | None => ([], r)
           end
  end.

Definition as_args (r : dict) : list value * dict :=
  if s_varpos sg then (map snd r, [])                 (* VAR_POSITIONAL: arrival order *)
  else if (negb (s_varkw sg) && unknown_key r && aa_arrival_on_unknown_key cfg) || negb (aa_signature_order cfg)
  then (map snd r, [])
  else take_prefix (s_params sg) r.

Fixpoint conv_run (steps : list conv_step) (r : dict) : option (list value * dict) :=
  match steps with
  | [] => None
  | CIfSelfCallKw :: rest =>
      match dget self_name r with
      | Some v => Some ([v], dremove self_name r)
      | None => conv_run rest r
      end
  | CAsArgsCall :: _ => Some (as_args r)
  | CDropNone :: rest => conv_run rest (filter (fun kv => negb (is_none (snd kv))) r)
  | CCallKw :: _ => Some ([], r)
  end.

Definition conv_steps (is_async : bool) : list conv_step :=
  let c := if is_async then cv_async cfg else cv_sync cfg in
  match d_mode dc with
  | ARGS => cv_args c
  | KWARGS_WITH_NONE => cv_kw_with_none c
  | KWARGS_WITHOUT_NONE => cv_kw_without_none c
  end.

(* Python's binding of a call with positional values pos and keywords kws; surplus positionals go to *args *)
Fixpoint fill (ps : list sigparam) (d : dict) : option dict :=
  match ps with
  | [] => Some []
  | sp :: ps' =>
      match (match dget (sp_name sp) d with Some v => Some v | None => sp_default sp end) with
      | None => None
      | Some v => match fill ps' d with Some b => Some ((sp_name sp, v) :: b) | None => None end
      end
  end.

Definition py_bind (pos : list value) (kws : dict) : outcome dict :=
  if negb (s_varpos sg) && Nat.ltb (List.length pos_params) (List.length pos) then Raise TypeErrorC   (* too many positionals *)
  else
    let assigned := combine (map sp_name pos_params) pos in
    if existsb (fun kv => dmem (fst kv) assigned) kws then Raise TypeErrorC          (* multiple values *)
    else if negb (s_varkw sg) && unknown_key kws then Raise TypeErrorC               (* unexpected keyword *)
    else match fill (s_params sg) (assigned ++ kws) with
         | None => Raise TypeErrorC                                                  (* missing argument *)
         | Some b => Ok (b ++ filter (fun kv => negb (sig_has (fst kv))) kws)
         end.

Inductive final :=
| FBody (b : dict)
| FBodyStar (b : dict) (star : list value)      (* function with *args: the named binding and the tuple *)
| FRaise (e : exn) (pn : option name)
| FNoCall.

Definition run (is_async : bool) (c : call) : list jentry * final :=
  match wrapper_content c with
  | (j, WRaise e pn) => (j, FRaise e pn)
  | (j, WOk r) =>
      match conv_run (conv_steps is_async) r with
      | None => (j, FNoCall)
      | Some (pos, kws) =>
          match py_bind pos kws with
          | Ok b => (j, if s_varpos sg then FBodyStar b (skipn (List.length pos_params) pos) else FBody b)
          | Raise e => (j, FRaise e None)
          end
      end
  end.

End Sem.

Arguments FBody {value} _.
Arguments FBodyStar {value} _ _.
Arguments FRaise {value} _ _.
Arguments FNoCall {value}.
Arguments e_has {value} _.
Arguments e_load {value} _.
Arguments p_name {value} _.
Arguments p_convert {value} _.
Arguments p_chain {value} _.
Arguments p_required {value} _.
Arguments p_default {value} _.
Arguments p_exc {value} _.
Arguments p_ext {value} _.
Arguments p_flask_json {value} _.
Arguments sp_name {value} _.
Arguments sp_kwonly {value} _.
Arguments sp_default {value} _.
Arguments s_params {value} _.
Arguments s_varkw {value} _.
Arguments s_varpos {value} _.
Arguments c_args {value} _.
Arguments c_kwargs {value} _.
Arguments d_params {value} _.
Arguments d_mode {value} _.
Arguments d_strict {value} _.
Arguments d_ignore_input {value} _.
Arguments dget {value} _ _.
Arguments dset {value} _ _ _.
Arguments dmem {value} _ _.
Arguments dremove {value} _ _.
Arguments ret {value A} _.
Arguments fail {value A} _ _.
Arguments mbind {value A B} _ _.

(* ---------- the configuration the theorems are proved for ---------- *)
Definition reference_conv : conv_cfg := {|
  cv_args := [CIfSelfCallKw; CAsArgsCall];
  cv_kw_with_none := [CIfSelfCallKw; CCallKw];
  cv_kw_without_none := [CDropNone; CIfSelfCallKw; CCallKw] |}.

Definition reference_cfg : vcfg := {|
  pv_conv_handlers := [(ConversionErrorC, HRaiseParam)];
  pv_chain_handlers := [(ValidatorExceptionC, HRaiseParam)];
  wc_phases := [(true, PhKwargs); (true, PhPositional); (false, PhUnused); (false, PhFlaskStrict)];
  wc_kw_strict := URaiseTooMany;
  wc_kw_lax := UPass;
  wc_pos_strict := URaiseTooMany;
  wc_pos_lax := UPass;
  wc_pos_self_exempt := true;
  wc_bind_handlers := [(TypeErrorC, ValidateExceptionC)];
  wc_unused := [UExternal; URequired; UParamDefault; USigDefault];
  cv_sync := reference_conv;
  cv_async := reference_conv;
  aa_arrival_on_unknown_key := false;
  aa_signature_order := true |}.

Definition reference_req_rule (has_default required : bool) : bool := if has_default then false else required.
