(* Evaluation entry points used by the correspondence check of C16 (harness/c16.py).
   Codes only, never strings.                                                            *)
From Coq Require Import List Arith Bool ZArith.
From PV Require Import Base.Exn Model.Generator Model.Contextlib Model.SafeCtx Spec.CtxSpec Gen.CtxShape.
Import ListNotations.

Definition deco_for (var : variant) : deco :=
  match var with Sync => safe_contextmanager_deco | Async => safe_async_contextmanager_deco end.

(* the model of the with statement presupposes that the decorator returns
   contextmanager(wrapper) around a `def` / asynccontextmanager(wrapper) around an `async def` *)
Definition shape_ok (var : variant) (d : deco) : bool :=
  match var, d_async_def d, d_ret d with
  | Sync, false, RetContextmanager => true
  | Async, true, RetAsyncContextmanager => true
  | _, _, _ => false
  end.

(* which object leaves, read off the bookkeeping fields of the exception object *)
Definition classify (r : wres) : leaves :=
  match r with
  | WNormal => LNormal
  | WEarly => LEarly
  | WRaise e =>
      match eorigin e with
      | OBody t => LBody t
      | OGen u s => LGen u s
      | OPep479 =>
          match ecause e with
          | Some (Exc _ _ (OGen u s) _) => LGenWrapped u s
          | _ => LOther (ecls e)
          end
      | _ => LOther (ecls e)
      end
  end.

Definition zn (n : nat) : Z := Z.of_nat n.

Definition enc_event (e : event) : list Z :=
  match e with
  | EvGen u t a => [1%Z; zn u; zn t; match a with Some x => zn (S x) | None => 0%Z end]
  | EvBody t x => [2%Z; zn t; zn x; 0%Z]
  end.

Definition enc_leaves (l : leaves) : list Z :=
  match l with
  | LNormal => [0; 0; 0]
  | LEarly => [1; 0; 0]
  | LBody t => [2; zn t; 0]
  | LGen u s => [3; zn u; zn s]
  | LGenWrapped u s => [4; zn u; zn s]
  | LOther _ => [5; 0; 0]
  end%Z.

Definition enc_path (c : exn) : list Z := zn (List.length c) :: map zn c.

(* class of the object that leaves (length-prefixed path); empty for a normal end *)
Definition enc_class (r : wres) : list Z :=
  match r with WRaise e => enc_path (ecls e) | _ => [(-3)%Z] end.

Definition w0 : world := mkW [] 0.

(* ---- decoration under the circumstances of Model/SafeCtx.v `dctx` ------------------------------------- *)

(* the kind of `def` each decorator is meant for *)
Definition kind_of (var : variant) : fkind := match var with Sync => FGenerator | Async => FAsyncGenerator end.

Definition decorate (var : variant) (x : dctx) : gres := grun_block (d_guards (deco_for var)) x.

(* with statements over contextmanager(f) / asynccontextmanager(f) - the decorated function WITHOUT the
   wrapper, which is what an early `return contextmanager(f)` of the decorator hands back *)
Definition plain_use (var : variant) (u : use_t) (body : body_t) (w : world) : wres * world :=
  with_gen var (gen_of (u_id u) (Some (u_args u)) (use_beh u)) body w.

Fixpoint plain_nest (var : variant) (us : list use_t) (body : body_t) (x0 : val) (w : world) : wres * world :=
  match us with
  | [] => body x0 w
  | u :: us' => plain_use var u (fun x w' => plain_nest var us' body x w') w
  end.

Fixpoint plain_seq (var : variant) (items : list (list use_t * body_oc)) (w : world) : list wres * world :=
  match items with
  | [] => ([], w)
  | (us, o) :: rest =>
      let (r, w1) := plain_nest var us (simple_body (match us with u :: _ => u_id u | [] => 0 end) o) 0 w in
      let (rs, w2) := plain_seq var rest w1 in
      (r :: rs, w2)
  end.

(* [#events] events(4 each) [#results] (leaves(3) class)* [-1] [#events] events [#results] leaves(3)*
   first block: the model, second block: the property (Spec/CtxSpec.v; it does not depend on the switch or on -O).
   [-4; class path] ++ [-1] ++ second block: the decoration itself raised;  [-2]: no model of what the decorator returns *)
Definition eval_case (var : variant) (enabled optimize : bool) (items : list (list use_t * body_oc)) : list Z :=
  let spec_block :=
    let '(sj, sl) := spec_seq var items in
    [(-1)%Z] ++ [zn (List.length sj)] ++ flat_map enc_event sj ++ [zn (List.length sl)] ++ flat_map enc_leaves sl in
  let enc (r : list wres * world) :=
    let '(rs, w) := r in
    [zn (List.length (jrev w))] ++ flat_map enc_event (journal w)
    ++ [zn (List.length rs)] ++ flat_map (fun r => enc_leaves (classify r) ++ enc_class r) rs ++ spec_block in
  match decorate var (mkDctx (kind_of var) enabled optimize) with
  | GFall => if shape_ok var (deco_for var) then enc (with_seq var (d_prog (deco_for var)) items w0) else [(-2)%Z]
  | GReturned EarlyContextmanagerF => match var with Sync => enc (plain_seq var items w0) | Async => [(-2)%Z] end
  | GReturned EarlyAsyncContextmanagerF => match var with Async => enc (plain_seq var items w0) | Sync => [(-2)%Z] end
  | GReturned EarlyBareF => [(-2)%Z]
  | GRaised c => (-4)%Z :: enc_path c ++ spec_block
  end.

(* decoration time: [0] the wrapper is built / [1; class path] raised / [2; what] an early return without the wrapper
   ++ [-1] ++ [1] demanded accepted / [0] rejected *)
Definition eval_deco (var : variant) (k : fkind) (enabled optimize : bool) : list Z :=
  (match decorate var (mkDctx k enabled optimize) with
   | GFall => [0%Z]
   | GRaised c => 1%Z :: enc_path c
   | GReturned r => [2%Z; match r with EarlyBareF => 0 | EarlyContextmanagerF => 1 | EarlyAsyncContextmanagerF => 2 end%Z]
   end) ++ [(-1)%Z; if spec_accepts var k then 1%Z else 0%Z].

(* metadata / composition flags of the regenerated decorator: [wraps; async def; return shape] *)
Definition eval_shape (var : variant) : list Z :=
  let d := deco_for var in
  [if d_wraps d then 1 else 0; if d_async_def d then 1 else 0;
   match d_ret d with RetContextmanager => 1 | RetAsyncContextmanager => 2 | RetBare => 0 end]%Z.

(* generator protocol on its own (validates Model/Generator.v against real generators):
   ops 0 next, 1 throw <class>, 2 close, 3 send;  result per op: [0; value] / [1; who; class path]
   who: 0 the thrown object itself, 1 raised by the generator's own code, 2 RuntimeError chained to the thrown
   object, 3 RuntimeError chained to the generator's own exception, 4 protocol stop, 5 other   *)
Inductive gop := OpNext | OpThrow (c : exn) | OpClose | OpSend.

Definition who_of (thrown : option exc) (e : exc) : Z :=
  let is_thrown (x : exc) := match thrown with Some t => same x t | None => false end in
  if is_thrown e then 0%Z else
  match eorigin e with
  | OGen _ _ => 1%Z
  | OPep479 => match ecause e with
               | Some c => if is_thrown c then 2%Z else match eorigin c with OGen _ _ => 3%Z | _ => 5%Z end
               | None => 5%Z
               end
  | OProto => if derives (ecls e) RuntimeErrorC then 5%Z else 4%Z
  | _ => 5%Z
  end.

Fixpoint run_ops (var : variant) (g : genobj) (ops : list gop) (w : world) : list Z * world :=
  match ops with
  | [] => ([], w)
  | op :: ops' =>
      let '(out, g', w') :=
        match op with
        | OpNext | OpSend =>
            match g_next var g w with
            | (ROk x, g', w') => ([0%Z; zn x], g', w')
            | (RRaise e, g', w') => ([1%Z; who_of None e] ++ enc_path (ecls e), g', w')
            end
        | OpThrow c =>
            let (t, w1) := alloc c (OBody 0) None w in
            match g_throw var g t w1 with
            | (ROk x, g', w') => ([0%Z; zn x], g', w')
            | (RRaise e, g', w') => ([1%Z; who_of (Some t) e] ++ enc_path (ecls e), g', w')
            end
        | OpClose =>
            match g_close var g w with
            | (ROk _, g', w') => ([0%Z; 0%Z], g', w')
            | (RRaise e, g', w') => ([1%Z; who_of None e] ++ enc_path (ecls e), g', w')
            end
        end in
      let (rest, w'') := run_ops var g' ops' w' in
      (out ++ rest, w'')
  end.

Definition eval_gen (var : variant) (b : gbeh) (ops : list gop) : list Z :=
  let (out, w) := run_ops var (gen_of 0 (Some 0) b) ops w0 in
  out ++ [(-1)%Z] ++ flat_map enc_event (journal w).

(* plain contextlib.contextmanager / asynccontextmanager over an arbitrary generator (validates
   Model/Contextlib.v against the real contextlib, also on branches the safe wrapper never reaches):
   [#events] events(4 each) leaves(3) class *)
Definition eval_plain (var : variant) (b : gbeh) (o : body_oc) : list Z :=
  let '(r, w) := with_gen var (gen_of 0 (Some 0) b) (simple_body 0 o) w0 in
  [zn (List.length (jrev w))] ++ flat_map enc_event (journal w) ++ enc_leaves (classify r) ++ enc_class r.
