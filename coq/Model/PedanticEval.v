(* Evaluation entry points used by the correspondence checks of C03 / C04 / C05: the model of the
   call protocol instantiated with the checker model over the regenerated tables, and the oracle
   of Spec/PedanticSpec.v, on one generated case; results are small integer codes.            *)
From Coq Require Import List Arith Bool ZArith String.
From PV Require Import Base.Exn Base.Values Base.Ann Base.PyCall Model.CheckerCfg Model.Checker Model.CheckerEval
  Model.PedanticCfg Model.Pedantic Model.GenWrapper Spec.Conforms Spec.PedanticSpec Gen.CheckerTables Gen.Pedantic.
Import ListNotations.
Open Scope Z_scope.

Definition checker1 (ctx : nat -> option cls) : ann -> value -> tvenv -> outcome unit * tvenv :=
  assert_matches1 Gen.CheckerTables.checker_cfg ctx.

Definition run1 ctx := run Gen.Pedantic.pedantic_cfg (checker1 ctx) (consumes_model Gen.CheckerTables.checker_cfg).
Definition run_rk1 ctx := run_rk Gen.Pedantic.pedantic_cfg (checker1 ctx) (consumes_model Gen.CheckerTables.checker_cfg).
Definition run_gen1 ctx := run_gen Gen.Pedantic.pedantic_cfg (checker1 ctx) (consumes_model Gen.CheckerTables.checker_cfg).

(* exception classes as the harness canonicalises them (harness/p_common.py: EXC_CODES) *)
Definition exn_code (e : exn) : Z :=
  if derives e PTypeCheckC then 1
  else if derives e PTypeVarMismatchC then 2
  else if derives e PCallWithArgsC then 3
  else if derives e PedanticExceptionC then 4
  else if derives e TypeErrorC then 5
  else if derives e IndexErrorC then 6
  else if derives e [0%nat; 20%nat] then 20          (* user exception classes scripted into bodies *)
  else if derives e [0%nat; 21%nat] then 21
  else if derives e ValueErrorC then 7
  else if derives e StopIterationC then 8
  else if derives e ExceptionC then 9
  else if derives e [4%nat] then 22                 (* a scripted BaseException that is not an Exception *)
  else if derives e GeneratorExitC then 23
  else 10.

Definition nz (n : nat) : Z := Z.of_nat n.

Fixpoint path_code (p : list nat) : nat :=
  match p with [] => 0%nat | x :: p' => (S x + 7 * path_code p')%nat end.
(* receiver objects: instances by their id, classes by their path *)
Definition obj_code (v : value) : Z :=
  match v with
  | VInst _ i => 2 * nz i
  | VClass (CUser p) => 2 * nz (path_code p) + 1
  | _ => -9
  end.
Definition src_code (s : src) : list Z :=
  match s with
  | SObj v => [1; obj_code v]
  | SArg i => [2; nz i]
  | SKw k => [3; nz k]
  | SDefault k => [4; nz k]
  end.
Definition slot_code (sl : slot) : list Z :=
  match sl with
  | BOne s => src_code s
  | BStar l => [5; nz (List.length l)] ++ flat_map src_code l
  | BKws l => [6; nz (List.length l)] ++ map nz l
  end.
Definition entry_code (e : jentry) : list Z :=
  [-1] ++ flat_map (fun ns => nz (fst ns) :: slot_code (snd ns)) (fst e) ++ [-2] ++ flat_map src_code (snd e).
Definition journal_code (j : list jentry) : list Z := flat_map entry_code j.

Definition out_code (r : outcome value) : Z := match r with Ok _ => 0 | Raise e => exn_code e end.

(* the body of a generated function is scripted: it journals, then returns / raises the scripted outcome *)
Definition scripted (r : outcome value) : body := fun _ _ => r.

(* [model outcome; c03_args_bad; c03_result_bad; c04_call_ok; c04_result_ok; c05_positional; no_oneshot_iter;
    no_iterator_consumed; result_intact; does the model hand the caller a result with fewer live iterators than the body returned;
    c03_positional_bad; should_have_kwargs;
    -3; model journal ...; -4; twin outcome; twin journal ...] *)
Definition eval_call (mode : nat) (cl : list (nat * cls)) (f : fn) (c : call) (r : outcome value) : list Z :=
  let ctx := ctx_of cl in
  let m := match mode with 1%nat => run_rk1 ctx f c (scripted r) | _ => run1 ctx f c (scripted r) end in
  let t := twin f c (scripted r) in
  [out_code (fst m);
   enc_b (c03_args_bad ctx f c); enc_b (c03_result_bad ctx f (match r with Ok v => v | Raise _ => VNone end));
   enc_b (c04_call_ok ctx f c); enc_b (c04_result_ok ctx f r); enc_b (c05_positional f c); enc_b (no_oneshot_iter f c);
   enc_b (no_iterator_consumed Gen.CheckerTables.checker_cfg f c); enc_b (result_intact Gen.CheckerTables.checker_cfg f r);
   enc_b (match fst m, r with Ok v', Ok v => Nat.ltb (live v') (live v) | _, _ => false end);
   enc_b (c03_positional_bad ctx f c); enc_b (should_have_kwargs Gen.Pedantic.pedantic_cfg f); -3]
  ++ journal_code (snd m) ++ [-4; out_code (fst t)] ++ journal_code (snd t).

(* ---------------- generator functions ---------------- *)
(* the scripted generator body of the harness (w_pedantic.py: Run.gen): a list of steps; a throw() is answered
   according to on_throw: propagate (None), return a value, or yield a value and go on *)
Inductive gstep := SYield (v : value) | SRet (v : value) | SRaise (e : exn).
Inductive on_throw := TPropagate | TRet (v : value) | TYield (v : value).

(* event produced by the LAST resumption of the history, with the identity tag of the object it carries:
   k = index of the script step, 1000 = the on_throw object, -1 = None / not one of the script's objects *)
Fixpoint sim (ot : on_throw) (rem : list gstep) (k : Z) (at_extra : bool) (hist : list resume) : gev * Z :=
  match hist with
  | [] => (GReturn VNone, -1)
  | r :: hist' =>
      let go_on (ev : gev) (tag : Z) (rem' : list gstep) (k' : Z) (extra : bool) :=
        match hist' with [] => (ev, tag) | _ :: _ => match ev with GYield _ => sim ot rem' k' extra hist' | _ => (ev, tag) end end in
      match r with
      | RSend _ =>
          match rem with
          | [] => (GReturn VNone, -1)
          | SYield v :: rem' => go_on (GYield v) k rem' (k + 1) false
          | SRet v :: _ => (GReturn v, k)
          | SRaise e :: _ => (GRaise e, k)
          end
      | RThrow e =>
          if derives e GeneratorExitC || at_extra then (GRaise e, -1)
          else match ot with
               | TPropagate => (GRaise e, -1)
               | TRet v => (GReturn v, 1000)
               | TYield v => go_on (GYield v) 1000 rem k true
               end
      end
  end.
Definition script_body (ot : on_throw) (script : list gstep) : gbody := fun h => fst (sim ot script 0 false h).
Definition script_tag (ot : on_throw) (script : list gstep) (h : list resume) : Z := snd (sim ot script 0 false h).

Definition noctx : nat -> option cls := fun _ => None.
Definition gen_check := checker1 noctx.

Definition ires_code (r : ires) (tag : Z) : list Z :=
  match r with
  | IYield v => [0; 0; if is_none v then -1 else tag]
  | IStop v => [1; 0; if is_none v then -1 else tag]
  | IRaise e => [2; exn_code e; if (0 <=? tag) && (tag <? 1000) then 1 else 0]
  | INone => [3; 0; -1]
  end.

(* per operation [kind; code; identity]: 0 a value came back, 1 StopIteration(value), 2 another exception
   (code = class, identity = 1 iff it is the exception object of a script step), 3 close() returned *)
Fixpoint ops_code (ot : on_throw) (script : list gstep) (y s r : ann) (w : wstate) (ops : list gop) : list Z * wstate :=
  match ops with
  | [] => ([], w)
  | o :: ops' =>
      let (res, w1) := w_step gen_check y s r (script_body ot script) w o in
      let changed := negb (Nat.eqb (List.length (g_hist (w_inner w1))) (List.length (g_hist (w_inner w)))) in
      let tag := if changed then script_tag ot script (g_hist (w_inner w1)) else -1 in
      let code :=
        match res with
        | WValue v => [0; 0; if is_none v then -1 else tag]
        | WStop v => [1; 0; if is_none v then -1 else tag]
        | WRaise e =>
            let own := match script_body ot script (g_hist (w_inner w1)) with GRaise e' => changed && list_nat_eqb e e' | _ => false end in
            [2; exn_code e; if own && (0 <=? tag) && (tag <? 1000) then 1 else 0]
        | WNone => [3; 0; -1]
        end in
      let (rest, w2) := ops_code ot script y s r w1 ops' in
      (code ++ rest, w2)
  end.

(* the undecorated generator driven by the same operations *)
Fixpoint twin_ops_code (ot : on_throw) (script : list gstep) (g : gstate) (ops : list gop) : list Z :=
  match ops with
  | [] => []
  | o :: ops' =>
      let body := script_body ot script in
      let (res, g1) := match o with
                       | OpNext => inner_send body g VNone
                       | OpSend v => inner_send body g v
                       | OpThrow e => inner_throw body g e
                       | OpClose => inner_close body g
                       end in
      let changed := negb (Nat.eqb (List.length (g_hist g1)) (List.length (g_hist g))) in
      let tag := if changed then script_tag ot script (g_hist g1) else -1 in
      let tag' := match res with IRaise e => (match script_body ot script (g_hist g1) with GRaise e' => if changed && list_nat_eqb e e' then tag else -1 | _ => -1 end) | _ => tag end in
      ires_code res tag' ++ twin_ops_code ot script g1 ops'
  end.

Definition step_value (st : gstep) : option value := match st with SYield v | SRet v => Some v | SRaise _ => None end.
Definition bad_under (a : ann) (ov : option value) : Z :=
  match ov with Some v => enc_b (supported noctx a && is_mustnot (conforms noctx a v)) | None => 0 end.
Definition ok_under (a : ann) (ov : option value) : Z :=
  match ov with Some v => enc_b (supported noctx a && is_must (conforms noctx a v)) | None => 1 end.

(* [outcome of calling the generator function; c03_args_bad; c04_call_ok; -3; journal of the generator body (one entry
    once it has been started); -5; operation results ...; -4; results of the undecorated generator ...;
    -6; per script step: value bad as a yield; -7; ... bad as a return value; -8; per operation: sent value bad;
    -9; on_throw object bad as yield; bad as return;
    -10; per script step: value good as a yield; -11; good as return; -12; per operation: sent value good; -13; on_throw object good as yield; as return] *)
Definition eval_gen (cl : list (nat * cls)) (f : fn) (c : call) (ot : on_throw) (script : list gstep) (ops : list gop) : list Z :=
  let ctx := ctx_of cl in
  let head := [enc_b (c03_args_bad ctx f c); enc_b (c04_args_ok ctx f c)] in
  match run_gen1 ctx f c with
  | (Raise e, _) => exn_code e :: head ++ [-3; -5; -4; -6; -7; -8; -9; -10; -11; -12; -13]
  | (Ok g, _) =>
      match g_types g with
      | None => 99 :: head ++ [-3; -5; -4; -6; -7; -8; -9; -10; -11; -12; -13]
      | Some (y, s, r) =>
          let (codes, w) := ops_code ot script y s r wstate0 ops in
          let started := negb (Nat.eqb (List.length (g_hist (w_inner w))) 0) in
          let otv := match ot with TPropagate => None | TRet v | TYield v => Some v end in
          let sent := map (fun o => match o with OpSend v => Some v | OpNext => Some VNone | _ => None end) ops in
          0 :: head ++ [-3] ++ (if started then entry_code (g_bind g, g_cons g) else []) ++ [-5] ++ codes
            ++ [-4] ++ twin_ops_code ot script gstate0 ops
            ++ [-6] ++ map (fun st => bad_under y (step_value st)) script
            ++ [-7] ++ map (fun st => bad_under r (step_value st)) script
            ++ [-8] ++ map (bad_under s) sent
            ++ [-9; bad_under y otv; bad_under r otv]
            ++ [-10] ++ map (fun st => ok_under y (step_value st)) script
            ++ [-11] ++ map (fun st => ok_under r (step_value st)) script
            ++ [-12] ++ map (ok_under s) sent
            ++ [-13; ok_under y otv; ok_under r otv]
      end
  end.
