(* Evaluation entry points used by the correspondence checks of C03 / C04 / C05: the model of the
   call protocol instantiated with the checker model over the regenerated tables, and the oracle
   of Spec/PedanticSpec.v, on one generated case; results are small integer codes.            *)
From Coq Require Import List Arith Bool ZArith String.
From PV Require Import Base.Exn Base.Values Base.Ann Base.PyCall Model.CheckerCfg Model.Checker Model.CheckerEval
  Model.PedanticCfg Model.Pedantic Spec.Conforms Spec.PedanticSpec Gen.CheckerTables Gen.Pedantic.
Import ListNotations.
Open Scope Z_scope.

Definition checker1 (ctx : nat -> option cls) : ann -> value -> tvenv -> outcome unit * tvenv :=
  assert_matches1 Gen.CheckerTables.checker_cfg ctx.

Definition run1 ctx := run Gen.Pedantic.pedantic_cfg (checker1 ctx) (consumes_model Gen.CheckerTables.checker_cfg).
Definition run_rk1 ctx := run_rk Gen.Pedantic.pedantic_cfg (checker1 ctx) (consumes_model Gen.CheckerTables.checker_cfg).
Definition run_gen1 ctx := run_gen Gen.Pedantic.pedantic_cfg (checker1 ctx) (consumes_model Gen.CheckerTables.checker_cfg).

(* exception classes as the harness canonicalises them (harness/p_common.py: EXC_CODES) *)
Definition exn_code (e : exn) : Z :=
  if derives e PTypeCheckC then 1
  else if derives e PTypeVarMismatchC then 2
  else if derives e PCallWithArgsC then 3
  else if derives e PedanticExceptionC then 4
  else if derives e TypeErrorC then 5
  else if derives e IndexErrorC then 6
  else if derives e [0%nat; 20%nat] then 20          (* user exception classes scripted into bodies *)
  else if derives e [0%nat; 21%nat] then 21
  else if derives e ValueErrorC then 7
  else if derives e StopIterationC then 8
  else if derives e ExceptionC then 9
  else if derives e [4%nat] then 22                 (* a scripted BaseException that is not an Exception *)
  else if derives e GeneratorExitC then 23
  else 10.

Definition nz (n : nat) : Z := Z.of_nat n.

Fixpoint path_code (p : list nat) : nat :=
  match p with [] => 0%nat | x :: p' => (S x + 7 * path_code p')%nat end.
(* receiver objects: instances by their id, classes by their path *)
Definition obj_code (v : value) : Z :=
  match v with
  | VInst _ i => 2 * nz i
  | VClass (CUser p) => 2 * nz (path_code p) + 1
  | _ => -9
  end.
Definition src_code (s : src) : list Z :=
  match s with
  | SObj v => [1; obj_code v]
  | SArg i => [2; nz i]
  | SKw k => [3; nz k]
  | SDefault k => [4; nz k]
  end.
Definition slot_code (sl : slot) : list Z :=
  match sl with
  | BOne s => src_code s
  | BStar l => [5; nz (List.length l)] ++ flat_map src_code l
  | BKws l => [6; nz (List.length l)] ++ map nz l
  end.
Definition entry_code (e : jentry) : list Z :=
  [-1] ++ flat_map (fun ns => nz (fst ns) :: slot_code (snd ns)) (fst e) ++ [-2] ++ flat_map src_code (snd e).
Definition journal_code (j : list jentry) : list Z := flat_map entry_code j.

Definition out_code (r : outcome value) : Z := match r with Ok _ => 0 | Raise e => exn_code e end.

(* the body of a generated function is scripted: it journals, then returns / raises the scripted outcome *)
Definition scripted (r : outcome value) : body := fun _ _ => r.

(* [model outcome; c03_args_bad; c03_result_bad; c04_call_ok; c04_result_ok; c05_positional; no_oneshot_iter;
    -3; model journal ...; -4; twin outcome; twin journal ...] *)
Definition eval_call (mode : nat) (cl : list (nat * cls)) (f : fn) (c : call) (r : outcome value) : list Z :=
  let ctx := ctx_of cl in
  let m := match mode with 1%nat => run_rk1 ctx f c (scripted r) | _ => run1 ctx f c (scripted r) end in
  let t := twin f c (scripted r) in
  [out_code (fst m);
   enc_b (c03_args_bad ctx f c); enc_b (c03_result_bad ctx f (match r with Ok v => v | Raise _ => VNone end));
   enc_b (c04_call_ok ctx f c); enc_b (c04_result_ok ctx f r); enc_b (c05_positional f c); enc_b (no_oneshot_iter f c); -3]
  ++ journal_code (snd m) ++ [-4; out_code (fst t)] ++ journal_code (snd t).
