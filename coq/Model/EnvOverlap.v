(* C09, overlapping decorations.  A class decorator is at work for a while: it consults the guard FIRST (the value of the
   variable at that moment decides), then walks over the namespace of the class - reading attributes (descriptors run) and
   calling the method decorator it was given (for_all_methods) - and only then is done.  Code that runs in between, in the
   same thread (a method decorator / descriptor that itself toggles the switch and decorates other objects) or in another
   thread, is a piece of history carried out BETWEEN the guard and the completion of the decoration.  The machine of
   Model/EnvSwitch.v is extended by a stack of decorations in progress: XBegin d reads the variable for the guard and
   creates the class, XEnd completes the innermost decoration in progress with the value read at XBegin, everything in
   between is an ordinary step.  No proofs here.                                                                       *)
From Coq Require Import List Bool String Arith.
From PV Require Import Base.Exn Model.EnvSwitch.
Import ListNotations.
Open Scope list_scope.

Inductive xop := XOp (o : op) | XBegin (d : dkind) | XNext | XEnd.
(* a decoration in progress: the decorator, the address of the class, the value of the variable its guard saw *)
Record pending := { p_d : dkind; p_addr : nat; p_env : envv }.
Definition xstate := (state * list pending)%type.

Section XModel.
  Variable M : switch_model.

  Definition xstep (xs : xstate) (o : xop) : xstate * obs :=
    match o with
    | XOp o' => let (s', b) := step M (fst xs) o' in ((s', snd xs), b)
    | XBegin d =>
      match fam d with
      | FCls => ((alloc (fst xs) {| c_layers := []; c_base := None |},
                  {| p_d := d; p_addr := List.length (heap (fst xs)); p_env := env (fst xs) |} :: snd xs), ONone)
      | FFn => (xs, ONone)                     (* a function decorator has nothing to walk over: not an input *)
      end
    | XNext => (xs, ONone)                     (* the next hook fires: nothing happens in the machine *)
    | XEnd =>
      match snd xs with
      | [] => (xs, ONone)
      | p :: st' => let (s', b) := decorate_at M (fst xs) (p_d p) (p_addr p) (p_env p) in ((s', st'), b)
      end
    end.

  Fixpoint xrun (xs : xstate) (h : list xop) : xstate * list obs :=
    match h with
    | [] => (xs, [])
    | o :: h' => let (x1, b) := xstep xs o in let (x2, bs) := xrun x1 h' in (x2, b :: bs)
    end.
End XModel.
