(* C14 - a small regular-expression matcher on code points (Brzozowski derivatives).
   Covers the syntax the translator accepts: literals, character sets (ranges, \s, negation),
   `.`, concatenation, alternation, * + ?, groups and the end anchor `$` (which, as in
   Python's `re` without MULTILINE, holds at the end of the string and before a final newline).
   Because of `$` nullability depends on the remaining input.  No proofs here.            *)
From Coq Require Import List ZArith Bool.
From PV Require Import Model.ValidatorsBase.
Import ListNotations.
Open Scope Z_scope.

Inductive citem : Type :=
| CRange (lo hi : Z)
| CSpace.                      (* \s *)

Inductive re : Type :=
| RNone                        (* matches nothing *)
| REps
| RSet (neg : bool) (items : list citem)
| RCat (a b : re)
| RAlt (a b : re)
| RStar (a : re)
| REnd.                        (* $ *)

Definition RPlus (a : re) : re := RCat a (RStar a).
Definition ROpt (a : re) : re := RAlt REps a.
Definition RChr (c : Z) : re := RSet false [CRange c c].
Definition RAnyNoNl : re := RSet true [CRange 10 10].      (* . *)
Definition RAny : re := RSet true [].

Definition citem_mem (c : Z) (i : citem) : bool :=
  match i with
  | CRange lo hi => (lo <=? c) && (c <=? hi)
  | CSpace => is_ws c
  end.
Definition cset_mem (neg : bool) (items : list citem) (c : Z) : bool :=
  xorb neg (existsb (citem_mem c) items).

Definition end_ok (rest : str) : bool :=
  match rest with
  | [] => true
  | [c] => c =? 10
  | _ => false
  end.

Fixpoint nullable (rest : str) (r : re) : bool :=
  match r with
  | RNone => false
  | REps => true
  | RSet _ _ => false
  | RCat a b => nullable rest a && nullable rest b
  | RAlt a b => nullable rest a || nullable rest b
  | RStar _ => true
  | REnd => end_ok rest
  end.

(* smart constructors: prune the dead branches so that derivatives stay small *)
Definition mkCat (a b : re) : re :=
  match a with
  | RNone => RNone
  | REps => b
  | _ => RCat a b
  end.
Definition mkAlt (a b : re) : re :=
  match a, b with
  | RNone, _ => b
  | _, RNone => a
  | _, _ => RAlt a b
  end.

(* derivative by c when the remaining input is c :: rest *)
Fixpoint deriv (c : Z) (rest : str) (r : re) : re :=
  match r with
  | RNone | REps | REnd => RNone
  | RSet neg items => if cset_mem neg items c then REps else RNone
  | RCat a b =>
      let d := mkCat (deriv c rest a) b in
      if nullable (c :: rest) a then mkAlt d (deriv c rest b) else d
  | RAlt a b => mkAlt (deriv c rest a) (deriv c rest b)
  | RStar a => mkCat (deriv c rest a) (RStar a)
  end.

Fixpoint re_fullmatch (r : re) (s : str) : bool :=
  match s with
  | [] => nullable [] r
  | c :: s' => re_fullmatch (deriv c s' r) s'
  end.

Inductive matchmode : Type := MFull | MSearch | MPrefix.     (* re.fullmatch / re.search / re.match *)

(* re.search: some substring matches *)
Definition re_search (r : re) (s : str) : bool :=
  re_fullmatch (RCat (RStar RAny) (RCat r (RStar RAny))) s.
Definition re_prefix (r : re) (s : str) : bool := re_fullmatch (RCat r (RStar RAny)) s.
Definition re_test (m : matchmode) (r : re) (s : str) : bool :=
  match m with MFull => re_fullmatch r s | MSearch => re_search r s | MPrefix => re_prefix r s end.
