(* Evaluation entry points used by the correspondence checks of C01/C02/C06/C07/C08.     *)
From Coq Require Import List Arith Bool ZArith.
From PV Require Import Base.Exn Base.Values Base.Ann Model.CheckerCfg Model.Checker Spec.Conforms Gen.CheckerTables.
Import ListNotations.
Open Scope Z_scope.

Definition ctx_of (l : list (nat * cls)) : nat -> option cls :=
  fun n => match find (fun p => Nat.eqb (fst p) n) l with Some p => Some (snd p) | None => None end.

(* canonical outcome classes compared with the implementation *)
Definition enc_exn (e : exn) : Z :=
  if derives e PTypeCheckC then 1
  else if derives e PTypeVarMismatchC then 2
  else if derives e PedanticExceptionC then 3
  else if derives e ExceptionC then 4
  else 5.
Definition enc_unit (r : outcome unit) : Z := match r with Ok _ => 0 | Raise e => enc_exn e end.
Definition enc_verdict (x : verdict) : Z := match x with Must => 1 | MustNot => 2 | Unspec => 0 end.
Definition enc_b (b : bool) : Z := if b then 1 else 0.

(* [outcome of assert_value_matches_type; verdict of the spec; in the vocabulary?] *)
Definition eval_check (cl : list (nat * cls)) (a : ann) (v : value) : list Z :=
  let ctx := ctx_of cl in
  [enc_unit (fst (assert_matches1 Gen.CheckerTables.checker_cfg ctx a v []));
   enc_verdict (conforms ctx a v); enc_b (supported ctx a)].

(* introspection layer: [_has_required_type_arguments; len(get_type_arguments); name code (0 = not in the tables' vocabulary)] *)
Definition eval_intro (a : ann) : list Z :=
  [enc_b (has_required Gen.CheckerTables.checker_cfg a); Z.of_nat (n_type_args a);
   match ann_name a with Some t => Z.of_nat (S (tname_code t)) | None => 0 end].
