(* Evaluation entry points used by the correspondence check of C18 (harness/c18.py).
   Results are lists of small integer codes.  No proofs.                                               *)
From Coq Require Import List ZArith Bool String.
From PV Require Import Base.Exn Model.WrapperSem Spec.WrapperSpec Model.WrapperStack Gen.Wrappers Model.WrapperKw.
From PV Require Gen.Pedantic.
Import ListNotations.
Open Scope nat_scope.
Open Scope list_scope.

(* ---- signatures: CPython's argument binding, as far as "does the call bind" goes -------------------- *)
Record sigspec := { sg_pos : list (string * bool);        (* positional-or-keyword parameters: name, has a default *)
                    sg_varargs : bool;
                    sg_kwonly : list (string * bool);
                    sg_varkw : bool }.

Definition mem_str (n : string) (l : list string) : bool := existsb (String.eqb n) l.

Definition accepts_sig (sg : sigspec) (a : args) (k : kwargs) : bool :=
  let na := List.length a in
  let pnames := map fst (sg_pos sg) in
  let knames := map fst k in
  let filled := firstn na pnames in
  (Nat.leb na (List.length pnames) || sg_varargs sg)
  && forallb (fun n => negb (mem_str n filled)
                       && (mem_str n pnames || mem_str n (map fst (sg_kwonly sg)) || sg_varkw sg)) knames
  && forallb (fun p => snd p || mem_str (fst p) knames) (skipn na (sg_pos sg))
  && forallb (fun p => snd p || mem_str (fst p) knames) (sg_kwonly sg).

(* ---- the world: a journal of body invocations, each with the length of the wrappers' journal at that moment *)
(* stamp: number of prints / warnings so far, num_calls of every count_calls wrapper (outermost first) *)
Definition jrec := (callee * args * kwargs * (nat * list Z))%type.
Definition jst2 := list jrec.

Definition count2 (c : callee) (j : jst2) : nat :=
  List.length (filter (fun r => match fst (fst (fst r)), c with CFunc, CFunc => true | COther, COther => true | _, _ => false end) j).

Inductive out := ORet (v : val) | ORaise (e : exn).

(* f_named: the callable has __name__ / __qualname__ (false: functools.partial(f), an instance with __call__) *)
Record fspec := { f_iscoro : bool; f_sig : sigspec; f_outs : list out; f_tail : out; f_named : bool }.

Definition xid_of (c : callee) (i : nat) : xid := XId (match c with CFunc => i | COther => 1000 + i end).

(* the body: scripted outcome per invocation index *)
Definition jbase2 (c : callee) (f : fspec) (stamp : nat * list Z) : base jst2 := fun a k j =>
  if accepts_sig (f_sig f) a k then
    let i := count2 c j in
    let j' := j ++ [(c, a, k, stamp)] in
    match nth i (f_outs f) (f_tail f) with
    | ORet v => (ROk v, j')
    | ORaise e => (RExc e (xid_of c i), j')
    end
  else (RExc TypeErrorC (XFresh 6), j).

Definition run2 (c : callee) (f : fspec) (cids : list nat) : csem jst2 := fun a k s =>
  let n := List.length (filter (fun e => match e with EvCount _ => false | _ => true end) (ws_log (ws s))) in
  let (r, j') := jbase2 c f (n, map (fun id => cnt_get id (ws_cnt (ws s))) cids) a k (cs s) in (r, Build_st j' (ws s)).

(* a plain def, or a plain async def: binding at call time, the body when awaited *)
Definition desc2 (c : callee) (f : fspec) (cids : list nat) : cdesc jst2 :=
  if f_iscoro f then
    {| c_named := f_named f; c_iscoro := true; c_mode := true;
       c_call := fun a k s => if accepts_sig (f_sig f) a k then (ROk (VPending c a k), s) else (RExc TypeErrorC (XFresh 6), s);
       c_resume := run2 c f cids |}
  else
    {| c_named := f_named f; c_iscoro := false; c_mode := false; c_call := run2 c f cids; c_resume := fun _ _ s => (RExc TypeErrorC (XFresh 0), s) |}.

(* ---- values ------------------------------------------------------------------------------------------- *)
(* `==` of the harness objects: VObj n is a fresh list [n mod 10] *)
Definition veq (a b : val) : bool :=
  match a, b with
  | VObj n, VObj m => Nat.eqb (n mod 10) (m mod 10)
  | VNone, VNone => true
  | _, _ => false
  end.

(* ---- levels -------------------------------------------------------------------------------------------- *)
Record lspec := { l_name : dname; l_rv : val; l_rules : list (string * string);
                  l_shape : kw_shape;           (* require_kwargs: what DecoratedFunction sees of the callable this level decorates *)
                  l_dir : bool }.               (* overrides: the name is in dir(base_class) *)

(* repr / str of the harness objects: the objects listed in `bad` have a __repr__ that raises (a prepared instance of)
   the given class; everything else has the builtin one *)
Definition repr_of (bad : list (nat * exn)) : val -> st jst2 -> res * st jst2 := fun v s =>
  match v with
  | VObj n => match find (fun p => Nat.eqb (fst p) n) bad with
              | Some (_, e) =>
                (* RecursionError: the object's own __repr__ is a traced method; the interpreter makes a fresh instance *)
                if prefix e RecursionErrorC && prefix RecursionErrorC e then (RExc e (XFresh 8), s)
                else (RExc e (XId (2000 + n)), s)
              | None => (ROk VOpaque, s)
              end
  (* the callable itself: functools.partial(obj.m) / a callable object whose repr shows an object with a raising
     __repr__; listed under the codes 999 (decorated function) and 998 (other_func) *)
  | VCallable c =>
    let n := match c with CFunc => 999 | COther => 998 end in
    match find (fun p => Nat.eqb (fst p) n) bad with
    | Some (_, e) => (RExc e (XId (2000 + n)), s)
    | None => (ROk VOpaque, s)
    end
  | _ => (ROk VOpaque, s)
  end.

Definition mk_cx (bad : list (nat * exn)) (l : lspec) (other : cdesc jst2) (id : nat) : ctx jst2 :=
  Build_ctx (fun _ => other) (fun _ => l_rv l) (l_rules l) veq (fun a b => negb (veq a b))
            (kw_test_of Gen.Pedantic.pedantic_cfg (l_shape l))      (* the regenerated keyword-only test *)
            raise_warning_prog id (repr_of bad).

(* head = outermost; the identity of a level is its height above the function, so it survives further decoration *)
Fixpoint mk_levels (bad : list (nat * exn)) (ls : list lspec) (other : cdesc jst2) (go : base jst2) : list (level jst2) :=
  match ls with
  | [] => []
  | l :: r => (l_name l, mk_cx bad l other (List.length r), go) :: mk_levels bad r other go
  end.

Fixpoint count_ids (ls : list lspec) : list nat :=
  match ls with
  | [] => []
  | l :: r => match l_name l with NCountCalls => [List.length r] | _ => [] end ++ count_ids r
  end.

(* creating the wrapper objects of the levels `fresh` (a prefix of all levels): num_calls := the initial value *)
Fixpoint init_counters (ls : list lspec) (fresh : nat) (w : wst) : wst :=
  match fresh, ls with
  | S n, l :: r =>
    let w' := init_counters r n w in
    match d_counter_init (deco_of (l_name l)) with
    | Some z => {| ws_log := ws_log w'; ws_cnt := cnt_set (List.length r) z (ws_cnt w'); ws_filter := ws_filter w'; ws_warned := ws_warned w' |}
    | None => w'
    end
  | _, _ => w
  end.

(* does the decorated callable carry the attributes of the innermost function: every level hands back the callable
   itself or a wrapper with @wraps *)
Fixpoint stack_attrs (l : list (level jst2)) (f : cdesc jst2) : bool :=
  match l with
  | [] => true
  | (n, _, _) :: l' =>
    stack_attrs l' f &&
    match attrs_of (select (deco_of n) (c_iscoro (stack_callee l' f))) with FromCallee => true | Own => false end
  end.

(* decoration, innermost first; Some cls = the decoration itself raises *)
(* does what a level decorates have a name: a wrapper always has (its own, or the copied one); overrides hands the
   callable back *)
Fixpoint named_top (ls : list lspec) (base_named : bool) : bool :=
  match ls with
  | [] => base_named
  | l :: r => match l_name l with NOverrides => named_top r base_named | _ => true end
  end.

Fixpoint decorate_all (ls : list lspec) (base_named : bool) : option exn :=
  match ls with
  | [] => None
  | l :: ls' =>
    match decorate_all ls' base_named with
    | Some e => Some e
    | None => match run_pre (d_pre (deco_of (l_name l))) true (named_top ls' base_named) (fun _ => l_dir l) with
              | PreRaise e => Some e
              | _ => None
              end
    end
  end.

Fixpoint spec_decorate_all (ls : list lspec) : option exn :=
  match ls with
  | [] => None
  | l :: ls' =>
    match spec_decorate_all ls' with
    | Some e => Some e
    | None => match l_name l with NOverrides => if l_dir l then None else Some POverrideC | _ => None end
    end
  end.

(* is the statement applicable to this stack (see level_side in Proofs/WrapperProofs.v): returns the
   iscoroutinefunction flag of the decorated callable, None when the statement makes no claim *)
Fixpoint spec_ok (ls : list lspec) (base_coro : bool) (other_coro : bool) : option bool :=
  match ls with
  | [] => Some base_coro
  | l :: ls' =>
    match spec_ok ls' base_coro other_coro with
    | None => None
    | Some below =>
      let plain := Bool.eqb below base_coro in
      match l_name l with
      | NMock => if plain then Some (spec_iscoro NMock below) else None
      | NDoesSame => if plain && negb other_coro then Some (spec_iscoro NDoesSame below) else None
      | n => Some (spec_iscoro n below)
      end
    end
  end.

(* ---- encodings ------------------------------------------------------------------------------------------ *)
Open Scope Z_scope.
Definition zn (n : nat) : Z := Z.of_nat n.
Definition enc_exn (e : exn) : Z := fold_left (fun acc x => acc * 100 + zn x + 1) e 0.
Definition enc_xid (x : xid) : Z := match x with XId n => zn n | XFresh site => 5000 + zn site end.
Definition enc_callee (c : callee) : Z := match c with CFunc => 0 | COther => 1 end.
Definition enc_val (v : val) : list Z :=
  match v with
  | VObj n => [0; zn n] | VNone => [1; 0] | VCls n => [2; zn n] | VOpaque => [3; 0]
  | VPending c _ _ => [4; enc_callee c] | VWrapperCoro _ _ => [5; 0] | VCallable c => [9; enc_callee c]
  end.
Definition enc_res (r : res) : list Z :=
  match r with
  | ROk v => enc_val v ++ [0]
  | RExc c x => [6; enc_exn c; enc_xid x]
  | RUnmodelled => [7; 0; 0]
  end.

Definition NAMES : list string :=
  ["self"; "p0"; "p1"; "p2"; "p3"; "q0"; "q1"; "q2"; "x0"; "x1"; "x2"; "old0"; "old1"; "old2"; "cls";
   "func"; "args"; "kwargs"; "wrapper"; "f"; "result"; "value"; "other"; "k"; "v"; "return_value"; "decorated_func";
   "call"; "original_result"; "other_func"; "start_time"; "async_wrapper"; "param_dict"; "result_kwargs"]%string.
Fixpoint index_of (s : string) (l : list string) (i : nat) : nat :=
  match l with [] => 99%nat | x :: l' => if String.eqb x s then i else index_of s l' (S i) end.
Definition enc_name (s : string) : Z := zn (index_of s NAMES 0).

Definition enc_jrec (r : jrec) : list Z :=
  match r with
  | (c, a, k, (n, cnts)) =>
    [enc_callee c; zn n; zn (List.length cnts)] ++ cnts ++ [zn (List.length a)] ++ flat_map enc_val a ++ [zn (List.length k)]
    ++ flat_map (fun kv => enc_name (fst kv) :: enc_val (snd kv)) k
  end.
Definition enc_ev (e : wevent) : Z :=
  match e with EvPrint => 1 | EvWarn WDeprecation => 2 | EvWarn (WOtherCat _) => 3 | EvCount n => 1000 + n end.
Definition enc_filter (f : faction) : Z :=
  match f with FaAlways => 0 | FaDefault => 1 | FaError => 2 | FaIgnore => 3 | FaOnce => 4 | FaModule => 5 end.

Definition ws0 (flt : faction) : wst := {| ws_log := []; ws_cnt := []; ws_filter := flt; ws_warned := false |}.

(* run a history, collecting per call: result, counter after the call *)
Fixpoint run_hist (h : csem jst2) (cids : list nat) (calls : list (args * kwargs)) (s : st jst2) : list Z * st jst2 :=
  match calls with
  | [] => ([], s)
  | (a, k) :: r =>
    let (res1, s1) := h a k s in
    let (rest, s2) := run_hist h cids r s1 in
    (enc_res res1 ++ map (fun id => cnt_get id (ws_cnt (ws s1))) cids ++ rest, s2)
  end.

Fixpoint run_hist_spec (g : base jst2) (calls : list (args * kwargs)) (j : jst2) : list Z * jst2 :=
  match calls with
  | [] => ([], j)
  | (a, k) :: r =>
    let (res1, j1) := g a k j in
    let (rest, j2) := run_hist_spec g r j1 in
    (enc_res res1 ++ rest, j2)
  end.

(* A history with decoration as an operation: the function is decorated with ls, called (calls), then the resulting
   callable is decorated again with ls2 (by call, on top) and called (calls2).
   model: [0] ++ per call of phase 1 (res(3), num_calls of every count_calls wrapper) ++ [-6] ++ the same for phase 2
          ++ [-1] ++ journal ++ [-2] ++ wrapper journal ++ [-3; filter after]
          ++ [-4; attrs from callee; iscoroutinefunction (after phase 1); the same two after the second decoration]
          or [9; class] when the decoration raises
   then [-5] then the specification:
          [0 | 1 (no claim); iscoro] ++ per call res(3) ++ [-6] ++ per call res(3) ++ [-1] ++ journal   or [9; class]   *)
Definition eval_case (bad : list (nat * exn)) (ls : list lspec) (f : fspec) (other : fspec) (flt : faction) (calls : list (args * kwargs))
           (ls2 : list lspec) (calls2 : list (args * kwargs)) : list Z :=
  let b (x : bool) : Z := if x then 1 else 0 in
  let all := ls2 ++ ls in
  let go := jbase2 COther other (0%nat, []) in
  let model :=
    match decorate_all all (f_named f) with
    | Some e => [9; enc_exn e]
    | None =>
      let cids1 := count_ids ls in
      let cids2 := count_ids all in
      let lv1 := mk_levels bad ls (desc2 COther other cids1) go in
      let lv2 := mk_levels bad all (desc2 COther other cids2) go in
      let base1 := desc2 CFunc f cids1 in
      let base2 := desc2 CFunc f cids2 in
      let top1 := stack_callee lv1 base1 in
      let top2 := stack_callee lv2 base2 in
      let s0 := Build_st [] (init_counters ls (List.length ls) (ws0 flt)) in
      let (rs1, s1) := run_hist (use_callee top1) cids1 calls s0 in
      let s1' := Build_st (cs s1) (init_counters all (List.length ls2) (ws s1)) in
      let (rs2, s2) := run_hist (use_callee top2) cids2 calls2 s1' in
      [0] ++ rs1 ++ [-6] ++ rs2 ++ [-1] ++ flat_map enc_jrec (cs s2) ++ [-2] ++ map enc_ev (ws_log (ws s2))
      ++ [-3; enc_filter (ws_filter (ws s2))]
      ++ [-4; b (stack_attrs lv1 base1); b (c_iscoro top1); b (stack_attrs lv2 base2); b (c_iscoro top2)]
    end in
  let spec :=
    match spec_decorate_all all with
    | Some e => [9; enc_exn e]
    | None =>
      match spec_ok ls (f_iscoro f) (f_iscoro other), spec_ok all (f_iscoro f) (f_iscoro other) with
      | Some _, Some coro =>
        let g := jbase2 CFunc f (0%nat, []) in
        let dummy := desc2 COther other [] in
        let (rs1, j1) := run_hist_spec (stack_spec (mk_levels bad ls dummy go) g) calls [] in
        let (rs2, j2) := run_hist_spec (stack_spec (mk_levels bad all dummy go) g) calls2 j1 in
        [0; b coro] ++ rs1 ++ [-6] ++ rs2 ++ [-1] ++ flat_map enc_jrec j2
      | _, _ => [1; 0]
      end
    end in
  model ++ [-5] ++ spec.

(* ---- classes decorated through for_all_methods ----------------------------------------------------------- *)
(* [does the access reach the function: 0/1] ++ res(3) ++ [-1] ++ journal ++ [-5] ++ the same for the undecorated class
   ++ [-5] ++ the same for the decorator applied to the function with the arguments routed as the undecorated class
   routes them (what the decorated class would do if for_all_methods kept the member kind) *)
(* is the __repr__ of a class decorated with this shortcut replaced by a traced one (then printing `self` inside the
   traced __repr__ recurses): not when the shortcut passes the name in `skip` *)
Definition repr_traced (shortcut : string) : bool :=
  match find (fun p => String.eqb (fst p) shortcut) class_skips with
  | Some (_, names) => negb (mem_str "__repr__" names)
  | None => true
  end.

Definition eval_class (bad0 : list (nat * exn)) (shortcut : string) (own_repr : bool) (repr_calls_member : bool) (n : dname) (f : fspec) (m : member) (acc : access) (self cls0 sub : val) (a : args) (k : kwargs) : list Z :=
  (* repr_calls_member: the class's (untraced) __repr__ calls another method of the class - and every method is traced *)
  let bad := bad0 ++ (if (own_repr && repr_traced shortcut) || repr_calls_member then [(50, RecursionErrorC); (51, RecursionErrorC)] else [])%nat in
  let fn := desc2 CFunc f [] in
  let l := {| l_name := n; l_rv := VNone; l_rules := [];
              l_shape := {| ks_name := "f"; ks_first_self := false; ks_star_args := true; ks_staticmethod := false;
                            ks_setter := false; ks_rk_text := false; ks_n_at := 0 |};
              l_dir := true |} in
  let s0 := Build_st [] (ws0 FaDefault) in
  let show (r : res * st jst2) := enc_res (fst r) ++ [-1] ++ flat_map enc_jrec (cs (snd r)) in
  (match deco_args forall_cfg m acc self cls0 sub a with
   | Some _ => [1] ++ show (class_call forall_cfg n (mk_cx bad l fn 0) fn m acc self cls0 sub a k s0)
   | None => [0]
   end) ++ [-5] ++
  (match orig_args m acc self cls0 sub a with
   | Some o => [1] ++ show (use_callee fn o k s0)
   | None => [0]
   end) ++ [-5] ++
  (match orig_args m acc self cls0 sub a with
   | Some o => [1] ++ show (use_wrapped (deco_of n) (with_callee (mk_cx bad l fn 0) fn) o k s0)
   | None => [0]
   end).

(* ---- metadata of a decorator by name ------------------------------------------------------------------------ *)
(* [found; all variants carry @wraps; attributes from the callee (coroutine fn / plain fn); iscoroutinefunction kept
    (coroutine fn / plain fn)] ++ [-5; named as wrapper decorator in the statement; named as coroutine-keeping] *)
Definition eval_meta (name : string) : list Z :=
  let b (x : bool) : Z := if x then 1 else 0 in
  let attr (c : chosen) := match c with ChBroken => false | _ => match attrs_of c with FromCallee => true | Own => false end end in
  (match find (fun nd => String.eqb (fst nd) name) all_decos with
   | None => [0; 0; 0; 0; 0; 0]
   | Some (_, d) =>
     [1; b (forallb w_wraps (variants d)); b (attr (select d true)); b (attr (select d false));
      b (chosen_async (select d true) true); b (chosen_async (select d false) false)]
   end) ++ [-5; b (mem_str name wrapper_decorators); b (mem_str name coroutine_wrapper_decorators)].
