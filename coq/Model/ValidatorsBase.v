(* C14 - value universe and the CPython primitives the validators rest on.  No proofs here.

   Strings are lists of code points (Z).  Floats are SpecFloat.spec_float triples fed from
   float.hex(); comparisons between int / bool / float are exact (as in CPython), NaN is
   unordered.  Everything that CPython decides with Unicode tables or with a large parser
   (str.lower / str.upper outside ASCII, int(str) / float(str) outside the canonical decimal
   form, str() of floats / containers / objects, UUID(), datetime.fromisoformat,
   datetime + timedelta) enters through the record `oracles` (a Section variable wherever
   it is used); the only thing ever assumed of an oracle is its documented raise-set.      *)
From Coq Require Import List ZArith Bool SpecFloat.
From Coq Require Decimal DecimalZ.
From PV Require Import Base.Exn.
Import ListNotations.
Open Scope Z_scope.

Definition str := list Z.

Inductive value : Type :=
| VNone
| VBool (b : bool)
| VInt (z : Z)
| VFloat (f : spec_float)
| VStr (s : str)
| VBytes (s : list Z)
| VList (l : list value)
| VTuple (l : list value)
| VDict (ks : list value) (vs : list value)     (* insertion order; vs parallel to ks *)
| VObj (n : nat)                                (* plain object(): no length, not iterable *)
| VOpq (kind : Z) (payload : list Z).           (* 1 UUID [int]  2 datetime [fields]  3 enum member [index] *)

Definition K_UUID := 1.
Definition K_DATETIME := 2.
Definition K_ENUM := 3.

(* ---------- structural equality (oracle tables are keyed by values) ---------------------- *)
Fixpoint zlist_eqb (a b : list Z) : bool :=
  match a, b with
  | [], [] => true
  | x :: a', y :: b' => (x =? y) && zlist_eqb a' b'
  | _, _ => false
  end.

Definition sf_eqb (a b : spec_float) : bool :=
  match a, b with
  | S754_zero s, S754_zero t => Bool.eqb s t
  | S754_infinity s, S754_infinity t => Bool.eqb s t
  | S754_nan, S754_nan => true
  | S754_finite s m e, S754_finite t n f => Bool.eqb s t && Pos.eqb m n && (e =? f)
  | _, _ => false
  end.

Fixpoint value_eqb (a b : value) : bool :=
  let fix go (x y : list value) : bool :=
    match x, y with
    | [], [] => true
    | u :: x', w :: y' => value_eqb u w && go x' y'
    | _, _ => false
    end in
  match a, b with
  | VNone, VNone => true
  | VBool x, VBool y => Bool.eqb x y
  | VInt x, VInt y => x =? y
  | VFloat x, VFloat y => sf_eqb x y
  | VStr x, VStr y => zlist_eqb x y
  | VBytes x, VBytes y => zlist_eqb x y
  | VList x, VList y => go x y
  | VTuple x, VTuple y => go x y
  | VDict k1 v1, VDict k2 v2 => go k1 k2 && go v1 v2
  | VObj n, VObj m => Nat.eqb n m
  | VOpq k p, VOpq l q => (k =? l) && zlist_eqb p q
  | _, _ => false
  end.

(* ---------- whitespace, strip, ASCII case mapping -------------------------------------------- *)
(* Py_UNICODE_ISSPACE: the code points str.strip() removes, str.isspace() accepts and the regex
   class \s matches (validated exhaustively over all 0x110000 code points on every run)     *)
Definition ws_ranges : list (Z * Z) :=
  [(9, 13); (28, 32); (133, 133); (160, 160); (5760, 5760); (8192, 8202); (8232, 8233);
   (8239, 8239); (8287, 8287); (12288, 12288)].
(* the code points int(str) and float(str) skip around the number: CPython maps the non-ASCII
   Py_UNICODE_ISSPACE characters to a blank and then skips the C-locale isspace() characters, so the
   ASCII separators U+001C..U+001F - whitespace for str.strip() - are NOT skipped:
   int("\x1f2") raises ValueError although "\x1f2".strip() == "2"
   (validated exhaustively over all code points on every run as well)                        *)
Definition num_ws_ranges : list (Z * Z) :=
  [(9, 13); (32, 32); (133, 133); (160, 160); (5760, 5760); (8192, 8202); (8232, 8233);
   (8239, 8239); (8287, 8287); (12288, 12288)].
Definition in_ranges (rs : list (Z * Z)) (c : Z) : bool :=
  existsb (fun r => (fst r <=? c) && (c <=? snd r)) rs.
Definition is_ws (c : Z) : bool := in_ranges ws_ranges c.
Definition is_num_ws (c : Z) : bool := in_ranges num_ws_ranges c.

Section Strip.
  Variable p : Z -> bool.
  Fixpoint lstrip_by (s : list Z) : list Z :=
    match s with
    | [] => []
    | c :: s' => if p c then lstrip_by s' else s
    end.
  Definition rstrip_by (s : list Z) : list Z := rev (lstrip_by (rev s)).
  Definition strip_by (s : list Z) : list Z := rstrip_by (lstrip_by s).
End Strip.
Definition lstrip : str -> str := lstrip_by is_ws.
Definition rstrip : str -> str := rstrip_by is_ws.
Definition py_strip : str -> str := strip_by is_ws.        (* str.strip() *)
Definition num_strip : str -> str := strip_by is_num_ws.   (* what int() / float() skip *)

Definition is_ascii (s : str) : bool := forallb (fun c => (0 <=? c) && (c <? 128)) s.
Definition lower_c (c : Z) : Z := if (65 <=? c) && (c <=? 90) then c + 32 else c.
Definition upper_c (c : Z) : Z := if (97 <=? c) && (c <=? 122) then c - 32 else c.

(* ---------- decimal printing and parsing of integers ------------------------------------------- *)
Fixpoint uint_codes (d : Decimal.uint) : str :=
  match d with
  | Decimal.Nil => []
  | Decimal.D0 l => 48 :: uint_codes l | Decimal.D1 l => 49 :: uint_codes l | Decimal.D2 l => 50 :: uint_codes l
  | Decimal.D3 l => 51 :: uint_codes l | Decimal.D4 l => 52 :: uint_codes l | Decimal.D5 l => 53 :: uint_codes l
  | Decimal.D6 l => 54 :: uint_codes l | Decimal.D7 l => 55 :: uint_codes l | Decimal.D8 l => 56 :: uint_codes l
  | Decimal.D9 l => 57 :: uint_codes l
  end.
(* str(z) for an int z: Coq's own binary -> decimal conversion (no digit limit: the model is
   the mathematical printer, CPython's int/str digit limit is outside the model)          *)
Definition show_Z (z : Z) : str :=
  match Z.to_int z with
  | Decimal.Pos d => uint_codes d
  | Decimal.Neg d => 45 :: uint_codes d
  end.

Definition is_digit (c : Z) : bool := (48 <=? c) && (c <=? 57).
Fixpoint digits_val (acc : Z) (s : str) : option Z :=
  match s with
  | [] => Some acc
  | c :: s' => if is_digit c then digits_val (acc * 10 + (c - 48)) s' else None
  end.
(* the canonical decimal forms  -?[0-9]+  (everything else int() accepts - signs, underscores,
   inner whitespace, non-ASCII digits - is left to the oracle)                              *)
Definition parse_dec (s : str) : option Z :=
  match s with
  | [] => None
  | c :: s' =>
      if c =? 45 then match s' with [] => None | _ => option_map Z.opp (digits_val 0 s') end
      else digits_val 0 s
  end.

(* CPython's int <-> str digit limit (sys.get_int_max_str_digits(), 4300 by default): str(z) and int(s)
   raise ValueError when more than 4300 digit characters are involved (the sign does not count, leading
   zeros do).  Validated against CPython at 4299 / 4300 / 4301 digits on every run.               *)
Definition MAX_STR_DIGITS : Z := 4300.
Definition digit_count (s : str) : Z := Z.of_nat (List.length (filter is_digit s)).
Definition over_limit (s : str) : bool := MAX_STR_DIGITS <? digit_count s.
(* str(z) for an int *)
Definition str_of_int (z : Z) : outcome str :=
  let s := show_Z z in if over_limit s then Raise ValueErrorC else Ok s.

(* formatting a value - f'{value}', str(value), repr inside a container - fails exactly when an int of more than
   4300 digits occurs in it (str of a list is the repr of its items); everything else always prints *)
Definition int_fmt_ok (z : Z) : bool := match str_of_int z with Ok _ => true | Raise _ => false end.
Fixpoint fmt_ok (v : value) : bool :=
  let fix all (l : list value) : bool :=
    match l with [] => true | x :: l' => fmt_ok x && all l' end in
  match v with
  | VInt z => int_fmt_ok z
  | VBytes s => forallb int_fmt_ok s
  | VList l | VTuple l => all l
  | VDict ks vs => all ks && all vs
  | _ => true
  end.

(* what the message of a rejection formats (the f-string is evaluated before the exception is raised) *)
Inductive fmtarg : Type :=
| FValue      (* the local `value` *)
| FBound      (* self._value of Min / Max *)
| FOther.     (* a length, a type, a pattern text, a class: always prints *)

(* self.raise_exception(msg=f'...', value=value): ValueError from the f-string wins over the ValidatorException *)
Definition reject {A} (VE : exn) (fmt : list fmtarg) (v bound : value) : outcome A :=
  if forallb (fun a => match a with FValue => fmt_ok v | FBound => fmt_ok bound | FOther => true end) fmt
  then Raise VE else Raise ValueErrorC.

(* ---------- numbers: exact comparison ---------------------------------------------------------- *)
Inductive xnum : Type := XNan | XInf (neg : bool) | XFin (m e : Z).      (* m * 2^e *)

Definition xnum_of_float (f : spec_float) : xnum :=
  match f with
  | S754_zero _ => XFin 0 0
  | S754_infinity s => XInf s
  | S754_nan => XNan
  | S754_finite s m e => XFin (if s then Z.neg m else Z.pos m) e
  end.

Definition num_view (v : value) : option xnum :=
  match v with
  | VBool b => Some (XFin (if b then 1 else 0) 0)
  | VInt z => Some (XFin z 0)
  | VFloat f => Some (xnum_of_float f)
  | _ => None
  end.

Definition fin_cmp (m1 e1 m2 e2 : Z) : comparison :=
  let e := Z.min e1 e2 in Z.compare (m1 * 2 ^ (e1 - e)) (m2 * 2 ^ (e2 - e)).

Definition xcmp (a b : xnum) : option comparison :=
  match a, b with
  | XNan, _ | _, XNan => None
  | XInf s1, XInf s2 => Some (if s1 then (if s2 then Eq else Lt) else (if s2 then Gt else Eq))
  | XInf s, XFin _ _ => Some (if s then Lt else Gt)
  | XFin _ _, XInf s => Some (if s then Gt else Lt)
  | XFin m1 e1, XFin m2 e2 => Some (fin_cmp m1 e1 m2 e2)
  end.

Inductive cmpop : Type := CLt | CLe | CGt | CGe | CEq | CNe.

Definition cmp_holds (op : cmpop) (c : option comparison) : bool :=
  match op, c with
  | CLt, Some Lt => true
  | CLe, Some Lt | CLe, Some Eq => true
  | CGt, Some Gt => true
  | CGe, Some Gt | CGe, Some Eq => true
  | CEq, Some Eq => true
  | CNe, Some Eq => false
  | CNe, _ => true
  | _, _ => false
  end.

(* `a <op> b` on the numeric tower; anything else against a number: TypeError *)
Definition py_cmp (op : cmpop) (a b : value) : outcome bool :=
  match num_view a, num_view b with
  | Some x, Some y => Ok (cmp_holds op (xcmp x y))
  | _, _ => Raise TypeErrorC
  end.

Definition z_cmp (op : cmpop) (a b : Z) : bool := cmp_holds op (Some (Z.compare a b)).

Definition is_nan (v : value) : bool := match v with VFloat S754_nan => true | _ => false end.

(* float(z) for an int: round to nearest, ties to even, OverflowError beyond the double range.
   The result is the canonical triple (mantissa in [2^52, 2^53)) the harness also produces.  *)
Definition float_of_Z (z : Z) : outcome spec_float :=
  if z =? 0 then Ok (S754_zero false) else
  let s := z <? 0 in
  let a := Z.abs z in
  let n := Z.log2 a + 1 in
  if n <=? 53 then Ok (S754_finite s (Z.to_pos (Z.shiftl a (53 - n))) (n - 53))
  else
    let sh := n - 53 in
    let q := Z.shiftr a sh in                 (* a / 2^sh *)
    let r := Z.land a (Z.ones sh) in          (* a mod 2^sh *)
    let half := Z.shiftl 1 (sh - 1) in
    let q' := if (r >? half) || ((r =? half) && Z.odd q) then q + 1 else q in
    let m := if q' =? 9007199254740992 then 4503599627370496 else q' in
    let e := if q' =? 9007199254740992 then sh + 1 else sh in
    if e + 53 >? 1024 then Raise OverflowErrorC else Ok (S754_finite s (Z.to_pos m) e).

Definition sf_one : spec_float := S754_finite false 4503599627370496 (-52).

(* int(f) for a float: truncation; ValueError for NaN, OverflowError for the infinities *)
Definition int_of_float (f : spec_float) : outcome Z :=
  match f with
  | S754_zero _ => Ok 0
  | S754_nan => Raise ValueErrorC
  | S754_infinity _ => Raise OverflowErrorC
  | S754_finite s m e =>
      let a := if 0 <=? e then Z.pos m * 2 ^ e else Z.pos m / 2 ^ (- e) in
      Ok (if s then - a else a)
  end.

Definition float_is_integral (f : spec_float) : bool :=
  match f with
  | S754_zero _ => true
  | S754_finite _ m e => (0 <=? e) || (Z.pos m mod 2 ^ (- e) =? 0)
  | _ => false
  end.

(* ---------- container protocol ------------------------------------------------------------------- *)
Definition zlen {A} (l : list A) : Z := Z.of_nat (List.length l).

(* len(value) for collections.abc.Sized values *)
Definition py_len (v : value) : option Z :=
  match v with
  | VStr s => Some (zlen s) | VBytes s => Some (zlen s)
  | VList l => Some (zlen l) | VTuple l => Some (zlen l)
  | VDict ks _ => Some (zlen ks)
  | _ => None
  end.

Definition is_str (v : value) : bool := match v with VStr _ => true | _ => false end.
(* isinstance(value, collections.abc.Sequence) *)
Definition is_sequence (v : value) : bool :=
  match v with VStr _ | VBytes _ | VList _ | VTuple _ => true | _ => false end.
(* iteration order of collections.abc.Iterable values *)
Definition iter_items (v : value) : option (list value) :=
  match v with
  | VStr s => Some (map (fun c => VStr [c]) s)
  | VBytes s => Some (map VInt s)
  | VList l => Some l | VTuple l => Some l
  | VDict ks _ => Some ks
  | _ => None
  end.

(* Python == on the hashable atoms enum members carry *)
Definition py_eq (a b : value) : bool :=
  match num_view a, num_view b with
  | Some x, Some y => cmp_holds CEq (xcmp x y)
  | None, None => value_eqb a b
  | _, _ => false
  end.

(* the modelled part of int(str): None = not a canonical decimal (left to the oracle) *)
Definition int_of_canonical (s : str) : option (outcome Z) :=
  let t := num_strip s in
  match parse_dec t with
  | Some z => Some (if over_limit t then Raise ValueErrorC else Ok z)
  | None => None
  end.

(* ---------- oracles -------------------------------------------------------------------------------- *)
Record oracles : Type := {
  o_str : value -> str;                        (* str(v) where not modelled: floats, containers, objects *)
  o_lower : str -> str;                        (* str.lower on strings with non-ASCII characters *)
  o_upper : str -> str;                        (* str.upper on strings with non-ASCII characters *)
  o_int_of_str : str -> outcome Z;             (* int(s) outside the canonical decimal forms; raises ValueError *)
  o_int_of_bytes : list Z -> outcome Z;        (* int(b) for a bytes object; raises ValueError *)
  o_float_of_str : str -> outcome spec_float;  (* float(s); raises ValueError *)
  o_uuid : str -> outcome value;               (* uuid.UUID(s); raises ValueError *)
  o_fromiso : value -> outcome value;          (* datetime.fromisoformat(v); raises TypeError, ValueError *)
  o_epoch_plus : spec_float -> outcome value   (* datetime(1970,1,1) + timedelta(seconds=f); OverflowError, ValueError *)
}.

Section WithOracles.
  Variable O : oracles.

  (* str(v): raises ValueError only when an int beyond the digit limit occurs in v *)
  Definition py_str (v : value) : outcome str :=
    if negb (fmt_ok v) then Raise ValueErrorC else
    match v with
    | VNone => Ok [78; 111; 110; 101]
    | VBool true => Ok [84; 114; 117; 101]
    | VBool false => Ok [70; 97; 108; 115; 101]
    | VInt z => Ok (show_Z z)
    | VStr s => Ok s
    | _ => Ok (o_str O v)
    end.
  Definition py_lower (s : str) : str := if is_ascii s then map lower_c s else o_lower O s.
  Definition py_upper (s : str) : str := if is_ascii s then map upper_c s else o_upper O s.
  (* int(s): the canonical decimals are read by the model (digit limit included), the rest by the oracle *)
  Definition py_int_of_str (s : str) : outcome Z :=
    match int_of_canonical s with Some o => o | None => o_int_of_str O s end.

  (* int(v) *)
  Definition py_int (v : value) : outcome Z :=
    match v with
    | VBool b => Ok (if b then 1 else 0)
    | VInt z => Ok z
    | VFloat f => int_of_float f
    | VStr s => py_int_of_str s
    | VBytes s => o_int_of_bytes O s
    | _ => Raise TypeErrorC
    end.

  (* float(v) on isinstance(v, (int, float, str)) *)
  Definition py_float (v : value) : outcome spec_float :=
    match v with
    | VBool b => Ok (if b then sf_one else S754_zero false)
    | VInt z => float_of_Z z
    | VFloat f => Ok f
    | VStr s => o_float_of_str O s
    | _ => Raise TypeErrorC
    end.
End WithOracles.

(* ---------- handler tables (regenerated from every try/except) ----------------------------------- *)
Inductive haction : Type :=
| HRaiseValidator          (* self.raise_exception(...) *)
| HRaise (c : exn)         (* raise <Class>(...) *)
| HReraise.                (* raise ex / bare raise *)
Definition htable := list (list exn * haction).

(* rv: what `self.raise_exception(msg=f'...')` in a handler amounts to (see `reject`) *)
Definition handle {A} (rv : outcome A) (t : htable) (e : exn) : outcome A :=
  match find (fun row => existsb (derives e) (fst row)) t with
  | Some (_, HRaiseValidator) => rv
  | Some (_, HRaise c) => Raise c
  | Some (_, HReraise) => Raise e
  | None => Raise e
  end.

Definition catches (t : htable) (e : exn) : bool :=
  existsb (fun row => existsb (derives e) (fst row)) t.

(* ---------- shapes extracted by the translator -------------------------------------------------- *)
Inductive domkind : Type := DomNone | DomSized | DomSequence | DomIterable | DomStr | DomIntFloat | DomIntFloatStr.

Definition in_dom (d : domkind) (v : value) : bool :=
  match d with
  | DomNone => true
  | DomSized => match py_len v with Some _ => true | None => false end
  | DomSequence => is_sequence v
  | DomIterable => match iter_items v with Some _ => true | None => false end
  | DomStr => is_str v
  | DomIntFloat => match v with VBool _ | VInt _ | VFloat _ => true | _ => false end
  | DomIntFloatStr => match v with VBool _ | VInt _ | VFloat _ | VStr _ => true | _ => false end
  end.

(* one branch of the if / elif chain of Min / Max:
     [not] value <op> self._value   and   [not] self._include_boundary      (in either order) *)
Record btest : Type := {
  bt_op : cmpop;
  bt_neg : bool;           (* the comparison is negated: `not value >= self._value` *)
  bt_pol : bool;           (* the branch is taken when include_boundary has this value *)
  bt_flag_first : bool;    (* the flag is the first operand of `and`: the comparison is only evaluated when it holds *)
  bt_fmt : list fmtarg     (* what the message of this branch formats *)
}.

Inductive ne_ret_kind : Type := NERetStripIfFlag | NERetStripAlways | NERetValue.
Record notempty_shape : Type := {
  ne_test_strips : bool;          (* emptiness of a str is decided on value.strip() *)
  ne_return : ne_ret_kind;         (* value.strip() if self.strip else value *)
  ne_seq_dom : domkind;           (* isinstance(value, collections.abc.Sequence) *)
  ne_seq_op : cmpop;              (* len(value) <op> <lit> rejects *)
  ne_seq_lit : Z;
  ne_fmt_str : list fmtarg;       (* what the three rejection messages format *)
  ne_fmt_seq : list fmtarg;
  ne_fmt_else : list fmtarg
}.
Record composite_shape : Type := {
  co_threads : bool;              (* value = validator.validate(value) instead of discarding *)
  co_returns_input : bool
}.
Record foreach_shape : Type := {
  fe_dom : domkind;
  fe_threads : bool;              (* item = validator.validate(item) *)
  fe_return_in_loop : bool;       (* `return results` inside the item loop *)
  fe_dom_fmt : list fmtarg
}.
Inductive normop : Type := NStr | NStrip | NLower | NUpper.
