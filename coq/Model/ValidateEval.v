(* Evaluation entry point of the correspondence checks of C12 / C13 (harness/c12.py, c13.py).
   Concrete value universe, the harness-defined validators, a model of convert_value on that
   universe, and `eval_case : ... -> list Z` = model outcome ++ [-1] ++ what the specification demands. *)
From Coq Require Import List ZArith Bool Arith.
From PV Require Import Base.Exn Model.ValidateSem Spec.ValidateSpec Gen.Validate Model.ValidateSources Gen.ValidateSources
  Spec.ValidateSourcesSpec.
Import ListNotations.
Open Scope Z_scope.

(* strings: decimal numerals (canonical, or padded with blanks) and a fixed word table shared with
   harness/w_validate.py: 0 'true' 1 'false' 2 'abc' 3 ' True ' 4 '' 5 'x1' 6 'True' *)
Inductive sval := SNum (z : Z) (padded : bool) | SWord (k : Z).
(* VList: a list of strings (request.args.getlist / convert_value(..., list)) *)
Inductive val := VNone | VInt (z : Z) | VBool (b : bool) | VStr (s : sval) | VSelf | VList (items : list sval).

Definition is_none (v : val) : bool := match v with VNone => true | _ => false end.

Definition reject {A} : outcome A := Raise ValidatorExceptionC.
Definition conv_err {A} : outcome A := Raise ConversionErrorC.

(* convert_value(value, target_type) for target_type in int, str, bool *)
Definition convert_int (v : val) : outcome val :=
  match v with
  | VInt _ | VBool _ => Ok v                       (* isinstance(True, int) *)
  | VStr (SNum z _) => Ok (VInt z)
  | _ => conv_err
  end.
Definition convert_str (v : val) : outcome val :=
  match v with
  | VStr _ => Ok v
  | VInt z => Ok (VStr (SNum z false))
  | VBool true => Ok (VStr (SWord 0))
  | VBool false => Ok (VStr (SWord 1))
  | _ => conv_err
  end.
Definition convert_bool (v : val) : outcome val :=
  match v with
  | VBool _ => Ok v
  | VInt 1 | VStr (SNum 1 _) | VStr (SWord 0) | VStr (SWord 3) | VStr (SWord 6) => Ok (VBool true)
  | VInt 0 | VStr (SNum 0 _) | VStr (SWord 1) => Ok (VBool false)
  | _ => conv_err
  end.
(* target type list: str(value).strip().lower().split(',') with every item stripped - one item on this universe *)
Definition lower_word (k : Z) : Z := match k with 3 | 6 => 0 | _ => k end.
Definition convert_list (v : val) : outcome val :=
  match v with
  | VList _ => Ok v
  | VInt z | VStr (SNum z _) => Ok (VList [SNum z false])
  | VStr (SWord k) => Ok (VList [SWord (lower_word k)])
  | VBool true => Ok (VList [SWord 0])
  | VBool false => Ok (VList [SWord 1])
  | _ => conv_err
  end.
Definition converter (code : Z) : option (val -> outcome val) :=
  match code with 1 => Some convert_int | 2 => Some convert_str | 3 => Some convert_bool | 4 => Some convert_list | _ => None end.

(* str.strip() on the string universe (EnvironmentVariableParameter.load_value) *)
Definition strip (v : val) : val :=
  match v with
  | VStr (SNum z _) => VStr (SNum z false)
  | VStr (SWord 3) => VStr (SWord 6)
  | _ => v
  end.

(* harness-defined validators (harness/w_validate.py, class HV) *)
Inductive vdesc :=
| DIdent
| DMax (k : Z)            (* int <= k passes, everything else is rejected *)
| DAdd (k : Z)            (* int -> int + k, everything else is rejected *)
| DToNone                 (* returns None *)
| DToStr                  (* int -> its numeral, str unchanged, everything else rejected *)
| DRejectAll
| DRaiseIfNeg (e : exn)   (* raises e (any class) on a negative int *)
| DConst (z : Z)
| DNoneToZero             (* None -> 0, everything else unchanged *)
| DRejectOddSub.          (* odd int: rejected with a subclass of ValidatorException *)

Definition interp (d : vdesc) (v : val) : outcome val :=
  match d with
  | DIdent => Ok v
  | DMax k => match v with VInt z => if z <=? k then Ok v else reject | _ => reject end
  | DAdd k => match v with VInt z => Ok (VInt (z + k)) | _ => reject end
  | DToNone => Ok VNone
  | DToStr => match v with VInt z => Ok (VStr (SNum z false)) | VStr _ => Ok v | _ => reject end
  | DRejectAll => reject
  | DRaiseIfNeg e => match v with VInt z => if z <? 0 then Raise e else Ok v | _ => Ok v end
  | DConst z => Ok (VInt z)
  | DNoneToZero => match v with VNone => Ok (VInt 0) | _ => Ok v end
  | DRejectOddSub => match v with VInt z => if Z.odd z then Raise (ValidatorExceptionC ++ [0%nat]) else Ok v | _ => Ok v end
  end.

(* ---- the world of the external sources (Model/ValidateSources.v) on this universe ----
   header names: code = parameter name + 100 * spelling (0 as the parameter, 1 upper case, 2 capitalised): one WSGI key;
   environment variables: codes chosen by the harness; a Python list of strings is VList;
   the harness-defined Deserializable (harness/w_validate.py HDeser.from_json): returns the member p1 of the JSON object;
   KeyError without it, TypeError for the document null, ValidatorException for a negative int, ValueError for a bool *)
Definition hkey (k : nat) : nat := Nat.modulo k 100.
Definition item_of (v : val) : sval := match v with VStr s => s | _ => SWord 99 end.
Definition of_list (l : list val) : val := VList (map item_of l).
Definition from_json (b : json_body val) : outcome val :=
  match b with
  | JNull => Raise TypeErrorC
  | JObject ms =>
      match assoc_by (Nat.eqb 1%nat) ms with
      | None => Raise KeyErrorC
      | Some (VInt z) => if z <? 0 then Raise ValidatorExceptionC else Ok (VInt z)
      | Some (VBool _) => Raise ValueErrorC
      | Some v => Ok v
      end
  end.

Definition src_has_v := src_has val hkey.
Definition src_load_v := src_load val hkey strip of_list from_json.
Definition ext_of_source_v := ext_of_source val hkey strip of_list from_json.

(* request: None = outside a request context; json: None = not a JSON request, Some None = the document null *)
Definition mkworld (rq : option (option (option (list (nat * val))) * list (nat * list val) * list (nat * list val) * list (nat * val)))
           (environ : list (nat * val)) : world val :=
  {| wd_request := match rq with
                   | None => None
                   | Some (j, f, a, h) =>
                       Some {| fr_json := match j with None => None | Some None => Some JNull | Some (Some ms) => Some (JObject ms) end;
                               fr_form := f; fr_args := a; fr_headers := h |}
                   end;
     wd_environ := environ |}.

(* external source as the harness set it up: absent / harness-defined source holding a value / harness-defined source
   whose load_value raises / a source object of one of the classes of the library: kind, key (self.name or the
   environment variable), as_list = (value_type == list).
   For the MODEL the source is interpreted through the description of its class regenerated from the code
   (Gen/ValidateSources.v); for the SPECIFICATION it is what Spec/ValidateSourcesSpec.v says about that kind of source
   (key present / the value held), independent of the code. *)
Inductive extdesc := XNone | XAbsent | XValue (v : val) | XBroken (e : exn) | XSrc (k : source_kind) (key : nat) (as_list : bool).

Definition class_of_kind (k : source_kind) : source_class :=
  match k with
  | KJson => flask_json_parameter | KForm => flask_form_parameter | KQuery => flask_get_parameter
  | KHeader => flask_header_parameter | KEnv => environment_variable_parameter
  end.

Definition ext_of (w : world val) (x : extdesc) : outcome (option (ext val)) :=
  match x with
  | XNone => Ok None
  | XAbsent => Ok (Some {| e_has := false; e_load := Raise KeyErrorC |})
  | XValue v => Ok (Some {| e_has := true; e_load := Ok v |})
  | XBroken e => Ok (Some {| e_has := true; e_load := Raise e |})
  | XSrc k key l =>
      match ext_of_source_v {| s_cls := class_of_kind k; s_key := key; s_list := l; s_catch := true |} w with
      | Ok x => Ok (Some x)
      | Raise e => Raise e
      end
  end.

Definition spec_ext_of (w : world val) (x : extdesc) : option (ext val) :=
  match x with
  | XNone => None
  | XAbsent => Some {| e_has := false; e_load := Raise KeyErrorC |}
  | XValue v => Some {| e_has := true; e_load := Ok v |}
  | XBroken e => Some {| e_has := true; e_load := Raise e |}
  | XSrc k key l =>
      Some {| e_has := present val hkey k w key;
              e_load := match source_value val hkey strip of_list k l w key with Some v => Ok v | None => Raise KeyErrorC end |}
  end.

(* a Parameter description before its source is looked at *)
Record pdesc := { pd_param : param val; pd_ext : extdesc }.
Definition mkp (n : nat) (conv : Z) (chain : list vdesc) (required : bool) (default : option val)
           (exc : exn) (x : extdesc) (json : bool) : pdesc :=
  {| pd_param := {| p_name := n; p_convert := converter conv; p_chain := map interp chain; p_required := required;
                    p_default := default; p_exc := exc; p_ext := None; p_flask_json := json |};
     pd_ext := x |}.

Definition set_ext (p : param val) (x : option (ext val)) : param val :=
  {| p_name := p_name p; p_convert := p_convert p; p_chain := p_chain p; p_required := p_required p;
     p_default := p_default p; p_exc := p_exc p; p_ext := x; p_flask_json := p_flask_json p |}.

Fixpoint bind_world (w : world val) (ps : list pdesc) : outcome (list (param val)) :=
  match ps with
  | [] => Ok []
  | d :: rest =>
      match ext_of w (pd_ext d), bind_world w rest with
      | Ok x, Ok qs => Ok (set_ext (pd_param d) x :: qs)
      | Raise e, _ => Raise e
      | _, Raise e => Raise e
      end
  end.

Definition bind_spec (w : world val) (ps : list pdesc) : list (param val) :=
  map (fun d => set_ext (pd_param d) (spec_ext_of w (pd_ext d))) ps.

Definition mksp (n : nat) (kwonly : bool) (default : option val) : sigparam val :=
  {| sp_name := n; sp_kwonly := kwonly; sp_default := default |}.

Definition mode_of (m : Z) : return_as :=
  match m with 0 => ARGS | 1 => KWARGS_WITH_NONE | _ => KWARGS_WITHOUT_NONE end.

(* what the strict-JSON clause of _wrapper_content sees of the request *)
Definition mkenv (w : world val) : wenv :=
  {| w_flask_installed := true;
     w_request := match wd_request w with
                  | Some rq => Some {| r_is_json := match fr_json rq with Some _ => true | None => false end;
                                       r_json_keys := match fr_json rq with Some (JObject ms) => map fst ms | _ => [] end |}
                  | None => None
                  end |}.

(* ---- encodings ---- *)
Definition b2z (b : bool) : Z := if b then 1 else 0.
Definition enc_val (v : val) : list Z :=
  match v with
  | VNone => [0; 0; 0]
  | VInt z => [1; z; 0]
  | VBool b => [2; b2z b; 0]
  | VStr (SNum z p) => [3; z; b2z p]
  | VStr (SWord k) => [4; k; 0]
  | VSelf => [5; 0; 0]
  | VList items => [6; fold_right (fun it acc => (match it with SNum z p => (z + 50) * 2 + b2z p | SWord k => 200 + k end) + 256 * acc) 0 items;
                    Z.of_nat (List.length items)]
  end.
Definition zn (n : nat) : Z := Z.of_nat n.
Definition enc_exn (e : exn) : list Z := zn (List.length e) :: map zn e.
Definition enc_pn (pn : option name) : Z := match pn with Some n => zn n + 1 | None => 0 end.
Definition enc_dict (d : list (nat * val)) : list Z :=
  zn (List.length d) :: flat_map (fun kv => zn (fst kv) :: enc_val (snd kv)) d.
Definition enc_journal (j : list (jentry val)) : list Z :=
  zn (List.length j) :: flat_map (fun e => zn (fst (fst e)) :: zn (snd (fst e)) :: enc_val (snd e)) j.
Definition enc_final (f : final val) : list Z :=
  match f with
  | FBody b => 0 :: enc_dict b
  | FBodyStar b star => 3 :: enc_dict b ++ zn (List.length star) :: flat_map enc_val star
  | FRaise e pn => 1 :: enc_pn pn :: enc_exn e
  | FNoCall => [2]
  end.
Definition enc_demanded_star (d : demanded_star val) : list Z :=
  match d with
  | DSRaise rs => 1 :: zn (List.length rs) :: flat_map (fun r => enc_pn (snd r) :: enc_exn (fst r)) rs
  | DSPythonRejects => [2]
  | DSBody b star => 3 :: enc_dict b ++ zn (List.length star) :: flat_map enc_val star
  end.
Definition enc_demanded (d : demanded val) : list Z :=
  match d with
  | DRaise rs => 1 :: zn (List.length rs) :: flat_map (fun r => enc_pn (snd r) :: enc_exn (fst r)) rs
  | DPythonRejects => [2]
  | DBody b => 0 :: enc_dict b
  end.

(* the strict-JSON clause at the end of _wrapper_content is outside the property text: cases in which it
   can fire are compared with the model only *)
Definition flask_clause (dc : deco val) (env : wenv) : bool :=
  d_strict dc && w_flask_installed env && all_flask_json val dc
  && match w_request env with
     | None => true
     | Some rq => r_is_json rq
                  && existsb (fun k => negb (existsb (fun p => Nat.eqb (p_name p) k) (d_params dc))) (r_json_keys rq)
     end.

(* 2 = fully specified, 1 = a name reaches a function that has no such parameter and no **kwargs (Python has to reject the
   call in every return_as mode; the gate for declared names is checked on top), 0 = outside the statement *)
(* a call the function could be given; the conditions of Spec.call_wellformed on the name self are NOT required here:
   calls that pass self by keyword, Parameters named self ... are judged against the specification (region of the
   open findings C12-K3 / C13-K3) *)
Definition call_shape_ok (sg : signature val) (c : call val) : bool :=
  Nat.leb (List.length (c_args c)) (List.length (positional_names val sg))
  && nodup_names (map fst (combine (positional_names val sg) (c_args c) ++ c_kwargs c)).

Definition domain (sg : signature val) (dc : deco val) (env : wenv) (c : call val) : Z :=
  if s_varpos sg then
    (if spec_star_domain val sg dc c && negb (flask_clause dc env) then 3            (* 3: *args, principal use: spec_star_outcome *)
     else if decl_wellformed val sg dc && call_shape_ok sg c && negb (flask_clause dc env)
             && names_fit val sg dc (if d_ignore_input dc then {| c_args := []; c_kwargs := [] |} else c)
          then 4   (* 4: *args function, nothing for the tuple, every name a parameter: spec_outcome, empty tuple *)
          else 0)
  else if negb (decl_wellformed val sg dc && call_shape_ok sg c) || flask_clause dc env then 0
  else if names_fit val sg dc (if d_ignore_input dc then {| c_args := []; c_kwargs := [] |} else c) then 2   (* ignore_input: no name of the caller reaches the function *)
  else match demanded_raises val is_none sg dc c with _ :: _ => 2 | [] => 1 end.

(* a source whose has_value() raises is outside the interface of the model of _wrapper_content: distinguished output.
   The model runs on the sources as the regenerated descriptions interpret them, the specification on the sources as
   Spec/ValidateSourcesSpec.v describes them *)
Definition eval_case (pds : list pdesc) (sps : list (sigparam val)) (varkw varpos : bool)
           (mode : Z) (strict ignore is_async : bool) (w : world val)
           (args : list val) (kwargs : list (nat * val)) : list Z :=
  match bind_world w pds with
  | Raise e => -7 :: enc_exn e
  | Ok ps =>
      let sg := {| s_params := sps; s_varkw := varkw; s_varpos := varpos |} in
      let dc := {| d_params := ps; d_mode := mode_of mode; d_strict := strict; d_ignore_input := ignore |} in
      let ds := {| d_params := bind_spec w pds; d_mode := mode_of mode; d_strict := strict; d_ignore_input := ignore |} in
      let env := mkenv w in
      let c := {| c_args := args; c_kwargs := kwargs |} in
      let r := run val is_none Gen.Validate.cfg Gen.Validate.is_required_rule sg env dc is_async c in
      enc_journal (fst r) ++ enc_final (snd r) ++ [-1]
      ++ [domain sg ds env c]
      ++ (if domain sg ds env c =? 3 then enc_demanded_star (spec_star_outcome val is_none sg ds c) else enc_demanded (spec_outcome val is_none sg ds c))
      ++ enc_journal (concat (spec_journals val is_none sg ds c))
  end.

(* has_value() / load_value() of one source object in a world (stream validate-sources):
   model ++ [-1] ++ specification (present; the value held, if any) *)
Definition enc_has (h : outcome bool) : list Z := match h with Ok b => [0; b2z b] | Raise e => 1 :: enc_exn e end.
Definition enc_load (l : wres val) : list Z := match l with WOk v => 0 :: enc_val v | WRaise e pn => 1 :: enc_pn pn :: enc_exn e end.

Definition eval_probe (k : source_kind) (key : nat) (as_list : bool) (w : world val) : list Z :=
  let s := {| s_cls := class_of_kind k; s_key := key; s_list := as_list; s_catch := true |} in
  enc_has (src_has_v s w) ++ enc_load (src_load_v s w) ++ [-1]
  ++ [b2z (in_context val k w); b2z (present val hkey k w key)]
  ++ match source_value val hkey strip of_list k as_list w key with Some v => 1 :: enc_val v | None => [0] end.

Definition eval_probe_deser (key : nat) (catch : bool) (w : world val) : list Z :=
  let s := {| s_cls := generic_flask_deserializer; s_key := key; s_list := false; s_catch := catch |} in
  enc_has (src_has_v s w) ++ enc_load (src_load_v s w) ++ [-1].
