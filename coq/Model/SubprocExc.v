(* C17 - identity and lifetime of the exception that reports a silent child death (input dimensions `hold`
   and `round` of harness/c17.py: several failed invocations in one process, the callers keep / drop what
   they caught).

   Where is the reported exception constructed?  PASetChildProcessError - the only handler action the
   translator emits - is the statement `result = SubprocessError(ex=ChildProcessError(<str>))` INSIDE the
   handler: a new object per invocation (OHandler).  One instance constructed at import and re-raised
   (OModule) is in the vocabulary of this model only; Props/C17.v refutes it.

   Raising an exception object adds the raising frame to ITS traceback.  The frame of a finished invocation
   holds the invocation's Process object, which owns two descriptors (the sentinel and the parent's end of
   the fork pipe of multiprocess); they are closed when the Process object is freed, i.e. when the frame is
   no longer reachable: from an exception object a caller still holds, or from a module global.

   No proofs in this file. *)
From Coq Require Import List Arith Bool ZArith.
From PV Require Import Base.Exn Model.PipeKernel Model.Subproc.
Import ListNotations.

Inductive origin := OHandler | OModule.

Definition origin_of_action (a : paction) : origin :=
  match a with PASetChildProcessError => OHandler end.

Definition report_origins (P : list pop) : list origin :=
  flat_map (fun o => match o with
                     | PRecv hs | PRecvDefer hs => map (fun h => origin_of_action (snd h)) hs
                     | _ => []
                     end) P.

Definition is_handler (o : origin) : bool := match o with OHandler => true | OModule => false end.

(* the program reports a silent death, and every such report is constructed in its handler *)
Definition origin_of (P : list pop) : option origin :=
  match report_origins P with
  | [] => None
  | l => if forallb is_handler l then Some OHandler else Some OModule
  end.

(* how an invocation of the process ended *)
Inductive ending := IReturn | IRaise | IDeath.     (* value / the callee's exception (unpickled: always a new object) /
                                                      report of a silent child death *)

(* identity of the object handed to the awaiting task of the i-th invocation of the process; 0 = the module's *)
Definition handed (o : origin) (i : nat) (e : ending) : nat :=
  match o, e with OModule, IDeath => 0 | _, _ => S i end.
Definition handed_p (o : origin) (p : nat * ending) : nat := handed o (fst p) (snd p).

(* ends : the invocations of the process in the order of their completion; the failed ones with their index *)
Fixpoint failures (ends : list ending) (k : nat) : list (nat * ending) :=
  match ends with
  | [] => []
  | e :: r => (match e with IReturn => [] | _ => [(k, e)] end) ++ failures r (S k)
  end.

Definition is_death (e : ending) : bool := match e with IDeath => true | _ => false end.
Definition is_failure (e : ending) : bool := match e with IReturn => false | _ => true end.
Definition count_deaths (ends : list ending) : nat := List.length (filter is_death ends).
Definition count_failed (ends : list ending) : nat := List.length (filter is_failure ends).

(* objects reachable when the callers still hold what the invocations `held` were handed *)
Definition roots (o : origin) (held : list (nat * ending)) : list nat :=
  (match o with OModule => [0] | OHandler => [] end) ++ map (handed_p o) held.

(* frames of failed invocations still reachable through a traceback *)
Definition live_frames (o : origin) (ends : list ending) (held : list (nat * ending)) : list (nat * ending) :=
  filter (fun p => existsb (Nat.eqb (handed_p o p)) (roots o held)) (failures ends 0).

Definition open_fds (o : origin) (ends : list ending) (held : list (nat * ending)) : nat :=
  2 * List.length (live_frames o ends held).

(* entry point for the harness: [ descriptors open when the callers have dropped everything ;
   descriptors open while they hold everything ; 1 = two silent deaths are reported by different objects ] *)
Definition eval_exc (P : list pop) (ends : list ending) : list Z :=
  match origin_of P with
  | None => [9%Z]
  | Some o => [Z.of_nat (open_fds o ends []); Z.of_nat (open_fds o ends (failures ends 0));
               if Nat.eqb (handed o 0 IDeath) (handed o 1 IDeath) then 0%Z else 1%Z]
  end.
