(* contextlib._GeneratorContextManager.__enter__/__exit__ and the async twin
   (_AsyncGeneratorContextManager.__aenter__/__aexit__), transcribed branch by branch from
   CPython 3.12.1 Lib/contextlib.py lines 132-192 and 199-262.  `self.gen` is a generator
   object of Model/Generator.v.  The two classes differ only in next/anext, throw/athrow,
   close/aclose, the stop class and the isinstance test of the RuntimeError branch; that
   difference is the `variant` parameter.  No proofs here.

   Not modelled: `value is None -> value = typ()` (a with statement always passes an
   instance), the __traceback__ assignments, __doc__.                                      *)
From Coq Require Import List Arith Bool.
From PV Require Import Base.Exn Model.Generator.
Import ListNotations.

(*  def __enter__(self):
        try:
            return next(self.gen)
        except StopIteration:
            raise RuntimeError("generator didn't yield") from None                          *)
Definition cm_enter (v : variant) (g : genobj) (w : world) : res val * genobj * world :=
  match g_next v g w with
  | (ROk x, g', w') => (ROk x, g', w')
  | (RRaise e, g', w') =>
      if isinst e (stop_class v)
      then let (r, w'') := alloc RuntimeErrorC (OCtxlib 0) None w' in (RRaise r, g', w'')
      else (RRaise e, g', w')
  end.

(* raise RuntimeError(...) finally: self.gen.close()  -- an exception of close() replaces it *)
Definition didnt_stop (v : variant) (k : nat) (g : genobj) (w : world) : res bool * genobj * world :=
  let (r, w1) := alloc RuntimeErrorC (OCtxlib k) None w in
  match g_close v g w1 with
  | (ROk _, g', w2) => (RRaise r, g', w2)
  | (RRaise e, g', w2) => (RRaise e, g', w2)
  end.

(*  def __exit__(self, typ, value, traceback):    result: the truth value returned           *)
Definition cm_exit (v : variant) (g : genobj) (ex : option exc) (w : world) : res bool * genobj * world :=
  match ex with
  | None =>
      (* try: next(self.gen)  except StopIteration: return False  else: "generator didn't stop" *)
      match g_next v g w with
      | (RRaise e, g', w') => if isinst e (stop_class v) then (ROk false, g', w') else (RRaise e, g', w')
      | (ROk _, g', w') => didnt_stop v 1 g' w'
      end
  | Some value =>
      match g_throw v g value w with
      | (RRaise e, g', w') =>
          if isinst e (stop_class v) then
            (* except StopIteration as exc: return exc is not value *)
            (ROk (negb (same e value)), g', w')
          else if isinst e RuntimeErrorC then
            (* except RuntimeError as exc: *)
            if same e value then (ROk false, g', w')
            else if stop_like v (ecls value) && cause_is e value then (ROk false, g', w')
            else (RRaise e, g', w')
          else
            (* except BaseException as exc: if exc is not value: raise;  return False *)
            if same e value then (ROk false, g', w') else (RRaise e, g', w')
      | (ROk _, g', w') => didnt_stop v 2 g' w'
      end
  end.
